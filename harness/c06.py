"""C06 — client connection reuse never mixes responses.

A real aiohttp.ClientSession runs on the virtual-time loop against scripted in-memory peers.  A *history* is a
list of external stimuli (never a permutation of asyncio's ready queue):
  ["req", k]                 create the task of request k (parameters and caller behaviour in case["reqs"][k])
  ["data", c, [tok, ...]]    the peer of transport c delivers ONE read (one data_received call) made of tokens
                               ["H", blen, close, upg]  complete response head (Content-Length blen | 101 upgrade)
                               ["Y", n]                 n bytes without a line end (body bytes when a body is due)
                               ["J"]                    a complete head block that is not HTTP
                               ["Q"]                    an incomplete line
  ["pclose", c, oserr]       the peer closes (oserr=1: the transport reports an OSError)
  ["cmd", k, "read"|"release"|"close"]   what a caller that was holding its response does next
  ["cancel", k]              task.cancel()
  ["run"]                    run the loop until nothing is ready
Stimuli that are not applicable (closed transport, finished request) are skipped.  Several stimuli between two
"run"s land in the same loop iteration: that is how "surplus bytes before the reader woke up", "bytes between
release and re-acquisition" and "early response" are reached.

Every token carries a unique marker (X-M header / body byte), so what each caller received can be traced back
to the read that delivered it.  Three things are checked on every history:
  * trace validation: the implementation's event log (connect, set_response_params, head read, body read,
    release/close, each data_received, connection_lost) is replayed by the extracted Coq model
    (coq/Model/ClientConn.v) and the abstract snapshot after every event must be equal;
  * the property oracle, evaluated on the implementation only (harness-side bookkeeping of who owned the
    connection when each read was delivered): no caller gets a head or body byte that was delivered outside
    its own exchange; no connection that is dirty by the property's own list is handed out again; a reused
    connection was created for the same host, port, TLS settings and proxy;
  * the model's ghost verdict (ill-tagged deliveries) must coincide with the oracle's.
Instrumentation is harness-side only (ResponseHandler / TCPConnector subclasses, a wrapper around
client._connect_and_send_request); /repo is not edited.
"""
from __future__ import annotations

import asyncio
import glob
import json
import os
import warnings
from unittest import mock

from harness.common import framework as fw

PROP = "C06"
GENERATED = ["ClientConnGen.v"]
RULE = ("histories of stimuli (req/data/pclose/cmd/cancel/run) over 2-6 requests, 1-3 connection keys drawn from "
        "host x port x scheme x ssl x proxy x proxy-headers x server_hostname, peers that answer properly or send "
        "surplus heads/partial lines/garbage/short or long bodies/close at any point, with the position of the surplus "
        "enumerated against response end, release and re-acquisition (structured suite) or drawn from one PRNG seeded "
        "by VERIF_SEED (random suite), plus the corpus.  Every history runs on the real ClientSession; its event log "
        "is validated step by step against the extracted model and the property oracle is evaluated on the "
        "implementation.  Non-trivial = at least one pooled connection was handed out again; distinct by hash of "
        "the event log with snapshots.")
TRUSTED = [
    "translator/gen_clientconn.py (should_close disjunction, _release/_get tests, connection_key tuple, ast shape "
    "checks of the close-on-failure paths)",
    "extraction: ExtrOcamlBasic only; ocaml/common/conv.ml + ocaml/C06/driver.ml (event parsing, macro events "
    "D/P expanded into token steps, snapshot printing)",
    "correspondence harness harness/c06.py (ResponseHandler/TCPConnector subclasses that log, wrapper around "
    "client._connect_and_send_request, in-memory transports): sampled, not proved",
    "modelled, not verified: the HTTP byte parser is abstracted to tokens (its own properties are C01/C03/C10); "
    "asyncio scheduling is taken from the implementation's log (trace validation), not modelled; TLS, proxies and "
    "DNS are key fields only (connections are in-memory); keep-alive expiry, connection limits (C07), 1xx responses, "
    "chunked / read-until-EOF bodies, request bodies and WebSocket frames after an upgrade are outside the model",
]
ASSUMPTIONS = [
    "Requests are GETs without a body; responses are framed by Content-Length (or are 101 upgrades).",
    "Idle pooled connections stay within keepalive_timeout; the connection limit is never reached.",
    "Model/implementation agreement is validated on the generated histories only.",
]

ALPHA = b"ABCDEFGHIJKLMNOPQRSTUVWXYZabcdefghijklmnopqrstuvwxyz0123456789"
HOSTS = ["h0.test", "h1.test"]
PROXIES = [None, "http://p1.test:3128", "http://p2.test:3128"]
PHDRS = [None, {"X-P": "1"}, {"X-P": "2"}]
SNIS = [None, "a.test", "b.test"]
FP = [bytes([1]) * 32, bytes([2]) * 32]


# ---------------------------------------------------------------------------------------------
# signatures of the open known findings

# both former findings (C06-stale-response-from-pool, C06-partial-surplus-reused) are fixed in /repo: no failure
# of this property is expected any more, nothing is suppressed
SIGNATURES: dict = {}


def build_model():
    try:
        return fw.ocaml_model("C06", ["Model/ClientConn.vo"])
    except Exception as e:  # noqa  (e.g. the generated file is missing because the translator failed closed)
        return False, f"model build failed: {e!r}"


# ---------------------------------------------------------------------------------------------
# the simulator

def enc_token(tok, tid):
    k = tok[0]
    if k == "H":
        _, blen, close, upg = tok
        if upg:
            return (b"HTTP/1.1 101 Switching Protocols\r\nX-M: %d\r\nUpgrade: websocket\r\nConnection: upgrade\r\n\r\n" % tid)
        h = b"HTTP/1.1 200 OK\r\nX-M: %d\r\nContent-Length: %d\r\n" % (tid, blen)
        if close:
            h += b"Connection: close\r\n"
        return h + b"\r\n"
    if k == "Y":
        return bytes([ALPHA[tid]]) * tok[1]
    if k == "N":        # a bodiless answer (204); tok[1] = 1: Connection: close, 2: HTTP/1.0 without keep-alive
        if tok[1] == 2:
            return b"HTTP/1.0 204 No Content\r\nX-M: %d\r\n\r\n" % tid
        return b"HTTP/1.1 204 No Content\r\nX-M: %d\r\n%s\r\n" % (tid, b"Connection: close\r\n" if tok[1] else b"")
    if k == "U":        # a head without any framing: the body (if any) is delimited by the connection close
        return b"HTTP/1.1 200 OK\r\nX-M: %d\r\nServer: x\r\n\r\n" % tid
    if k == "J":
        return b"garbage-%d\r\n\r\n" % tid
    if k == "Q":
        # one model token (KPartial: "an incomplete line / incomplete head block"), three spellings: a partial line
        # (kept in HttpParser._tail), complete lines of an unfinished head (kept in HttpParser._lines), or both
        form = tok[1] if len(tok) > 1 else 0
        if form == 1:
            return b"HTTP/1.1 200 OK\r\nX-U: %d\r\n" % tid
        if form == 2:
            return b"HTTP/1.1 200 OK\r\nX-U: %d\r\nX-" % tid
        return b"HT"
    raise ValueError(tok)


def tok_str(tok, tid):
    k = tok[0]
    if k == "H":
        return f"H:{tid}:{0 if tok[3] else tok[1]}:{int(bool(tok[2]))}:{int(bool(tok[3]))}"
    if k == "Y":
        return f"Y:{tid}:{tok[1]}"
    return f"{k}:{tid}"      # J, Q (model tokens) and U, N (oracle-only histories)


class Sim:
    def __init__(self, case):
        import aiohttp
        from aiohttp.client_proto import ResponseHandler
        from harness.common.loop import VLoop
        from harness.common.transport import MemTransport
        import aiohttp.client as client_mod

        self.case = case
        self.reqs = case["reqs"]
        sim = self
        self.loop = VLoop()
        asyncio.set_event_loop(self.loop)
        self.protos: list = []          # index = connection id
        self.trs: list = []
        self.creator: list = []         # request spec that created connection c
        self.owner: dict = {}           # c -> exchange currently holding it (None: pooled / closed)
        self.req_of: dict = {}          # exchange -> request
        self.exch_conn: dict = {}
        self.cur_exch: dict = {}        # task -> exchange of the running _connect_and_send_request
        self.nexch = 0
        self.ntok = 0
        self.tokens: dict = {}          # id -> info (oracle bookkeeping)
        self.events: list = []          # (model event string, impl snapshot string)
        self.tasks: dict = {}
        self.queues: dict = {}
        self.state: dict = {}           # k -> new|running|hold|reading|done
        self.resp_exch: dict = {}
        self.result: dict = {}
        self.violations: list = []      # (kind, text)
        self.reused = 0
        self.harness_errors: list = []
        self.in_seg = None              # (c, list of token ids) while data_received runs
        self.seg_pool_release = False
        # peer-side framing and the property's own dirtiness bookkeeping, per connection
        self.par_rem: dict = {}         # mirror of the current parser: body bytes it still expects
        self.nparams: dict = {}
        self.prog: dict = {}            # None | int remaining | "done"   (response of the current exchange)
        self.dirty_items: dict = {}     # c -> list of [reason, token id | None]
        self.exc_log: list = []
        self.keep: list = []
        self.conn_rue: dict = {}        # c -> the current parser reads an unframed body until EOF
        self.conn_head: dict = {}       # c -> the request in flight is a HEAD (responses carry no body)
        self.req_start: dict = {}       # c -> offset in the transport's output where the current request starts
        self.up_events: dict = {}       # k -> event that lets the request body generator go on
        self.fingerprints = [aiohttp.Fingerprint(fp) for fp in FP]

        class Traced(ResponseHandler):
            def set_response_params(self, **kw):
                super().set_response_params(**kw)
                sim.on_params(self)

        class Connector(aiohttp.TCPConnector):
            async def _create_connection(self, req, traces, timeout):
                proto = self._factory()
                tr = MemTransport(sim.loop, proto, on_write=None)
                proto.connection_made(tr)
                sim.protos.append(proto)
                sim.trs.append(tr)
                sim.creator.append(sim.spec_of_task())
                c = len(sim.protos) - 1
                sim.par_rem[c] = 0
                sim.nparams[c] = 0
                sim.prog[c] = None
                sim.dirty_items[c] = []
                return proto

            async def connect(self, req, traces, timeout):
                before = len(sim.protos)
                conn = await super().connect(req, traces, timeout)
                sim.on_connect(conn, req, fresh=len(sim.protos) > before)
                return conn

            def _release(self, key, protocol, *, should_close=False):
                c = sim.index_of(protocol)
                was_acquired = protocol in self._acquired
                super()._release(key, protocol, should_close=should_close)
                if c is not None and was_acquired:
                    sim.on_release(c, pooled=sim.is_pooled(protocol))

        orig = client_mod._connect_and_send_request

        async def wrapped(req):
            task = asyncio.current_task()
            sim.nexch += 1
            e = sim.nexch
            sim.cur_exch[task] = e
            sim.req_of[e] = sim.task_k.get(task)
            try:
                resp = await orig(req)
            except (asyncio.CancelledError, asyncio.TimeoutError):
                if e in sim.exch_conn:
                    sim.log(f"X.{e}")
                raise
            except BaseException as ex:  # noqa
                if e in sim.exch_conn:
                    sim.log(f"R.{e}", out="E" + str(sim.err_code(ex)))
                raise
            mark = int(resp.headers.get("X-M", "-1"))
            sim.deliver(e, [mark])
            sim.log(f"R.{e}", new=[(mark, e)], out="H")
            sim.resp_exch[id(resp)] = e
            return resp

        self.patch = mock.patch.object(client_mod, "_connect_and_send_request", wrapped)
        self.patch.start()
        self.task_k: dict = {}

        from harness.common.loop import patched_time
        self.ptime = patched_time(self.loop)
        self.ptime.__enter__()
        self.advanced = 0.0

        async def mk():
            kwc = {}
            if case.get("keepalive") and not case.get("force_close"):
                kwc["keepalive_timeout"] = case["keepalive"]
            conn = Connector(force_close=bool(case.get("force_close")), resolver=aiohttp.ThreadedResolver(), use_dns_cache=False, **kwc)
            conn._factory = lambda: Traced(loop=sim.loop)
            kws = {}
            if case.get("trace_yield"):
                tc = aiohttp.TraceConfig()

                async def on_reuse(session, ctx, params):
                    await asyncio.sleep(0)

                tc.on_connection_reuseconn.append(on_reuse)
                kws["trace_configs"] = [tc]
            return conn, aiohttp.ClientSession(connector=conn, **kws)

        try:
            self.connector, self.session = self.loop.run_until_complete(mk())
        except BaseException:
            self.ptime.__exit__(None, None, None)
            self.patch.stop()
            raise

    # -- helpers -----------------------------------------------------------------------------
    def spec_of_task(self):
        k = self.task_k.get(asyncio.current_task())
        return self.reqs[k] if k is not None else None

    def index_of(self, proto):
        for i, p in enumerate(self.protos):
            if p is proto:
                return i
        return None

    def is_pooled(self, proto):
        return any(p is proto for dq in self.connector._conns.values() for p, _ in dq)

    @staticmethod
    def err_code(ex):
        import aiohttp
        if isinstance(ex, aiohttp.ServerDisconnectedError):
            return 2
        if isinstance(ex, aiohttp.ClientOSError):
            return 3
        if isinstance(ex, aiohttp.ClientResponseError):
            return 1
        return 9

    def snapshot(self, new=(), out="-"):
        conns = []
        for c, proto in enumerate(self.protos):
            if proto in self.connector._acquired:
                ph = f"F{self.owner.get(c)}"
            elif self.is_pooled(proto):
                ph = "I"
            else:
                ph = "X"
            connected = proto.is_connected()
            if connected:
                fl = "".join(str(int(bool(b))) for b in (proto._should_close, proto._upgraded, proto._tail,
                                                         proto._exception is not None, proto.should_close))
            else:
                fl = "-"
            conns.append(f"{ph}:{int(connected)}:{len(proto._buffer)}:{fl}")
        pool = []
        for dq in self.connector._conns.values():
            for i, (p, _) in enumerate(dq):
                pool.append((self.index_of(p), i))
        pool.sort()
        return "%s;pool=%s;new=%s;o=%s" % ("/".join(conns), ",".join(f"{c}.{i}" for c, i in pool),
                                           ",".join(f"{m}>{e}" for m, e in new), out)

    def log(self, ev, new=(), out="-"):
        self.events.append((ev, self.snapshot(new, out)))

    def keycodes(self, spec):
        return "%d.%d.%d.%d.%d.%d.%d" % (spec["host"], spec["port"], spec["scheme"], spec["ssl"], spec["proxy"],
                                         spec["phdr"] if spec["proxy"] else 0, spec["sni"])

    # -- implementation callbacks ---------------------------------------------------------------
    def on_connect(self, conn, req, fresh):
        task = asyncio.current_task()
        e = self.cur_exch[task]
        c = self.index_of(conn.protocol)
        spec = self.spec_of_task()
        self.exch_conn[e] = c
        prev = self.owner.get(c)
        if prev is not None and prev != e:
            self.violations.append(("reuse:held", f"connection {c} handed to exchange {e} (request {self.req_of[e]}) while exchange {prev} still holds it"))
        self.owner[c] = e
        if not fresh:
            written = bytes(self.trs[c].buf[self.req_start.get(c, 0):])
            head = written.split(b"\r\n\r\n", 1)[0].lower()
            if b"transfer-encoding: chunked" in head and not written.endswith(b"0\r\n\r\n"):
                self.violations.append(("reuse:upload-cut", f"connection {c} handed to exchange {e} although the chunked body of the previous request on it was never terminated"))
        self.req_start[c] = len(self.trs[c].buf)
        if not fresh:
            self.reused += 1
            # oracle: a dirty connection must not be handed out again; same key
            if self.dirty_items[c]:
                # the first thing that made it dirty (later reasons are shadowed by it)
                reason = self.dirty_items[c][0][0]
                self.violations.append(("reuse:" + reason, f"connection {c} handed to exchange {e} (request {self.req_of[e]}) although it is dirty: {reason}"))
            a, b = self.creator[c], spec
            diff = [f for f in ("host", "port", "scheme", "ssl", "proxy", "sni") if a[f] != b[f]]
            if a["proxy"] and a["phdr"] != b["phdr"]:
                diff.append("phdr")
            if diff:
                self.violations.append(("key:" + ",".join(diff), f"connection {c} created for {a} reused for {b}"))
        self.prog[c] = None
        if fresh:
            self.conn_rue[c] = not (spec.get("ws") or spec.get("rue", 1) == 0)
            self.conn_head[c] = bool(spec.get("head"))
        self.log(f"C.{e}.{self.keycodes(spec)}")
        if fresh and spec.get("early"):
            self.send(c, spec["early"])

    def on_params(self, proto):
        c = self.index_of(proto)
        self.nparams[c] += 1
        if self.nparams[c] > 1:
            self.par_rem[c] = 0         # a new parser starts at a head (the first one replays _tail)
        spec = self.reqs[self.req_of[self.owner[c]]] if self.req_of.get(self.owner.get(c)) is not None else {}
        self.conn_rue[c] = not (spec.get("ws") or spec.get("rue", 1) == 0)
        self.conn_head[c] = bool(spec.get("head"))
        self.log(f"P.{self.owner.get(c)}")

    def on_release(self, c, pooled):
        if self.prog.get(c) != "done":
            self.mark(c, "incomplete")
        self.owner[c] = None
        if pooled and self.in_seg is not None and self.in_seg[0] == c:
            self.seg_pool_release = True

    def deliver(self, e, ids):
        """oracle: everything handed to exchange e must have been delivered while e held the connection"""
        for tid in ids:
            t = self.tokens.get(tid)
            if t is None:
                self.violations.append(("mix:unknown", f"exchange {e} received marker {tid} that no peer sent"))
                continue
            if t["owner"] != e or t.get("post_release"):
                if t["owner"] is None:
                    kind = "mix:idle"
                elif t.get("post_release"):
                    kind = "mix:post-release"
                else:
                    kind = "mix:other"
                self.violations.append((kind, f"exchange {e} (request {self.req_of.get(e)}) received token {tid} sent on connection {t['conn']} "
                                              f"while it was {'pooled' if t['owner'] is None else 'held by exchange %s' % t['owner']}"
                                              f"{' (after the end of that response, same read)' if t.get('post_release') else ''}"))
            t.setdefault("delivered_to", []).append(e)

    # -- stimuli ---------------------------------------------------------------------------------
    def send(self, c, toks):
        if c >= len(self.trs) or self.trs[c].closed or self.protos[c].transport is None:
            return False
        ids = []
        data = b""
        owner = self.owner.get(c)
        completing = None
        # stay inside the model's domain: while the parser expects body bytes, whatever arrives IS body
        # bytes, so only "Y" tokens are meaningful there (other tokens of the read are dropped)
        kept = []
        for tok in toks:
            if self.par_rem[c] > 0 and tok[0] != "Y":
                continue
            if tok[0] == "H" and not tok[3]:
                self.par_rem[c] = 0 if self.conn_head.get(c) else tok[1]
            elif tok[0] == "U":
                if self.conn_rue.get(c, True):
                    self.par_rem[c] = 10 ** 9       # everything up to the close is body
            elif tok[0] == "Y":
                self.par_rem[c] = max(0, self.par_rem[c] - tok[1])
            kept.append(tok)
        toks = kept
        if not toks or self.ntok + len(toks) > len(ALPHA):
            return False
        for tok in toks:
            tid = self.ntok
            self.ntok += 1
            ids.append(tid)
            data += enc_token(tok, tid)
            self.tokens[tid] = {"conn": c, "owner": owner, "tok": tok}
            # peer-side framing + the property's notion of dirty (independent of the implementation's flags)
            self.track(c, tok, tid, owner)
            if completing is None and self.prog[c] == "done" and owner is not None:
                completing = len(ids) - 1
        self.in_seg = (c, ids)
        self.seg_pool_release = False
        try:
            self.protos[c].data_received(data)
        finally:
            self.in_seg = None
        if self.seg_pool_release and completing is not None:
            late = set(ids[completing + 1:])
            for tid in late:
                self.tokens[tid]["post_release"] = True
            for it in self.dirty_items[c]:
                if it[1] in late:
                    it[0] = "post-release"
        self.log("D.%d.%s" % (c, ",".join(tok_str(t, i) for t, i in zip(toks, ids)) or "-"))
        return True

    def mark(self, c, reason, tid=None):
        self.dirty_items[c].append([reason, tid])

    def track(self, c, tok, tid, owner):
        if owner is None:
            self.mark(c, "idle-bytes", tid)
            return
        p = self.prog[c]
        k = tok[0]
        if p == "until-close":
            return                      # (unread) close-delimited body; the connection is dirty at release anyway
        if p is None and k == "U":
            self.prog[c] = "until-close"
            return
        if p is None and k == "N":
            self.prog[c] = "done"
            if tok[1]:
                self.mark(c, "close-announced", tid)
            return
        if p is None and k == "H" and not tok[3] and self.conn_head.get(c):
            self.prog[c] = "done"
            if tok[2]:
                self.mark(c, "close-announced", tid)
            return
        if p is None:
            if k == "H":
                if tok[3]:
                    self.prog[c] = "done"
                    self.mark(c, "upgraded", tid)
                else:
                    self.prog[c] = tok[1] if tok[1] > 0 else "done"
                    if tok[2]:
                        self.mark(c, "close-announced", tid)
            else:
                self.mark(c, "garbage", tid)
        elif p == "done":
            self.mark(c, "partial-surplus" if k in ("Q", "Y") else "surplus", tid)
        else:
            if k == "Y":
                if tok[1] < p:
                    self.prog[c] = p - tok[1]
                else:
                    self.prog[c] = "done"
                    if tok[1] > p:
                        self.mark(c, "partial-surplus", tid)
            else:
                self.mark(c, "garbage", tid)

    def pclose(self, c, oserr):
        if c >= len(self.trs) or self.trs[c].closed or self.protos[c].transport is None:
            return False
        self.mark(c, "peer-closed")
        self.trs[c].peer_close(OSError(104, "reset") if oserr else None)
        self.log(f"Z.{c}.{int(bool(oserr))}")
        return True

    def start(self, k):
        if k in self.tasks or k >= len(self.reqs):
            return False
        spec = self.reqs[k]
        self.queues[k] = asyncio.Queue()
        self.state[k] = "new"
        t = self.loop.create_task(self.request_task(k, spec))
        self.tasks[k] = t
        self.task_k[t] = k
        return True

    async def request_task(self, k, spec):
        import aiohttp
        kw = {}
        url = "%s://%s:%d/r%d" % ("https" if spec["scheme"] else "http", HOSTS[spec["host"]], spec["port"], k)
        if spec["ssl"] == 1:
            kw["ssl"] = False
        elif spec["ssl"] >= 2:
            kw["ssl"] = self.fingerprints[spec["ssl"] - 2]      # the same object every time (Fingerprint has no __eq__)
        if spec["proxy"]:
            kw["proxy"] = PROXIES[spec["proxy"]]
            if spec["phdr"]:
                kw["proxy_headers"] = PHDRS[spec["phdr"]]
        if spec["sni"]:
            kw["server_hostname"] = SNIS[spec["sni"]]
        self.state[k] = "running"
        try:
            if spec.get("rue", 1) == 0:
                kw["read_until_eof"] = False
            if spec.get("ws"):
                # a WebSocket handshake the origin never accepts: ws_connect passes read_until_eof=False
                resp = (await self.session.ws_connect(url, **kw))._response
            elif spec.get("head"):
                resp = await self.session.head(url, **kw)
            elif spec.get("upload"):
                # a streamed (chunked) request body whose second chunk waits for the "upgo" stimulus
                ev = self.up_events.setdefault(k, asyncio.Event())

                async def body():
                    yield b"u" * 3
                    await ev.wait()
                    yield b"v" * 2

                resp = await self.session.post(url, data=body(), **kw)
            else:
                resp = await self.session.get(url, **kw)
        except BaseException as ex:  # noqa
            self.state[k] = "done"
            self.result[k] = ("exc", type(ex).__name__)
            if not isinstance(ex, (aiohttp.ClientError, asyncio.CancelledError, asyncio.TimeoutError)):
                self.harness_errors.append(f"request {k}: {ex!r}")
            return
        self.keep.append(resp)          # no garbage-collection driven release during the history
        e = self.resp_exch[id(resp)]
        self.result[k] = ("head", int(resp.headers.get("X-M", "-1")))
        cmd = spec.get("after", "read")
        try:
            if cmd == "hold":
                self.state[k] = "hold"
                try:
                    cmd = await self.queues[k].get()
                except asyncio.CancelledError:
                    resp.close()
                    self.log(f"X.{e}")
                    raise
            if cmd == "read":
                self.state[k] = "reading"
                try:
                    body = await resp.read()
                except asyncio.CancelledError:
                    self.log(f"X.{e}")
                    raise
                except BaseException as ex:  # noqa
                    self.log(f"B.{e}", out="E")
                    self.result[k] += ("bodyexc", type(ex).__name__)
                else:
                    ids = []
                    for b in body:
                        i = ALPHA.find(bytes([b]))
                        if not ids or ids[-1] != i:
                            ids.append(i)
                    self.deliver(e, ids)
                    self.log(f"B.{e}", new=[(i, e) for i in ids], out="B")
                    self.result[k] += ("body", len(body))
            elif cmd == "release":
                resp.release()
                self.log(f"L.{e}")
            else:
                resp.close()
                self.log(f"X.{e}")
        finally:
            self.state[k] = "done"

    def apply(self, st):
        op = st[0]
        if op == "req":
            return self.start(st[1])
        if op == "run":
            self.loop.run_until_idle()
            return True
        if op == "data":
            return self.send(st[1], [tuple(t) for t in st[2]])
        if op == "pclose":
            return self.pclose(st[1], st[2])
        if op == "peof":
            # the peer's EOF reached the transport: it is closing, connection_lost comes one loop step later
            c = st[1]
            if c >= len(self.trs) or self.trs[c].closed or self.protos[c].transport is None:
                return False
            self.mark(c, "peer-closed")
            self.trs[c].close()
            return True
        if op == "upgo":
            k = st[1]
            if k in self.up_events and not self.up_events[k].is_set():
                self.up_events[k].set()
                return True
            return False
        if op == "advance":
            if self.advanced + st[1] > 200:      # stay clear of the 300 s total timeout
                return False
            self.advanced += st[1]
            self.loop.advance(st[1])
            self.loop.run_until_idle()
            return True
        if op == "cmd":
            k = st[1]
            if self.state.get(k) == "hold" and self.queues[k].empty():
                self.queues[k].put_nowait(st[2])
                return True
            return False
        if op == "cancel":
            k = st[1]
            t = self.tasks.get(k)
            if t is not None and not t.done() and self.state.get(k) in ("running", "hold", "reading"):
                t.cancel()
                return True
            return False
        raise ValueError(st)

    def finish(self):
        self.loop.run_until_idle()
        nlogged = len(self.events)
        for t in self.tasks.values():
            if not t.done():
                t.cancel()
        self.loop.run_until_idle()
        for ctx in self.loop.exceptions:
            msg = ctx.get("message", "")
            if "Unclosed" in msg:
                continue
            self.exc_log.append(msg + " " + repr(ctx.get("exception")))
        return nlogged

    def close(self):
        try:
            self.patch.stop()
            self.ptime.__exit__(None, None, None)
            with warnings.catch_warnings():
                warnings.simplefilter("ignore")
                for r in self.keep:
                    try:
                        r.close()
                    except Exception:  # noqa
                        pass
                self.loop.run_until_complete(self.session.close())
                self.loop.run_until_idle()
        finally:
            asyncio.set_event_loop(None)
            self.loop.close()


def run_history(case):
    """-> dict(events, applied, violations, kinds, reused, errors)"""
    sim = Sim(case)
    applied = []
    try:
        with warnings.catch_warnings():
            warnings.simplefilter("ignore")
            for st in case["hist"]:
                if sim.apply(st):
                    applied.append(st)
            n = sim.finish()
        res = {"events": sim.events[:n], "cleanup_events": sim.events[n:], "applied": applied,
               "violations": list(sim.violations), "reused": sim.reused,
               "errors": sim.harness_errors + sim.exc_log, "results": dict(sim.result),
               "tokens": {i: {k: v for k, v in t.items() if k != "tok"} for i, t in sim.tokens.items()}}
    finally:
        sim.close()
    return res


# ---------------------------------------------------------------------------------------------
# model side

def model_line(case, events, strict=False):
    return "RUN %d %d %s" % (int(bool(case.get("force_close"))), int(strict), " ".join(ev for ev, _ in events))


def split_model(ans):
    return [p.strip() for p in ans.split(" | ")] if ans else []


def compare(case, res, ans):
    """-> (first difference or None, set of ill-tagged token ids per the model's ghost, model dirty-reuse flags)"""
    snaps = split_model(ans)
    bad_ids = set()
    diff = None
    for i, (ev, impl) in enumerate(res["events"]):
        if i >= len(snaps):
            diff = (i, ev, "<no answer>", impl)
            break
        m = snaps[i]
        if m.startswith("NONE@"):
            diff = (i, ev, "event not enabled in the model", impl)
            break
        mcore, _, ghost = m.partition(";g=")
        for d in mcore.split(";new=")[1].split(";")[0].split(","):
            if d and d.endswith("!"):
                bad_ids.add(int(d.split(">")[0]))
        mcmp = mcore.replace("!", "") + ";o=" + ghost.split(";o=")[1][:1]     # error class is informational only
        icmp = impl.rsplit(";o=", 1)[0] + ";o=" + impl.rsplit(";o=", 1)[1][:1]
        if mcmp != icmp and diff is None:
            diff = (i, ev, m, impl)
    return diff, bad_ids


def check_case(ctx, exe, case, suite, res=None, ans=None):
    """Runs (or takes) one history, compares with the model, evaluates the oracle.  Returns the kinds found."""
    if res is None:
        res = run_history(case)
    if ans is None and exe is not None:
        ans = fw.run_model(exe, [model_line(case, res["events"])])[0]
    if ans is None:
        diff, bad_ids = None, None          # no model available (its build is a broken obligation): oracle only
    else:
        diff, bad_ids = compare(case, res, ans)
    canon = tuple(res["events"])
    ctx.case(canon, nontrivial=res["reused"] > 0)
    ctx.traces_validated += 1
    for ev, _ in res["events"]:
        ctx.count("ev:" + ev[0])
    ctx.count("hist:reused" if res["reused"] else "hist:no-reuse")
    if res["errors"]:
        ctx.disagreement(suite, {"case": case}, "harness/loop error", res["errors"][:3])
    if diff is not None:
        i, ev, m, impl = diff
        ctx.disagreement(suite, {"case": case, "event_index": i, "event": ev}, m, impl)
    # model ghost vs oracle
    oracle_bad = set()
    for kind, text in res["violations"]:
        if kind.startswith("mix:"):
            oracle_bad.add(int(text.split("received token ")[1].split()[0]) if "received token" in text else -1)
    if diff is None and bad_ids is not None and oracle_bad != bad_ids:
        ctx.disagreement(suite, {"case": case}, f"model ghost: ill-tagged deliveries {sorted(bad_ids)}", f"oracle: {sorted(oracle_bad)}")
    kinds = sorted({k for k, _ in res["violations"]})
    for k in kinds:
        ctx.count("oracle:" + k)
    if kinds:
        vcase = dict(case)
        vcase["kinds"] = kinds
        vcase["suite"] = suite
        text = "; ".join(t for _, t in res["violations"][:3])
        ctx.violation(vcase, f"{kinds}: {text}")
    return kinds, diff


# ---------------------------------------------------------------------------------------------
# generators

def base_req(**kw):
    r = {"host": 0, "port": 80, "scheme": 0, "ssl": 0, "proxy": 0, "phdr": 0, "sni": 0, "after": "read"}
    r.update(kw)
    return r


def structured_cases(quick):
    """Surplus kind x position relative to (response end | release | re-acquisition) x response split x caller."""
    out = []
    surplus_kinds = {
        "none": [],
        "head": [["H", 0, 0, 0]],
        "head+body": [["H", 2, 0, 0], ["Y", 2]],
        "head-close": [["H", 0, 1, 0]],
        "head-partbody": [["H", 3, 0, 0], ["Y", 1]],
        "partial": [["Q"]],
        "partial-lines": [["Q", 1]],
        "junk": [["J"]],
        "excess": None,            # body token longer than announced
        "two-heads": [["H", 0, 0, 0], ["H", 1, 0, 0], ["Y", 1]],
    }
    splits = ["whole", "head|body", "head+part|rest"]
    positions = ["same-read", "next-read-before-wakeup", "after-release", "after-reacquire", "at-connect"]
    afters = ["read", "hold-read", "hold-release", "hold-close"]
    for sk, stoks in surplus_kinds.items():
        for split in splits:
            for pos in positions:
                for after in afters:
                    for closeA in (0, 1):
                        if quick and closeA and (sk not in ("head", "none") or after != "read"):
                            continue
                        if closeA and sk == "partial-lines":
                            # after `Connection: close` a complete surplus line is a parse error ("data after
                            # Connection: close") where a partial line is not: KPartial does not distinguish them
                            continue
                        if quick and after in ("hold-release", "hold-close") and split != "head+part|rest":
                            continue
                        reqs = [base_req(after="hold" if after.startswith("hold") else "read"), base_req(), base_req()]
                        hist = [["req", 0], ["run"]]
                        A_head = ["H", 3, closeA, 0]
                        last_body = ["Y", 4] if sk == "excess" else ["Y", 2]
                        sur = [] if sk == "excess" else stoks
                        if pos == "at-connect":
                            # the surplus is already there when the second connection is made: early bytes
                            reqs[1]["early"] = sur or [["Q"]]
                            reqs[1]["host"] = 1
                        same = sur if pos == "same-read" else []
                        if split == "whole":
                            hist += [["data", 0, [A_head, ["Y", 1], last_body] + same]]
                        elif split == "head|body":
                            hist += [["data", 0, [A_head]], ["run"], ["data", 0, [["Y", 1], last_body] + same]]
                        else:
                            hist += [["data", 0, [A_head, ["Y", 1]]], ["run"], ["data", 0, [last_body] + same]]
                        if pos == "next-read-before-wakeup" and sur:
                            hist += [["data", 0, sur]]
                        hist += [["run"]]
                        if after == "hold-read":
                            hist += [["cmd", 0, "read"], ["run"]]
                        elif after == "hold-release":
                            hist += [["cmd", 0, "release"], ["run"]]
                        elif after == "hold-close":
                            hist += [["cmd", 0, "close"], ["run"]]
                        if pos == "after-release" and sur:
                            hist += [["data", 0, sur], ["run"]]
                        hist += [["req", 1], ["run"]]
                        if pos == "after-reacquire" and sur:
                            hist += [["data", 0, sur], ["run"]]
                        # the peer answers request 1 on whichever transports exist, then request 2
                        for c in (0, 1):
                            hist += [["data", c, [["H", 1, 0, 0], ["Y", 1]]], ["run"]]
                        hist += [["req", 2], ["run"]]
                        for c in (0, 1, 2):
                            hist += [["data", c, [["H", 1, 0, 0], ["Y", 1]]], ["run"]]
                        out.append({"force_close": 0, "reqs": reqs, "hist": hist,
                                    "label": f"{sk}/{split}/{pos}/{after}/close{closeA}"})
    return out


def key_cases():
    """Two requests whose parameters differ in exactly one key component (or in none): reuse iff none."""
    out = []
    variants = [{}, {"host": 1}, {"port": 8080}, {"scheme": 1}, {"ssl": 1}, {"ssl": 2}, {"proxy": 1}, {"sni": 1},
                {"scheme": 1, "ssl": 2}, {"scheme": 1, "sni": 1}]
    bases = [{}, {"scheme": 1}, {"proxy": 1, "phdr": 1}, {"scheme": 1, "ssl": 2}, {"scheme": 1, "sni": 2}, {"proxy": 2}]
    for b in bases:
        for v in variants + [{"phdr": 2}, {"proxy": 2}, {"ssl": 3}, {"sni": 2}]:
            r0 = base_req(**b)
            r1 = base_req(**b)
            r1.update(v)
            r2 = base_req(**b)
            hist = [["req", 0], ["run"], ["data", 0, [["H", 1, 0, 0], ["Y", 1]]], ["run"],
                    ["req", 1], ["run"], ["data", 0, [["H", 1, 0, 0], ["Y", 1]]], ["data", 1, [["H", 1, 0, 0], ["Y", 1]]], ["run"],
                    ["req", 2], ["run"], ["data", 0, [["H", 0, 0, 0]]], ["data", 1, [["H", 0, 0, 0]]], ["data", 2, [["H", 0, 0, 0]]], ["run"]]
            out.append({"force_close": 0, "reqs": [r0, r1, r2], "hist": hist, "label": f"key {b} vs {v}"})
    return out


def ext_structured_cases():
    """Histories outside the model's domain (oracle only): responses without framing, requests that do not
    read until EOF (read_until_eof=False, failed WebSocket handshakes), the keep-alive cleanup timer with
    several keys pooled, a peer EOF whose connection_lost is one loop step away."""
    out = []
    ans = [["H", 1, 0, 0], ["Y", 1]]
    # 1. unframed response x request kind x where its close-delimited body arrives x caller
    for kind in ({"rue": 0}, {"ws": 1}, {}):
        for after in ("read", "hold"):
            for body in ([["H", 2, 0, 0], ["Y", 2]], [["Y", 3]], [["H", 0, 0, 0]], []):
                for where in ("same-read", "next-read", "after-run", "after-next-request"):
                    reqs = [base_req(after=after, **kind), base_req(), base_req()]
                    hist = [["req", 0], ["run"]]
                    if where == "same-read":
                        hist += [["data", 0, [["U"]] + body], ["run"]]
                    elif where == "next-read":
                        hist += [["data", 0, [["U"]]], ["data", 0, body], ["run"]]
                    else:
                        hist += [["data", 0, [["U"]]], ["run"]]
                    if after == "hold":
                        hist += [["cmd", 0, "release"], ["run"]]
                    if where == "after-run":
                        hist += [["data", 0, body], ["run"]]
                    hist += [["req", 1], ["run"]]
                    if where == "after-next-request":
                        hist += [["data", 0, body], ["run"]]
                    for c in (0, 1):
                        hist += [["data", c, ans], ["run"]]
                    hist += [["req", 2], ["run"]]
                    for c in (0, 1, 2):
                        hist += [["data", c, ans], ["run"]]
                    out.append({"force_close": 0, "reqs": reqs, "hist": hist,
                                "label": f"unframed/{kind}/{after}/{len(body)}/{where}"})
    # 2. keep-alive cleanup with connections of several keys pooled
    for ka in (15, 30, 6):
        for first_survives in (0, 1):
            for order in ((3, 4, 5), (5, 4, 3), (4, 3, 5)):
                reqs = [base_req(host=0), base_req(host=1), base_req(port=8080),
                        base_req(port=8080), base_req(host=1), base_req(host=0)]
                hist = [["req", 0], ["run"], ["data", 0, ans], ["run"], ["advance", 5]]
                for k in (1, 2):
                    hist += [["req", k], ["run"], ["data", k, ans], ["run"]]
                hist += [["advance", ka - 5 if first_survives else ka - 4]]
                for k in order:
                    hist += [["req", k], ["run"]]
                    for c in (0, 1, 2, 3, 4):
                        hist += [["data", c, ans]]
                    hist += [["run"]]
                out.append({"force_close": 0, "keepalive": ka, "reqs": reqs, "hist": hist,
                            "label": f"cleanup/{ka}/{first_survives}/{order}"})
    # 3. the peer's EOF put the transport into closing state; connection_lost has not run yet
    for gap in (0, 1):
        for after in ("read", "release"):
            reqs = [base_req(), base_req(after=after), base_req()]
            hist = [["req", 0], ["run"], ["data", 0, ans], ["run"]]
            hist += [["req", 1], ["peof", 0]] if not gap else [["peof", 0], ["run"], ["req", 1]]
            hist += [["run"], ["data", 0, ans], ["data", 1, ans], ["run"], ["req", 2], ["run"],
                     ["data", 0, ans], ["data", 1, ans], ["data", 2, ans], ["run"]]
            out.append({"force_close": 0, "reqs": reqs, "hist": hist, "label": f"peof/{gap}/{after}"})
    # 4. tracing: an on_connection_reuseconn callback that yields, several idle connections under one key,
    #    concurrent requests for that key
    for nidle in (2, 3):
        for wave in (2, 3):
            n = nidle + 2 * wave
            reqs = [base_req() for _ in range(n)]
            hist = []
            for k in range(nidle):
                hist += [["req", k]]
            hist += [["run"]]
            for c in range(nidle):
                hist += [["data", c, ans]]
            hist += [["run"]]
            k = nidle
            for _ in range(2):
                for j in range(wave):
                    hist += [["req", k + j]]
                hist += [["run"]]
                for c in range(n):
                    hist += [["data", c, ans]]
                hist += [["run"]]
                k += wave
            out.append({"force_close": 0, "trace_yield": 1, "reqs": reqs, "hist": hist, "label": f"trace-yield/{nidle}/{wave}"})
    # 5. a streamed request body that the client gives up after an early, complete answer
    for after in ("read", "hold", "release"):
        for go in (0, 1, 2):
            reqs = [base_req(upload=1, after="hold" if after == "hold" else after), base_req(), base_req()]
            hist = [["req", 0], ["run"]]
            if go == 1:
                hist += [["upgo", 0], ["run"]]
            hist += [["data", 0, [["H", 2, 0, 0], ["Y", 2]]], ["run"]]
            if after == "hold":
                hist += [["cmd", 0, "read"], ["run"]]
            if go == 2:
                hist += [["upgo", 0], ["run"]]
            hist += [["req", 1], ["run"], ["data", 0, ans], ["data", 1, ans], ["run"],
                     ["req", 2], ["run"], ["data", 0, ans], ["data", 1, ans], ["data", 2, ans], ["run"]]
            out.append({"force_close": 0, "reqs": reqs, "hist": hist, "label": f"upload/{after}/{go}"})
    # 6. answers without a body (204, HEAD) that announce the close; the next request comes before any FIN
    for first, tok in (({}, ["N", 1]), ({}, ["N", 2]), ({}, ["N", 0]), ({"head": 1}, ["H", 5, 1, 0]),
                       ({"head": 1}, ["H", 5, 0, 0]), ({"head": 1}, ["N", 1])):
        for after in ("read", "hold"):
            reqs = [base_req(after=after, **first), base_req(), base_req()]
            hist = [["req", 0], ["run"], ["data", 0, [tok]], ["run"]]
            if after == "hold":
                hist += [["cmd", 0, "release"], ["run"]]
            hist += [["req", 1], ["run"], ["data", 0, ans], ["data", 1, ans], ["run"],
                     ["req", 2], ["run"], ["data", 0, ans], ["data", 1, ans], ["data", 2, ans], ["run"]]
            out.append({"force_close": 0, "reqs": reqs, "hist": hist, "label": f"bodiless/{first}/{tok}/{after}"})
    return out


def random_case(rng, ext=False):
    nreq = rng.randint(2, 6)
    nkeys = rng.choice([1, 1, 1, 2, 2, 3])
    keyspecs = [{}]
    pool = [{"host": 1}, {"port": 8080}, {"scheme": 1}, {"ssl": 1}, {"proxy": 1, "phdr": 1}, {"proxy": 1, "phdr": 2},
            {"scheme": 1, "sni": 1}, {"scheme": 1, "ssl": 2}, {"proxy": 2}]
    while len(keyspecs) < nkeys:
        keyspecs.append(rng.choice(pool))
    reqs = []
    for k in range(nreq):
        r = base_req(**rng.choice(keyspecs))
        r["after"] = rng.choice(["read", "read", "read", "hold", "hold", "release", "close"])
        if rng.random() < 0.08:
            r["early"] = rand_tokens(rng, 0, fresh=True, ext=ext)[0]
        if ext:
            x = rng.random()
            if x < 0.15:
                r["rue"] = 0
            elif x < 0.27:
                r["ws"] = 1
            elif x < 0.35:
                r["head"] = 1
            elif x < 0.41:
                r["upload"] = 1
        reqs.append(r)
    hist = []
    started = 0
    rem = {}          # generator's own view of body bytes still owed per transport (guess)
    ntr = 0
    steps = rng.randint(6, 28)
    for _ in range(steps):
        x = rng.random()
        if started < nreq and (x < 0.22 or started == 0):
            hist.append(["req", started])
            started += 1
            ntr = min(ntr + 1, started)
            if rng.random() < 0.8:
                hist.append(["run"])
        elif x < 0.62 and ntr:
            c = rng.randrange(ntr)
            toks, rem[c] = rand_tokens(rng, rem.get(c, 0), ext=ext)
            hist.append(["data", c, toks])
            if rng.random() < 0.7:
                hist.append(["run"])
        elif x < 0.68 and ntr:
            hist.append(["pclose", rng.randrange(ntr), int(rng.random() < 0.3)])
            if rng.random() < 0.8:
                hist.append(["run"])
        elif x < 0.80:
            hist.append(["cmd", rng.randrange(max(started, 1)), rng.choice(["read", "read", "release", "close"])])
            if rng.random() < 0.8:
                hist.append(["run"])
        elif x < 0.85:
            hist.append(["cancel", rng.randrange(max(started, 1))])
            if rng.random() < 0.8:
                hist.append(["run"])
        elif ext and x < 0.93 and ntr:
            y = rng.random()
            if y < 0.55:
                hist.append(["advance", rng.choice([1, 4, 5, 6, 9, 10, 11, 15, 16])])
            elif y < 0.70:
                hist.append(["upgo", rng.randrange(max(started, 1))])
            else:
                hist.append(["peof", rng.randrange(ntr)])
                if rng.random() < 0.5:
                    hist.append(["run"])
        else:
            hist.append(["run"])
    hist.append(["run"])
    case = {"force_close": int(rng.random() < 0.06), "reqs": reqs, "hist": hist}
    if ext:
        case["keepalive"] = rng.choice([15, 15, 10, 6, 30])
        if rng.random() < 0.3:
            case["trace_yield"] = 1
    return case


def rand_tokens(rng, rem, fresh=False, ext=False):
    """A read: mostly well-formed continuation of the peer's own framing, sometimes with surplus or damage."""
    toks = []
    n = rng.choice([1, 1, 1, 2, 2, 3, 4])
    for _ in range(n):
        x = rng.random()
        if rem > 0:
            if x < 0.55:
                toks.append(["Y", rem])
                rem = 0
            elif x < 0.85:
                k = rng.randint(1, rem)
                toks.append(["Y", k])
                rem -= k
            else:
                toks.append(["Y", rem + rng.randint(1, 2)])    # longer than announced
                rem = 0
        else:
            if ext and x < 0.06:
                toks.append(["U"])
            elif ext and x < 0.14:
                toks.append(["N", rng.choice([0, 0, 1, 2])])
            elif x < 0.70:
                blen = rng.choice([0, 0, 1, 2, 3, 5])
                close = int(rng.random() < 0.12)
                toks.append(["H", blen, close, 0])
                rem = blen
            elif x < 0.76:
                toks.append(["H", 0, 0, 1])
            elif x < 0.86:
                toks.append(["Q"])
            elif x < 0.93:
                toks.append(["J"])
            else:
                toks.append(["Y", rng.randint(1, 2)])
    return toks, rem


# ---------------------------------------------------------------------------------------------
# suites

def run_batch(ctx, exe, cases, suite):
    results = []
    for case in cases:
        try:
            results.append(run_history(case))
        except Exception as e:  # noqa
            import traceback
            ctx.disagreement(suite, {"case": case}, "harness crashed", traceback.format_exc()[-800:])
            results.append(None)
    lines = [model_line(c, r["events"]) for c, r in zip(cases, results) if r is not None]
    if exe is None:
        answers = [None] * len(lines)
    else:
        answers = fw.run_model(exe, lines) if lines else []
    it = iter(answers)
    ran = 0
    for case, res in zip(cases, results):
        if res is None:
            continue
        ans = next(it)
        c = {k: v for k, v in case.items() if k != "label"}
        check_case(ctx, exe, c, suite, res, ans)
        ran += 1
    return ran


def run_oracle_only(ctx, cases, suite):
    """Histories outside the model's domain: only the property oracle (and harness sanity) is evaluated."""
    ran = 0
    for case in cases:
        c = {k: v for k, v in case.items() if k != "label"}
        try:
            res = run_history(c)
        except Exception:  # noqa
            import traceback
            ctx.disagreement(suite, {"case": c}, "harness crashed", traceback.format_exc()[-800:])
            continue
        check_case(ctx, None, c, suite, res, None)
        ran += 1
    return ran


def run(ctx):
    ok, exe = build_model()
    ctx.oblige("model-runner-build", "correspondence", ok, "" if ok else exe)
    if not ok:
        exe = None      # the property oracle does not need the model: keep searching for a concrete failing history
    # corpus first
    corpus = []
    # the replays of the fixed findings first
    for p in sorted(glob.glob(os.path.join(fw.VERIF, "corpus", "C06", "*.json")),
                    key=lambda q: (not os.path.basename(q).startswith("fixed-"), q)):
        payload = json.load(open(p))
        corpus.append(payload.get("case", payload))
    ran = run_batch(ctx, exe, [c for c in corpus if not is_ext(c)], "corpus")
    ran += run_oracle_only(ctx, [c for c in corpus if is_ext(c)], "corpus")
    ctx.close_suite("corpus", ran)
    st = structured_cases(ctx.quick)
    ran = run_batch(ctx, exe, st, "structured")
    ctx.sample({"suite": "structured", "label": st[-1]["label"], "hist": st[-1]["hist"]})
    ctx.close_suite("structured", ran)
    ks = key_cases()
    ran = run_batch(ctx, exe, ks, "keys")
    ctx.sample({"suite": "keys", "label": ks[3]["label"], "reqs": ks[3]["reqs"]})
    ctx.close_suite("keys", ran)
    n = 4000 if ctx.quick else 120000
    rnd = [random_case(ctx.rng) for _ in range(n)]
    ran = 0
    for i in range(0, len(rnd), 500):
        ran += run_batch(ctx, exe, rnd[i:i + 500], "random")
    ctx.sample({"suite": "random", "case": rnd[0]})
    ctx.close_suite("random", ran)
    ext = ext_structured_cases() + [random_case(ctx.rng, ext=True) for _ in range(2000 if ctx.quick else 60000)]
    ran = run_oracle_only(ctx, ext, "extended-oracle")
    ctx.sample({"suite": "extended-oracle", "label": ext[0]["label"], "hist": ext[0]["hist"]})
    ctx.close_suite("extended-oracle", ran)


def is_ext(case):
    if case.get("keepalive") or case.get("trace_yield") or \
            any(r.get("ws") or r.get("rue", 1) == 0 or r.get("head") or r.get("upload") for r in case["reqs"]):
        return True
    for r in case["reqs"]:
        if any(t[0] in ("U", "N") for t in r.get("early", [])):
            return True
    for st in case["hist"]:
        if st[0] in ("advance", "peof", "upgo") or (st[0] == "data" and any(t[0] in ("U", "N") for t in st[2])):
            return True
    return False


def replay(ctx, case):
    ok, exe = build_model()
    c = {k: v for k, v in case.items() if k not in ("kinds", "suite", "label")}
    if is_ext(c):
        ok = False       # outside the model's domain: oracle only
    res = run_history(c)
    ans = fw.run_model(exe, [model_line(c, res["events"])])[0] if ok else ""
    diff, bad = compare(c, res, ans) if ok else (None, set())
    kinds = sorted({k for k, _ in res["violations"]})
    return {"violates": bool(kinds), "kinds": kinds, "violations": [t for _, t in res["violations"]],
            "results": {str(k): v for k, v in res["results"].items()},
            "events": [{"event": ev, "impl": s, "model": m} for (ev, s), m in zip(res["events"], split_model(ans) + [""] * len(res["events"]))],
            "first_model_difference": diff, "model_ill_tagged": sorted(bad)}
