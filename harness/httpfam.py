"""Shared machinery of the HTTP-parser family (C01, C03, C10): stream generators, segmentations,
the implementation runner, the model runner (bin/modelrun_HTTP) and the canonical observable."""
from __future__ import annotations

import asyncio
from unittest import mock

from harness.common import framework as fw

ERR_CLASSES = {"BadHttpMessage", "BadHttpMethod", "BadStatusLine", "LineTooLong", "InvalidHeader",
               "InvalidURLError", "TransferEncodingError", "ContentLengthError"}

DEFAULT_LIM = (8190, 8190, 128, 0)
SMALL_LIMS = [(40, 60, 6, 0), (60, 40, 8, 0), (30, 30, 5, 0), (8190, 8190, 128, 2), (50, 200, 12, 0)]


def build_model():
    return fw.ocaml_model("HTTP", ["Model/Http.vo", "Model/HttpSpec.vo"])


# ----------------------------------------------------------------------------
# implementation side

_loop = None


def loop():
    global _loop
    if _loop is None or _loop.is_closed():
        _loop = asyncio.new_event_loop()
    return _loop


def impl_run(segs, lim, auto_decompress=False):
    """Feed the segments to a fresh HttpRequestParser. Returns the canonical observable:
    {"outcome": "OK:<hex>" | "ERR:<Class>@i" | "ESCAPE:<Class>@i", "msgs": [...], "state": {...}}
    Messages returned by calls before a raising call are kept; a raising call returns none."""
    from aiohttp.http_parser import HttpRequestParser
    from aiohttp.streams import EMPTY_PAYLOAD
    ml, mf, mh, mq = lim
    proto = mock.Mock()
    proto._reading_paused = False
    p = HttpRequestParser(proto, loop(), 2 ** 22, max_line_size=ml, max_field_size=mf, max_headers=mh,
                          auto_decompress=auto_decompress, max_msg_queue_size=mq)
    got = []
    outcome = "OK:-"
    left = b""
    for i, seg in enumerate(segs):
        try:
            msgs, upgraded, tail = p.feed_data(bytes(seg))
        except Exception as e:  # noqa
            nm = type(e).__name__
            outcome = (f"ERR:{nm}@{i}" if nm in ERR_CLASSES else f"ESCAPE:{nm}@{i}")
            break
        got.extend(msgs)
        left += tail          # bytes handed back for the upgraded protocol, over all calls
        outcome = "OK:" + fw.hexs(left)
    out = []
    for m, payload in got:
        body = payload is not EMPTY_PAYLOAD
        data = b"".join(bytes(x) for x in getattr(payload, "_buffer", ())) if body else b""
        splits = list(getattr(payload, "_http_chunk_splits", None) or []) if body else []
        exc = payload.exception() if body else None
        out.append({
            "method": m.method, "target": m.path.encode("utf-8", "surrogateescape").hex(),
            "version": f"{m.version.major}.{m.version.minor}",
            "headers": [(bytes(k).hex(), bytes(v).hex()) for k, v in m.raw_headers],
            "close": bool(m.should_close), "chunked": bool(m.chunked), "upgrade": bool(m.upgrade),
            "compression": m.compression, "body": body, "data": data.hex(), "splits": splits,
            "eof": bool(payload.is_eof()) if body else True,
            "exc": type(exc).__name__ if exc is not None else None,
        })
    pp = p._payload_parser
    state = {"up": bool(p._upgraded), "tail": len(p._tail), "lines": len(p._lines),
             "linebytes": sum(len(x) for x in p._lines),
             "ctail": len(pp._chunk_tail) if pp is not None else 0,
             "tlines": len(pp._trailer_lines) if pp is not None else 0,
             "tlbytes": sum(len(x) for x in pp._trailer_lines) if pp is not None else 0}
    # An accepted message must be usable: what BaseRequest.__init__ and the router read from the parsed URL
    # (outside any try block of RequestHandler.start) must not raise.  Kept outside "msgs": the model has no
    # counterpart (yarl is an oracle of the model), it is judged by the totality oracle of C10 only.
    urlexc = []
    for m, _ in got:
        try:
            u = m.url
            u.absolute, u.host, u.port, u.raw_path, u.raw_query_string, u.scheme
        except Exception as e:  # noqa
            urlexc.append(f"{type(e).__name__} for target {m.path!r}")
    return {"outcome": outcome, "msgs": out, "state": state, "urlexc": urlexc}


def yarl_verdict(connect: bool, target: bytes) -> bool:
    """The oracle the model asks for authority-/absolute-form targets (yarl is not modelled)."""
    from yarl import URL
    path = target.decode("utf-8", "surrogateescape")
    try:
        if connect:
            url = URL.build(authority=path, encoded=True)
        else:
            url = URL(path, encoded=True)
            if not url.absolute:
                return False
        url.host, url.port
        return True
    except ValueError:
        return False


# ----------------------------------------------------------------------------
# model side

def _parse_model(line: str):
    if line.count("#") < 3:
        return {"outcome": line.strip(), "msgs": [], "state": {}}
    outcome, state, counts, recs = line.split("#", 3)
    counts = [int(x) for x in counts.split(",")] if counts else []
    msgs = []
    for e in (recs.split("|") if recs else []):
        _, meth, tgt, ver, flags, comp, hdrs, data, splits, eof, exc = e.split(":")
        msgs.append({"method": fw.unhex(meth).decode("latin1"), "target": fw.unhex(tgt).hex(), "version": ver,
                     "headers": [] if hdrs == "~" else [tuple(fw.unhex(x).hex() for x in kv.split("=")) for kv in hdrs.split(",")],
                     "close": flags[0] == "1", "chunked": flags[1] == "1", "upgrade": flags[2] == "1",
                     "compression": None if comp == "~" else fw.unhex(comp).decode("latin1"),
                     "body": flags[3] == "1", "data": fw.unhex(data).hex(),
                     "splits": [] if splits == "-" else [int(x) for x in splits.split(",")],
                     "eof": eof == "1", "exc": None if exc == "~" else exc})
    # a raising call returns no messages to its caller (their payload streams were still fed)
    if outcome.startswith("ERR:") and counts:
        msgs = msgs[: counts[int(outcome.rsplit("@", 1)[1])]]
    st = dict(kv.split("=") for kv in state.split()) if state else {}
    return {"outcome": outcome, "msgs": msgs,
            "state": {k: int(st[k]) if k != "up" else st[k] == "1" for k in ("up", "tail", "lines", "linebytes", "ctail", "tlines", "tlbytes") if k in st},
            "pk": st.get("pk")}


def model_run_many(exe, cases):
    """cases: list of (segs, lim). Resolves oracle questions by asking yarl, re-running as needed."""
    oracles = [dict() for _ in cases]
    res = [None] * len(cases)
    todo = list(range(len(cases)))
    for _round in range(8):
        if not todo:
            break
        lines = []
        for i in todo:
            segs, lim = cases[i]
            orc = ",".join(f"{'c' if c else 'a'}:{fw.hexs(t)}:{int(v)}" for (c, t), v in oracles[i].items()) or "-"
            lines.append("RUN %d %d %d %d %s %s" % (*lim, orc, " ".join(fw.hexs(s) for s in segs)))
        outs = fw.run_model(exe, lines)
        nxt = []
        for i, o in zip(todo, outs):
            if o.startswith("ASK:"):
                _, kind, hx = o.split("#")[0].split(":")
                t = fw.unhex(hx)
                oracles[i][(kind == "c", t)] = yarl_verdict(kind == "c", t)
                nxt.append(i)
            else:
                res[i] = _parse_model(o)
        todo = nxt
    for i in todo:
        res[i] = {"outcome": "ASK-UNRESOLVED", "msgs": [], "state": {}}
    return res


def same(model, impl) -> bool:
    if model["outcome"] != impl["outcome"]:
        return False
    if model["msgs"] != impl["msgs"]:
        return False
    if model["outcome"].startswith("OK"):
        return model["state"] == impl["state"]
    return True


# ----------------------------------------------------------------------------
# generators

METHODS = [b"GET", b"POST", b"PUT", b"HEAD", b"OPTIONS", b"DELETE", b"PATCH", b"get", b"M-SEARCH", b"CONNECT"]
TARGETS = [b"/", b"/a", b"/a/b?x=1&y=2", b"/a%20b", b"/a#frag", b"//x/y", b"/\xc3\xa9", b"/a;b=c", b"/" + b"p" * 30,
           b"*", b"http://h.example/p?q", b"http://h.example:8080/", b"https://[::1]:443/x", b"h.example:443",
           b"http://a:b/", b"http://[::1", b"foo", b"/a\\b", b"/%zz"]
HOSTS = [b"example.com", b"h.example:8080", b"[::1]", b"x"]


def gen_headers(rng, extra=None, keep=False):
    hs = []
    if keep or rng.random() < 0.95:
        hs.append((b"Host", rng.choice(HOSTS)))
    for _ in range(rng.randint(0, 4)):
        name = rng.choice([b"X-A", b"Accept", b"User-Agent", b"x-b", b"Cookie", b"X-Long", b"Content-Type", b"ETag"])
        val = rng.choice([b"v", b"text/html", b"a, b", b"", b" padded ", b"\tv\t", b"\xc3\xa9", b"\xff\xfe", b"a" * rng.randint(0, 70), b"k=v; k2=v2"])
        hs.append((name, val))
    r = rng.random()
    if r < 0.15:
        if keep:
            hs.append((b"Connection", rng.choice([b"keep-alive", b"Keep-Alive", b"x", b"keep-alive, x"])))
        else:
            hs.append((b"Connection", rng.choice([b"close", b"keep-alive", b"Keep-Alive, Upgrade", b"upgrade", b"close, keep-alive", b" , ,close", b"\xc3\xa9, close", b"x"])))
    if r > 0.9 and not keep:
        hs.append((b"Upgrade", rng.choice([b"websocket", b"WebSocket", b"tcp", b"h2c", b""])))
        hs.append((b"Connection", b"Upgrade"))
    if rng.random() < 0.1:
        hs.append((b"Content-Encoding", rng.choice([b"gzip", b"GZIP", b"deflate", b"br", b"zstd", b"identity", b"gzip, br"])))
    if extra:
        hs.extend(extra)
    rng.shuffle(hs)
    return hs


def chunked_body(rng, pieces, trailers=None, ext=False):
    out = b""
    for pc in pieces:
        sz = ("%x" % len(pc)).encode()
        if rng.random() < 0.3:
            sz = sz.upper()
        if rng.random() < 0.15:
            sz = b"0" * rng.randint(1, 3) + sz
        if ext and rng.random() < 0.5:
            sz += rng.choice([b";a=b", b";x", b"; q=\"z\"", b";" + b"e" * rng.randint(0, 50)])
        out += sz + b"\r\n" + pc + b"\r\n"
    out += b"0" + (b";last" if ext and rng.random() < 0.3 else b"") + b"\r\n"
    for k, v in (trailers or []):
        out += k + b": " + v + b"\r\n"
    out += b"\r\n"
    return out


def rand_bytes(rng, n):
    r = rng.random()
    if r < 0.5:
        return bytes(rng.choice(b"abcdefgh \r\n0123:;") for _ in range(n))
    return bytes(rng.randrange(256) for _ in range(n))


def gen_request(rng, keep=False):
    """One valid-by-construction request (most of the time). keep=True: a request after which the
    connection stays open (so that a pipelined successor is legitimate). Returns bytes."""
    method = rng.choice(METHODS[:-1] if keep else METHODS)
    if method == b"CONNECT":
        target = rng.choice([b"h.example:443", b"[::1]:80", b"a:b", b"x", b"h\xc3\xa9st.example:443", b"\xff\xfe:80",
                             b"h_st.example:443", b"[::1:80", b"h.example:99999"])
    else:
        target = rng.choice(TARGETS[:10]) if (keep or rng.random() < 0.9) else rng.choice(TARGETS)
        if target == b"*" and method != b"OPTIONS":
            target = b"/star"
    version = b"HTTP/1.1" if keep else rng.choice([b"HTTP/1.1"] * 8 + [b"HTTP/1.0", b"HTTP/2.0", b"HTTP/0.9"])
    kind = rng.choice(["none", "none", "len", "len", "chunked", "chunked", "len0"])
    if method == b"CONNECT":
        kind = "none"
    extra, body = [], b""
    if kind == "len":
        body = rand_bytes(rng, rng.randint(1, 40))
        extra.append((rng.choice([b"Content-Length", b"content-length", b"CONTENT-LENGTH"]), str(len(body)).encode()))
    elif kind == "len0":
        extra.append((b"Content-Length", b"0"))
    elif kind == "chunked":
        pieces = [rand_bytes(rng, rng.randint(1, 20)) for _ in range(rng.randint(0, 4))]
        trailers = [(b"X-T", b"1")] * rng.randint(0, 2) if rng.random() < 0.4 else None
        body = chunked_body(rng, pieces, trailers, ext=rng.random() < 0.4)
        extra.append((b"Transfer-Encoding", rng.choice([b"chunked", b"Chunked", b"gzip, chunked", b" chunked "])))
    hs = gen_headers(rng, extra, keep)
    head = method + b" " + target + b" " + version + b"\r\n"
    for k, v in hs:
        head += k + rng.choice([b": ", b":", b":  ", b":\t"]) + v + b"\r\n"
    return head + b"\r\n" + body


def gen_stream(rng):
    n = rng.choice([1, 1, 1, 2, 2, 3, 4])
    s = b""
    for i in range(n):
        if rng.random() < 0.15:
            s += b"\r\n" * rng.randint(1, 2)
        s += gen_request(rng, keep=(i < n - 1))
    if rng.random() < 0.06:
        s = s[: rng.randint(0, len(s))]        # truncated stream
    return s


# --- smuggling / malformation classes (C01); each returns a list of mutated streams -----------

def _lines_of(s):
    return s.split(b"\r\n")


def mutate_smuggling(rng, s):
    """Apply one randomly chosen ambiguity class at a random applicable position."""
    head_end = s.find(b"\r\n\r\n")
    if head_end < 0:
        return s, "none"
    head, rest = s[:head_end], s[head_end:]
    lines = head.split(b"\r\n")
    cls = rng.choice(["cl+te", "dup-cl", "nondec-cl", "te-notfinal", "te-twice", "bare-lf", "obs-fold", "ctl-value",
                      "ws-before-colon", "ws-in-name", "missing-host", "dup-host", "bad-chunk-size", "lf-in-ext",
                      "bad-trailer", "ctl-target", "lf-reqline", "te-cl-order", "long-line", "many-headers",
                      "bare-cr", "nul-name", "empty-name", "no-colon", "key1", "dup-te"])
    ins = lambda l: lines.insert(rng.randint(1, len(lines)), l)  # noqa: E731
    if cls == "cl+te":
        ins(b"Content-Length: 4"); ins(b"Transfer-Encoding: chunked")
    elif cls == "te-cl-order":
        ins(b"Transfer-Encoding: chunked"); ins(b"Content-Length: 4")
    elif cls == "dup-cl":
        ins(b"Content-Length: 3"); ins(rng.choice([b"Content-Length: 3", b"content-length: 4"]))
    elif cls == "nondec-cl":
        ins(b"Content-Length: " + rng.choice(BAD_CONTENT_LENGTHS))
    elif cls == "te-notfinal":
        ins(b"Transfer-Encoding: " + rng.choice([b"chunked, gzip", b"gzip", b"chunked,", b"", b"xchunked", b"chunked;q=1", b"\xc4\xb0chunked"]))
    elif cls == "te-twice":
        ins(b"Transfer-Encoding: " + rng.choice([b"chunked, chunked", b"chunked,gzip,chunked", b"Chunked, chunked"]))
    elif cls == "dup-te":
        ins(b"Transfer-Encoding: chunked"); ins(b"Transfer-Encoding: chunked")
    elif cls == "bare-lf":
        i = rng.randrange(len(lines))
        head2 = b"\r\n".join(lines[: i + 1]) + b"\n" + b"\r\n".join(lines[i + 1:])
        return head2 + rest, cls
    elif cls == "bare-cr":
        i = rng.randrange(len(lines))
        lines[i] = lines[i][: rng.randint(0, len(lines[i]))] + b"\r" + lines[i][rng.randint(0, len(lines[i])):]
    elif cls == "obs-fold":
        ins(b"X-Fold: a"); i = rng.randint(2, len(lines)); lines.insert(i, rng.choice([b" folded", b"\tfolded"]))
    elif cls == "ctl-value":
        ins(b"X-Ctl: a" + bytes([rng.choice(list(range(0, 9)) + list(range(10, 32)) + [127])]) + b"b")
    elif cls == "ws-before-colon":
        ins(rng.choice([b"X-Ws : v", b"X-Ws\t: v", b"Content-Length : 3", b"Transfer-Encoding : chunked"]))
    elif cls == "ws-in-name":
        ins(rng.choice([b" X-Lead: v", b"X Mid: v", b"X\tMid: v", b"Content Length: 3"]))
    elif cls == "nul-name":
        ins(b"X-\x00N: v")
    elif cls == "empty-name":
        ins(b": v")
    elif cls == "no-colon":
        ins(b"NoColonHere")
    elif cls == "key1":
        ins(b"Sec-WebSocket-Key1: x")
    elif cls == "missing-host":
        lines[1:] = [l for l in lines[1:] if not l.lower().startswith(b"host")]
    elif cls == "dup-host":
        ins(b"Host: a"); ins(b"host: b")
    elif cls == "ctl-target":
        parts = lines[0].split(b" ")
        if len(parts) == 3:
            j = rng.randint(0, len(parts[1]))
            parts[1] = parts[1][:j] + bytes([rng.choice([0, 9, 10, 11, 13, 127, 1])]) + parts[1][j:]
            lines[0] = b" ".join(parts)
    elif cls == "lf-reqline":
        j = rng.randint(0, len(lines[0]))
        lines[0] = lines[0][:j] + b"\n" + lines[0][j:]
    elif cls == "long-line":
        i = rng.randrange(len(lines))
        lines[i] = lines[i] + b"z" * rng.choice([20, 40, 61, 200, 8190, 8200])
    elif cls == "many-headers":
        for k in range(rng.choice([5, 9, 130])):
            lines.append(b"X-%d: v" % k)
    elif cls in ("bad-chunk-size", "lf-in-ext", "bad-trailer"):
        hd = b"\r\n".join([l for l in lines if not l.lower().startswith((b"content-length", b"transfer-encoding"))]
                          + [b"Transfer-Encoding: chunked"])
        if cls == "bad-chunk-size":
            body = rng.choice([b"g\r\nabc\r\n0\r\n\r\n", b"\r\nabc\r\n0\r\n\r\n", b"-3\r\nabc\r\n0\r\n\r\n", b"+3\r\nabc\r\n0\r\n\r\n",
                               b"0x3\r\nabc\r\n0\r\n\r\n", b"3 \r\nabc\r\n0\r\n\r\n", b" 3\r\nabc\r\n0\r\n\r\n", b"3\nabc\r\n0\r\n\r\n",
                               b"3\r\nabcd\r\n0\r\n\r\n", b"3\r\nabc\n0\r\n\r\n", b"3\r\nabc\r0\r\n\r\n", b"3\r\nab\r\n0\r\n\r\n",
                               b"3\r\nabc\r\n\r\n", b"3" + b";" + b"e" * 9000 + b"\r\nabc\r\n0\r\n\r\n", b"\xd9\xa3\r\nabc\r\n0\r\n\r\n"])
        elif cls == "lf-in-ext":
            body = rng.choice([b"3;a\nb\r\nabc\r\n0\r\n\r\n", b"3;\n\r\nabc\r\n0\r\n\r\n", b"3\r\nabc\r\n0;x\ny\r\n\r\n"])
        else:
            body = b"3\r\nabc\r\n0\r\n" + rng.choice([b"bad\ntrailer\r\n\r\n", b"Bad Name: v\r\n\r\n", b"X: a\x01\r\n\r\n", b": v\r\n\r\n",
                                                      b"X:" + b"v" * 9000 + b"\r\n\r\n", b"Host: a\r\nHost: b\r\n\r\n", b"nocolon\r\n\r\n",
                                                      b"X: 1\r\n" * 200 + b"\r\n", b" X: lead\r\n\r\n", b"X: v\n\r\n"])
        tail = rng.choice([b"", b"GET /smuggled HTTP/1.1\r\nHost: s\r\n\r\n"])
        return hd + b"\r\n\r\n" + body + tail, cls
    return b"\r\n".join(lines) + rest, cls


def mutate_bytes(rng, s):
    if not s:
        return s
    s = bytearray(s)
    for _ in range(rng.randint(1, 3)):
        r = rng.random()
        i = rng.randrange(len(s)) if s else 0
        if r < 0.3 and s:
            s[i] = rng.choice([0, 9, 10, 13, 32, 58, 59, 127, 255, rng.randrange(256)])
        elif r < 0.55:
            s.insert(i, rng.choice([10, 13, 32, 9, 58, 0, rng.randrange(256)]))
        elif r < 0.8 and s:
            del s[i]
        elif s:
            j = rng.randrange(len(s))
            s[i:i] = s[j: j + rng.randint(1, 8)]
    return bytes(s)


def segmentations(rng, s, quick=True):
    """A list of segmentations (each a list of bytes chunks) of s."""
    n = len(s)
    out = [[s]]
    if n <= 1:
        return out
    out.append([s[i:i + 1] for i in range(n)])                 # byte at a time
    cuts = sorted(set(rng.randint(1, n - 1) for _ in range(3 if quick else 12)))
    out += [[s[:c], s[c:]] for c in cuts]
    # cuts around every CR / LF (where the quirks live)
    special = [i for i, b in enumerate(s) if b in (13, 10)]
    for i in rng.sample(special, min(len(special), 4 if quick else 16)):
        for c in (i, i + 1):
            if 0 < c < n:
                out.append([s[:c], s[c:]])
    for _ in range(2 if quick else 6):
        k = rng.randint(2, min(8, n))
        pts = sorted(set(rng.randint(1, n - 1) for _ in range(k)))
        out.append([s[a:b] for a, b in zip([0] + pts, pts + [n])])
    return out


# ----------------------------------------------------------------------------
# response parser (lax mode; not modelled in Coq: used for implementation self-consistency oracles)

def impl_run_response(segs, lim, method="GET", read_until_eof=True, eof=True, auto_decompress=False):
    # the client builds its parser through ResponseHandler.set_response_params, which never passes
    # `method`: HEAD is expressed as response_with_body=False.  We do the same.
    from aiohttp.http_parser import HttpResponseParser
    from aiohttp.streams import EMPTY_PAYLOAD
    ml, mf, mh, _ = lim
    proto = mock.Mock()
    proto._reading_paused = False
    p = HttpResponseParser(proto, loop(), 2 ** 22, max_line_size=ml, max_field_size=mf, max_headers=mh,
                           auto_decompress=auto_decompress, read_until_eof=read_until_eof,
                           response_with_body=method != "HEAD")
    got = []
    outcome = "OK:-"
    left = b""
    for i, seg in enumerate(segs):
        try:
            msgs, upgraded, tail = p.feed_data(bytes(seg))
        except Exception as e:  # noqa
            nm = type(e).__name__
            outcome = (f"ERR:{nm}@{i}" if nm in ERR_CLASSES else f"ESCAPE:{nm}@{i}")
            break
        got.extend(msgs)
        left += tail
        outcome = "OK:" + fw.hexs(left)
    def snap():
        pp = p._payload_parser
        return {"up": bool(p._upgraded), "tail": len(p._tail), "lines": len(p._lines),
                "linebytes": sum(len(x) for x in p._lines),
                "ctail": len(pp._chunk_tail) if pp is not None else 0,
                "tlines": len(pp._trailer_lines) if pp is not None else 0}
    state = snap()          # retained bytes are measured before end-of-stream processing
    if outcome.startswith("OK") and eof:
        try:
            p.feed_eof()
        except Exception as e:  # noqa
            nm = type(e).__name__
            outcome = (f"EOFERR:{nm}" if nm in ERR_CLASSES else f"ESCAPE:{nm}@eof")
    out = []
    for m, payload in got:
        body = payload is not EMPTY_PAYLOAD
        data = b"".join(bytes(x) for x in getattr(payload, "_buffer", ())) if body else b""
        exc = payload.exception() if body else None
        out.append({"code": m.code, "reason": m.reason, "version": f"{m.version.major}.{m.version.minor}",
                    "headers": [(bytes(k).hex(), bytes(v).hex()) for k, v in m.raw_headers],
                    "close": bool(m.should_close), "chunked": bool(m.chunked), "upgrade": bool(m.upgrade),
                    "compression": m.compression, "body": body, "data": data.hex(),
                    "splits": list(getattr(payload, "_http_chunk_splits", None) or []) if body else [],
                    "eof": bool(payload.is_eof()) if body else True,
                    "exc": type(exc).__name__ if exc is not None else None})
    return {"outcome": outcome, "msgs": out, "state": state}


def gen_response(rng):
    version = rng.choice([b"HTTP/1.1"] * 6 + [b"HTTP/1.0", b"HTTP/2.0"])
    code = rng.choice([b"200", b"200", b"201", b"204", b"304", b"404", b"500", b"100", b"101", b"99", b"2000", b"abc"])
    reason = rng.choice([b"OK", b"", b"Not Found", b"Weird  Reason", b"\xc3\xa9"])
    kind = rng.choice(["none", "len", "len", "chunked", "chunked", "eof", "len0"])
    hs, body = [], b""
    if kind == "len":
        body = rand_bytes(rng, rng.randint(1, 40))
        hs.append((b"Content-Length", str(len(body)).encode()))
    elif kind == "len0":
        hs.append((b"Content-Length", b"0"))
    elif kind == "chunked":
        pieces = [rand_bytes(rng, rng.randint(1, 20)) for _ in range(rng.randint(0, 4))]
        body = chunked_body(rng, pieces, [(b"X-T", b"1")] if rng.random() < 0.3 else None, ext=rng.random() < 0.3)
        hs.append((b"Transfer-Encoding", rng.choice([b"chunked", b"gzip, chunked"])))
    elif kind == "eof":
        body = rand_bytes(rng, rng.randint(0, 40))
    for _ in range(rng.randint(0, 4)):
        hs.append((rng.choice([b"Server", b"X-A", b"Content-Type", b"Set-Cookie", b"Connection"]),
                   rng.choice([b"v", b"text/html", b"close", b"keep-alive", b"a=b; Path=/", b"z" * rng.randint(0, 70), b""])))
    rng.shuffle(hs)
    eol = b"\r\n" if rng.random() < 0.85 else b"\n"
    head = version + b" " + code + (b" " + reason if reason or rng.random() < 0.5 else b"") + eol
    for k, v in hs:
        head += k + rng.choice([b": ", b":"]) + v + eol
        if rng.random() < 0.05:
            head += rng.choice([b" folded", b"\tfolded"]) + eol
    return head + eol + body


def gen_response_stream(rng):
    s = gen_response(rng)
    r = rng.random()
    if r < 0.25:
        s = mutate_bytes(rng, s)
    elif r < 0.35:
        s = s[: rng.randint(0, len(s))]
    elif r < 0.45:
        s = s.replace(b"\r\n", rng.choice([b"\r\r\n", b"\n", b"\r\n"]), rng.randint(1, 3))
    return s


def delivered_view(obs):
    """What a caller has been given: per message the head fields and the body bytes so far."""
    return [{k: m[k] for k in m if k not in ("eof", "exc")} for m in obs["msgs"]]


def consistent(one, seg):
    """Property C03 between the one-shot observable and a segmented one of the SAME stream.
    Returns None if consistent, else a description.  Error classes may differ; early rejection is
    judged by the caller (needs completions)."""
    o1, o2 = one["outcome"], seg["outcome"]
    ok1, ok2 = o1.startswith("OK"), o2.startswith("OK")
    if ok1 and ok2:
        if one["msgs"] != seg["msgs"]:
            return "both accepted but the delivered messages differ"
        if o1 != o2:
            return "both accepted but the unconsumed (upgraded) bytes differ"
        if one["state"] != seg["state"]:
            return "both accepted but the retained parser state differs"
        return None
    if o1.startswith("ESCAPE") or o2.startswith("ESCAPE"):
        return None     # C10's subject; reported there
    if ok2 and not ok1:
        return f"rejected one-shot ({o1}) but accepted when split"
    if ok1 and not ok2:
        return "early"   # caller decides with completions
    return None


def limit_edge_streams(rng, lim):
    """Requests in which one line approaches its limit from below/above by one byte, in every syntactic
    position.  Yields (stream, position, delta, cuts) with cuts = read boundaries around that line's CRLF."""
    ml, mf, mh, _ = lim
    out = []
    for pos in ("request-line", "field", "field-name", "chunk-size", "chunk-ext", "trailer", "header-count", "trailer-count",
                "header-count-chunked"):
        for delta in (-1, 0, 1):
            pre = b""
            if rng.random() < 0.3:
                pre = b"GET /p HTTP/1.1\r\nHost: p\r\n\r\n"          # pipelined predecessor
            if pos == "request-line":
                base = b"GET / HTTP/1.1"
                n = ml + delta
                line = b"GET /" + b"a" * max(0, n - len(base)) + b" HTTP/1.1"
                s = line + b"\r\nHost: x\r\n\r\n"
                mark = len(pre) + len(line)
            elif pos in ("field", "field-name"):
                n = mf + delta
                if pos == "field":
                    line = b"X-L: " + b"v" * max(0, n - 5)
                else:
                    line = b"X" * max(1, n - 3) + b": v"
                s = b"GET / HTTP/1.1\r\nHost: x\r\n" + line + b"\r\n\r\n"
                mark = len(pre) + len(b"GET / HTTP/1.1\r\nHost: x\r\n") + len(line)
            elif pos in ("chunk-size", "chunk-ext"):
                n = ml + delta
                if pos == "chunk-size":
                    line = b"0" * max(0, n - 1) + b"3"
                else:
                    line = b"3;" + b"e" * max(0, n - 2)
                head = b"POST / HTTP/1.1\r\nHost: x\r\nTransfer-Encoding: chunked\r\n\r\n"
                s = head + line + b"\r\nabc\r\n0\r\n\r\n"
                mark = len(pre) + len(head) + len(line)
            elif pos == "trailer":
                if mh < 6:      # the head's 4 lines leave max_headers - 4 lines for trailers + the empty line
                    continue
                n = mf + delta
                line = b"X-T: " + b"t" * max(0, n - 5)
                head = b"POST / HTTP/1.1\r\nHost: x\r\nTransfer-Encoding: chunked\r\n\r\n3\r\nabc\r\n0\r\n"
                s = head + line + b"\r\n\r\n"
                mark = len(pre) + len(head) + len(line)
            elif pos == "header-count-chunked":
                # a chunked message without trailers: head lines (request line, fields, empty line) plus the one
                # line that ends the trailer section use max_headers + delta lines -- the budget is shared
                # (max_trailers = max_headers - lines of the head), so +1 is a head of exactly max_headers lines
                k = mh + delta - 5
                if k < 0:
                    continue
                head = (b"POST / HTTP/1.1\r\nHost: x\r\nTransfer-Encoding: chunked\r\n"
                        + b"".join(b"X-%d: v\r\n" % i for i in range(k)) + b"\r\n")
                s = head + b"3\r\nabc\r\n0\r\n\r\n"
                mark = len(pre) + len(s) - 2           # right after "0 CRLF"; mark+1 is between the final CR and LF
            elif pos == "header-count":
                k = mh + delta - 2          # request line + k fields + Host + empty line
                s = b"GET / HTTP/1.1\r\nHost: x\r\n" + b"".join(b"X-%d: v\r\n" % i for i in range(max(0, k - 1))) + b"\r\n"
                mark = len(pre) + len(s) - 2
            else:
                k = mh + delta - 5          # lines used by the head: 4 (incl. empty) ; trailers k + empty
                head = b"POST / HTTP/1.1\r\nHost: x\r\nTransfer-Encoding: chunked\r\n\r\n0\r\n"
                s = head + b"".join(b"T-%d: v\r\n" % i for i in range(max(0, k))) + b"\r\n"
                mark = len(pre) + len(s) - 2
            s = pre + s
            if rng.random() < 0.3:
                s += b"GET /next HTTP/1.1\r\nHost: n\r\n\r\n"
            cuts = sorted({c for c in (mark - 1, mark, mark + 1, mark + 2, len(pre), len(pre) + 1) if 0 < c < len(s)})
            out.append((s, pos, delta, cuts))
    return out



# every value here is outside 1*DIGIT: a request carrying it must be rejected (RFC 9110 8.6 allows a recipient to
# accept a list of identical members; aiohttp does not, and the strict reading does not either)
BAD_CONTENT_LENGTHS = [b"+5", b"-5", b"0x5", b"5,5", b"5, 5", b"05, 05", b"0, 0", b"5 ,5", b"5,", b",5", b"", b"5 5",
                       b"\xd9\xa5", b"5.0", b"1e1", b" 5", b"\xef\xbc\x95", b"1" * 4301, b"0" * 4400 + b"3", b"0" * 4290 + b"3",
                       b"5;q=1", b"\"5\"", b"5\x0b", b"\x0c5"]


def bad_content_length_streams():
    """Directed: each value of BAD_CONTENT_LENGTHS in a POST followed by a pipelined request (run on every check)."""
    out = []
    for v in BAD_CONTENT_LENGTHS:
        for nxt in (b"", b"GET /next HTTP/1.1\r\nHost: n\r\n\r\n"):
            out.append(b"POST /cl HTTP/1.1\r\nHost: h\r\nContent-Length: " + v + b"\r\n\r\nhello" + nxt)
    return out


SYSTEMATIC_BASES = [
    b"POST /p HTTP/1.1\r\nHost: h\r\nTransfer-Encoding: chunked\r\n\r\n5;x=1\r\nhello\r\nA\r\n0123456789\r\n0\r\nX-T: t\r\n\r\n",
    b"GET /a?b=c HTTP/1.1\r\nHost: h\r\nAccept: */*\r\nConnection: keep-alive\r\n\r\nPUT /q HTTP/1.1\r\nHost: h\r\nContent-Length: 4\r\n\r\nbodyGET / HTTP/1.1\r\nHost: h\r\n\r\n",
    b"OPTIONS * HTTP/1.0\r\nConnection: keep-alive\r\nContent-Length: 0\r\n\r\nGET /u HTTP/1.1\r\nHost: h\r\nUpgrade: websocket\r\nConnection: Upgrade\r\n\r\nrest",
]
INSERT_BYTES = [0x20, 0x09, 0x0A, 0x0D, 0x0B, 0x0C, 0x00, 0x7F, 0x80, 0x3A, 0x3B, 0x2C]


def systematic_mutants(base: bytes, rng=None, fraction=1.0):
    """Every single-byte insertion of a whitespace/control/separator byte at every position, every
    single-byte deletion, and every duplication of a line, of a base stream."""
    out = []
    for i in range(len(base) + 1):
        for b in INSERT_BYTES:
            if fraction >= 1.0 or rng.random() < fraction:
                out.append(base[:i] + bytes([b]) + base[i:])
    for i in range(len(base)):
        if fraction >= 1.0 or rng.random() < fraction:
            out.append(base[:i] + base[i + 1:])
    lines = base.split(b"\r\n")
    for i in range(len(lines)):
        out.append(b"\r\n".join(lines[: i + 1] + lines[i:]))
    return out



def unterminated_streams(lim):
    """A line that never ends, in every syntactic position, delivered in small reads: the parser must
    reject once the partial line exceeds its limit (it must not buffer without bound).
    Yields (stream, position)."""
    ml, mf, mh, _ = lim
    big = max(ml, mf)
    pad = b"z" * (big * 3 + 50)
    chunked_head = b"POST / HTTP/1.1\r\nHost: x\r\nTransfer-Encoding: chunked\r\n\r\n"
    return [
        (b"GET /" + pad, "request-line"),
        (b"GET / HTTP/1.1\r\nHost: x\r\nX-L: " + pad, "field"),
        (b"GET / HTTP/1.1\r\nHost: x\r\n" + pad.upper(), "field-name"),
        (chunked_head + b"0" * len(pad), "chunk-size"),
        (chunked_head + b"3;" + pad, "chunk-ext"),
        (chunked_head + b"3\r\nabc\r\n0\r\nX-T: " + pad, "trailer"),
        (chunked_head + b"0\r\n" + pad, "trailer-name"),
    ]


def non_utf8_streams():
    """Requests that must be answered with a 400: a byte >= 0x80 (and a control byte) in every position."""
    bad = b"\xff\xfe"
    chunked_head = b"POST / HTTP/1.1\r\nHost: x\r\nTransfer-Encoding: chunked\r\n\r\n"
    return [
        b"G" + bad + b"T / HTTP/1.1\r\nHost: x\r\n\r\n",
        b"GET /a\t" + bad + b" HTTP/1.1\r\nHost: x\r\n\r\n",
        b"GET /a\x00" + bad + b" HTTP/1.1\r\nHost: x\r\n\r\n",
        b"GET / HTTP/1." + bad + b"\r\nHost: x\r\n\r\n",
        b"GET http://" + bad + b"[::1 HTTP/1.1\r\nHost: x\r\n\r\n",
        b"CONNECT " + bad + b":b HTTP/1.1\r\nHost: x\r\n\r\n",
        b"CONNECT " + bad + b":443 HTTP/1.1\r\nHost: x\r\n\r\n",
        b"CONNECT h\xc3\xa9st.example:443 HTTP/1.1\r\nHost: x\r\n\r\n",
        b"GET / HTTP/1.1\r\nHost: x\r\nX" + bad + b": v\r\n\r\n",
        b"GET / HTTP/1.1\r\nHost: x\r\nX: v\x01" + bad + b"\r\n\r\n",
        b"GET / HTTP/1.1\r\nHost: x\r\nContent-Length: 1" + bad + b"\r\n\r\n",
        b"GET / HTTP/1.1\r\nHost: x\r\nContent-Length: " + b"1" * 5000 + b"\r\n\r\n",
        b"GET / HTTP/1.1\r\nHost: x\r\nTransfer-Encoding: " + bad + b"\r\n\r\n",
        chunked_head + bad + b"zz\r\nabc\r\n0\r\n\r\n",
        chunked_head + b"3;e\n" + bad + b"\r\nabc\r\n0\r\n\r\n",
        chunked_head + b"3\r\nabc" + bad + b"\r\n0\r\n\r\n",
        chunked_head + b"3\r\nabc\r\n0\r\nX" + bad + b": t\r\n\r\n",
        chunked_head + b"3\r\nabc\r\n0\r\nX: t\x01" + bad + b"\r\n\r\n",
        chunked_head + b"3\r\nabc\r\n0\r\n" + b"X-T: " + b"t" * 9000 + bad + b"\r\n\r\n",
    ]



def impl_run_drained(segs, lim):
    """A request parser with a bounded message queue whose consumer keeps up (what RequestHandler.start does): after
    every read each emitted message is consumed (message_consumed()) and the parked remainder is re-fed with
    feed_data(b"") until nothing more comes out.  Returns the list of (method, target, version, body hex) and the outcome."""
    from aiohttp.http_parser import HttpRequestParser
    from aiohttp.streams import EMPTY_PAYLOAD
    ml, mf, mh, mq = lim
    proto = mock.Mock()
    proto._reading_paused = False
    p = HttpRequestParser(proto, loop(), 2 ** 22, max_line_size=ml, max_field_size=mf, max_headers=mh,
                          auto_decompress=False, max_msg_queue_size=mq)
    got, outcome = [], "OK"
    try:
        for i, seg in enumerate(list(segs) + [b""]):
            data = bytes(seg)
            for _ in range(10000):
                msgs, upgraded, tail = p.feed_data(data)
                got.extend(msgs)
                for _m in msgs:
                    p.message_consumed()
                data = b""
                if not msgs:
                    break
    except Exception as e:  # noqa
        nm = type(e).__name__
        outcome = ("ERR:" if nm in ERR_CLASSES else "ESCAPE:") + nm
    out = []
    for m, payload in got:
        body = payload is not EMPTY_PAYLOAD
        data = b"".join(bytes(x) for x in getattr(payload, "_buffer", ())) if body else b""
        out.append((m.method, m.path.encode("utf-8", "surrogateescape").hex(), f"{m.version.major}.{m.version.minor}", data.hex()))
    return {"outcome": outcome, "msgs": out}


def impl_run_consumed(segs, lim):
    """Like impl_run, but every delivered payload is read CONCURRENTLY by a consumer task doing what
    BaseRequest.read() does (await readany() until it returns b""), scheduled between the reads.
    Returns [(method, target, body hex, finished)] for the delivered messages and the outcome."""
    from aiohttp.http_parser import HttpRequestParser
    from aiohttp.streams import EMPTY_PAYLOAD
    ml, mf, mh, mq = lim
    lp = loop()
    proto = mock.Mock()
    proto._reading_paused = False
    p = HttpRequestParser(proto, lp, 2 ** 22, max_line_size=ml, max_field_size=mf, max_headers=mh,
                          auto_decompress=False, max_msg_queue_size=mq)
    results = []

    async def consume(payload, slot):
        body = bytearray()
        try:
            while True:
                chunk = await payload.readany()
                body.extend(chunk)
                slot["data"] = bytes(body).hex()
                if not chunk:
                    break
            slot["finished"] = True
        except BaseException as e:  # noqa
            slot["exc"] = type(e).__name__

    async def drive():
        tasks = []
        outcome = "OK"
        for i, seg in enumerate(segs):
            try:
                msgs, upgraded, tail = p.feed_data(bytes(seg))
            except Exception as e:  # noqa
                outcome = f"ERR:{type(e).__name__}@{i}"
                break
            for m, payload in msgs:
                slot = {"method": m.method, "target": m.path.encode("utf-8", "surrogateescape").hex(),
                        "data": "", "finished": payload is EMPTY_PAYLOAD, "exc": None}
                results.append(slot)
                if payload is not EMPTY_PAYLOAD:
                    tasks.append(asyncio.ensure_future(consume(payload, slot)))
            for _ in range(3):
                await asyncio.sleep(0)
        for _ in range(3):
            await asyncio.sleep(0)
        for t in tasks:
            if not t.done():
                t.cancel()
        await asyncio.gather(*tasks, return_exceptions=True)
        return outcome
    outcome = lp.run_until_complete(drive())
    return {"outcome": outcome, "msgs": results}
