"""C13 — WebSocket sessions close cleanly in every interleaving.

Model side : extracted Coq Model/WsSession.v (state machine of WebSocketResponse / ClientWebSocketResponse at
             await/callback granularity, asyncio FIFO scheduling, timers in deadline order).
Impl side  : the real aiohttp objects, in-process: server through AppRunner + in-memory transport and masked
             client frames; client through ClientSession.ws_connect over an in-memory connector and a scripted
             peer; virtual time (VLoop).  A *history* is a list of stimuli (application calls from up to four
             tasks, peer frames delivered now or as queued callbacks, connection loss, task cancellation, clock
             advances) grouped in bursts; after each burst the loop runs until idle and a snapshot of the session
             is compared with the model's (trace validation), and the property oracle is evaluated on the
             implementation alone.
"""
from __future__ import annotations

import asyncio
import base64
import hashlib
import itertools
import json
import logging
import math
import os
import struct
import types

from harness.common import framework as fw

PROP = "C13"
GENERATED = ["WsSessionGen.v"]
RULE = ("histories = corpus + enumerated short orderings of {receive, close, peer close, drop, cancel, advance} on "
        "two tasks + random histories (4-14 stimuli over 4 tasks, peer text/ping/pong/close/malformed frames delivered "
        "synchronously or as queued callbacks, drop, cancel, clock advances around the heartbeat/pong/close/receive "
        "deadlines) x {server, client} x {autoclose, autoping, heartbeat, receive timeout}; every history ends with "
        "an epilogue that lets all timers expire and then drops the connection; plus an implementation-only suite with "
        "write-side back-pressure (server, writer_limit=1, pause/resume writing).  Non-trivial = a close frame was "
        "written or a peer close was consumed; distinct by hash of (config, history, final snapshot).")
TRUSTED = [
    "translator/gen_wssession.py (close codes, opcodes, writer closing guard, statement-order checks of close()/receive())",
    "extraction: ExtrOcamlBasic only; ocaml/common/conv.ml + ocaml/C13/driver.ml (token parsing, snapshot printing)",
    "correspondence harness harness/c13.py: sampled histories, not proved; snapshot = flags, close code, queue, "
    "writer/transport flags, frames on the wire, heartbeat/pong/timeout deadlines, per-task suspension point and result",
    "modelled, not verified: asyncio scheduling (FIFO call_soon, Future/Task wake-up, task.cancel(), asyncio.timeout), "
    "the frame codec (C11/C12), write-side flow control (the transport never pauses writing), compression (off), "
    "ClientTimeout.sock_read (unset), handler_cancellation (off)",
    "harness/common/loop.py VLoop (virtual time), harness/common/transport.py MemTransport (close() -> connection_lost "
    "by call_soon, peer_close() -> connection_lost now)",
]
ASSUMPTIONS = [
    "Liveness is bounded progress under timer fairness: an armed timer fires when the clock reaches its deadline.",
    "The application calls only receive(), close(), send_str/ping/pong; at most four concurrent tasks.",
    "Timeouts are finite and below the ceil threshold (5 s); close timeout > 0.",
    "The model has no write-side flow control (drain() never suspends); histories that pause the transport are run on "
    "the implementation only (oracle), not compared with the model.",
    "Model/implementation agreement is validated on the generated histories only.",
]

WS_KEY = b"258EAFA5-E914-47DA-95CA-C5AB0DC85B11"
UNIT = 1.0 / 16.0
NTASKS = 4


# ------------------------------------------------------------------------------------------------
# known findings: all six C13 findings are fixed in /repo (known_findings.d/C13.json, status "fixed:<commit>");
# nothing is suppressed, their replays run first as corpus/C13/fixed_*.json

BACKPRESSURE_TIMING_KINDS = ("close_overrun", "receive_stuck")

SIGNATURES: dict = {}


def build_model():
    return fw.ocaml_model("C13", ["Model/WsSession.vo"])


# ------------------------------------------------------------------------------------------------
# frames

def frame(op, payload=b"", mask=False, rsv=0):
    b0 = 0x80 | rsv | op
    n = len(payload)
    if n >= 126:
        # big frame; masked with the all-zero key (payload unchanged)
        return bytes([b0, (0x80 if mask else 0) | 127]) + struct.pack("!Q", n) + (b"\x00\x00\x00\x00" if mask else b"") + payload
    if mask:
        m = b"\x11\x22\x33\x44"
        body = bytes(c ^ m[i % 4] for i, c in enumerate(payload))
        return bytes([b0, 0x80 | n]) + m + body
    return bytes([b0, n]) + payload


def parse_frames(buf):
    out, i = [], 0
    while i + 2 <= len(buf):
        b0, b1 = buf[i], buf[i + 1]
        n = b1 & 0x7F
        i += 2
        if n == 126:
            n = struct.unpack("!H", buf[i:i + 2])[0]
            i += 2
        elif n == 127:
            n = struct.unpack("!Q", buf[i:i + 8])[0]
            i += 8
        if b1 & 0x80:
            m = buf[i:i + 4]
            i += 4
            p = bytes(c ^ m[j % 4] for j, c in enumerate(buf[i:i + n]))
        else:
            p = bytes(buf[i:i + n])
        i += n
        out.append((b0 & 0xF, p))
    return out


def frame_letter(op, p):
    if op == 8:
        return "C" + (str(struct.unpack("!H", p[:2])[0]) if len(p) >= 2 else "0")
    return {1: "T", 2: "T", 0: "T", 9: "P", 10: "Q"}.get(op, "?%d" % op)


def is_outside_model(cfg, toks):
    """histories the Gallina model does not cover: write-side back-pressure, messages above the read queue limit"""
    return bool(cfg.wlimit) or any(t in ("wp", "wr") or (len(t) == 2 and t[0] in "pq" and t[1] == "B") for t in toks)


def peer_bytes(tok, mask, big=0):
    k = tok[1]
    if k == "B":
        return frame(2, b"x" * big, mask)      # one binary message just above the read queue's flow-control limit
    if k == "t":
        return frame(1, b"hi", mask)
    if k == "p":
        return frame(9, b"", mask)
    if k == "q":
        return frame(10, b"", mask)
    if k == "c":
        return frame(8, struct.pack("!H", int(tok[2:])), mask)
    if k == "b":
        return frame(1, b"x", mask, rsv=0x40)      # reserved bit without negotiated compression -> 1002
    raise ValueError(tok)


# ------------------------------------------------------------------------------------------------
# implementation driver

class Cfg:
    def __init__(self, side, autoclose=True, autoping=True, hb=None, ctmo=9, rtmo=None, wlimit=False):
        self.side, self.autoclose, self.autoping, self.hb, self.ctmo, self.rtmo = side, autoclose, autoping, hb, ctmo, rtmo
        self.wlimit = wlimit      # server only: writer_limit=1, every frame reaches the drain check (oracle-only histories)

    def line(self):
        return "%s %d %d %s %d %s" % (self.side, self.autoclose, self.autoping, "-" if self.hb is None else self.hb,
                                      self.ctmo, "-" if self.rtmo is None else self.rtmo)

    def to_json(self):
        d = {"side": self.side, "autoclose": self.autoclose, "autoping": self.autoping, "hb": self.hb,
             "ctmo": self.ctmo, "rtmo": self.rtmo}
        if self.wlimit:
            d["wlimit"] = True
        return d

    @staticmethod
    def from_json(d):
        return Cfg(d["side"], d["autoclose"], d["autoping"], d["hb"], d["ctmo"], d["rtmo"], d.get("wlimit", False))


class World:
    """One event loop, one server runner, one client session; sessions are created per history."""

    def __init__(self):
        from harness.common.loop import VLoop
        from harness.common.transport import start_server, make_connector
        import aiohttp
        from aiohttp import web
        logging.disable(logging.CRITICAL)
        self.loop = loop = VLoop()
        loop.auto_advance = False
        asyncio.set_event_loop(loop)
        self.cfg = None
        self.created = []
        world = self

        async def handler(request):
            c = world.cfg
            ws = web.WebSocketResponse(timeout=c.ctmo * UNIT, receive_timeout=None if c.rtmo is None else c.rtmo * UNIT,
                                       autoclose=c.autoclose, autoping=c.autoping,
                                       heartbeat=None if c.hb is None else c.hb * UNIT,
                                       **({"writer_limit": 1} if c.wlimit else {}))
            await ws.prepare(request)
            release = loop.create_future()
            world.created.append((ws, release))
            await release
            return ws

        app = web.Application()
        app.router.add_get("/", handler)
        self._drive(self._setup_server(app, start_server))
        self.origin = None

        class Origin:
            def __init__(self):
                self.hs = False
                self.inbuf = bytearray()
                self.hlen = 0
                self.tr = None

            def on_bytes(self, tr, data):
                self.tr = tr
                if not self.hs:
                    self.inbuf += data
                    if b"\r\n\r\n" in self.inbuf:
                        head = bytes(self.inbuf)
                        key = [ln.split(b":", 1)[1].strip() for ln in head.split(b"\r\n")
                               if ln.lower().startswith(b"sec-websocket-key")][0]
                        acc = base64.b64encode(hashlib.sha1(key + WS_KEY).digest())
                        self.hs = True
                        self.hlen = len(tr.buf)
                        loop.call_soon(tr.protocol.data_received,
                                       b"HTTP/1.1 101 Switching Protocols\r\nUpgrade: websocket\r\nConnection: upgrade\r\n"
                                       b"Sec-WebSocket-Accept: " + acc + b"\r\n\r\n")

        def factory(req):
            world.origin = Origin()
            return world.origin
        self._factory, self._make_connector = factory, make_connector
        self.session = self._drive(self._mk_session(aiohttp))

    async def _setup_server(self, app, start_server):
        self.runner, self.connect = await start_server(app, self.loop)

    async def _mk_session(self, aiohttp):
        self.connector = self._make_connector(self.loop, self._factory)
        return aiohttp.ClientSession(connector=self.connector)

    def _drive(self, coro):
        t = self.loop.create_task(coro)
        for _ in range(50):
            self.loop.run_until_idle()
            if t.done():
                return t.result()
        raise RuntimeError("setup coroutine did not finish")

    def close(self):
        try:
            self._drive(self.session.close())
            self._drive(self.runner.cleanup())
        except Exception:  # noqa
            pass
        for t in asyncio.all_tasks(self.loop):
            t.cancel()
        try:
            self.loop.run_until_idle()
        except Exception:  # noqa
            pass
        asyncio.set_event_loop(None)
        self.loop.close()
        logging.disable(logging.NOTSET)

    # -- sessions
    def open(self, cfg: Cfg):
        loop = self.loop
        loop.vtime = float(math.ceil(loop.vtime)) + 16.0
        loop.exceptions.clear()
        self.cfg = cfg
        if cfg.side == "S":
            self.created.clear()
            proto, tr = self.connect()
            key = base64.b64encode(b"0123456789abcdef").decode()
            proto.data_received(("GET / HTTP/1.1\r\nHost: x\r\nUpgrade: websocket\r\nConnection: Upgrade\r\n"
                                 f"Sec-WebSocket-Key: {key}\r\nSec-WebSocket-Version: 13\r\n\r\n").encode())
            loop.run_until_idle()
            ws, release = self.created.pop()
            return Session(self, cfg, ws, proto, tr, len(tr.buf), release)
        import aiohttp
        ws = self._drive(self.session.ws_connect(
            "http://x/", timeout=aiohttp.ClientWSTimeout(ws_receive=None if cfg.rtmo is None else cfg.rtmo * UNIT,
                                                         ws_close=cfg.ctmo * UNIT),
            autoclose=cfg.autoclose, autoping=cfg.autoping, heartbeat=None if cfg.hb is None else cfg.hb * UNIT))
        tr = self.origin.tr
        return Session(self, cfg, ws, tr.protocol, tr, self.origin.hlen, None)


def _msg_letter(m):
    n = m.type.name
    if n == "CLOSE":
        return "C%d" % int(m.data)
    return {"TEXT": "T", "BINARY": "T", "PING": "P", "PONG": "Q", "CLOSING": "G", "CLOSED": "D", "ERROR": "E"}.get(n, "?" + n)


class Session:
    def __init__(self, world, cfg, ws, proto, tr, hlen, release):
        self.w, self.cfg, self.ws, self.proto, self.tr, self.hlen, self.release = world, cfg, ws, proto, tr, hlen, release
        self.loop = world.loop
        self.t0 = self.loop.time()
        self.tasks = [None] * NTASKS
        self.ops = [None] * NTASKS
        self.active_close = []        # [start_time, depth-id] of close() invocations not yet returned
        self.close_log = []           # (start, end, result) of finished invocations
        self.peer_close_codes = []    # codes of close frames handed to data_received while the transport was open
        self.peer_after_our_close = 0
        self.applied = []
        self.advanced = False
        self.stall = 0.0              # clock advances made while callbacks were ready (a stalled loop, not waiting)
        self.pending_peer = []        # peer frames withheld while the transport has paused reading (like a socket)
        self.big = ws._reader._limit + 1
        orig_resume = tr.resume_reading

        def _resume():
            orig_resume()
            self.loop.call_soon(self._flush_pending)
        tr.resume_reading = _resume
        orig_close = ws.close
        sess = self

        async def _c13_close(*a, **k):
            ent = [sess.loop.time(), sess.stall]
            sess.active_close.append(ent)
            try:
                return await orig_close(*a, **k)
            finally:
                sess.active_close.remove(ent)
        ws.close = _c13_close

    def now_units(self):
        return round((self.loop.time() - self.t0) * 16)

    # -- stimuli
    def _deliver(self, data, tok):
        if self.tr.closed:
            return
        if not self.tr.reading or self.pending_peer:
            # a transport that honours pause_reading(): later reads are withheld until resume_reading()
            self.pending_peer.append((data, tok))
            return
        self._hand_over(data, tok)

    def _hand_over(self, data, tok):
        if tok[1] == "c":
            self.peer_close_codes.append(int(tok[2:]))
        if any(op == 8 for op, _ in parse_frames(bytes(self.tr.buf[self.hlen:]))):
            self.peer_after_our_close += 1
        self.proto.data_received(data)

    def _flush_pending(self):
        while self.pending_peer and self.tr.reading and not self.tr.closed:
            data, tok = self.pending_peer.pop(0)
            self._hand_over(data, tok)

    def apply(self, tok):
        """Apply one stimulus; returns False if it is not applicable (then nothing happened)."""
        ws, loop = self.ws, self.loop
        k = tok[0]
        if k == "/":
            loop.run_until_idle()
        elif k == "c":
            t = int(tok[1])
            cur = self.tasks[t]
            if cur is not None and not cur.done():
                return False
            if tok[2] == "r":
                coro = ws.receive()
            elif tok[2] == "k":
                coro = ws.close(code=int(tok[3:]))
            else:
                coro = ws.send_str("x") if tok[3] == "t" else (ws.ping() if tok[3] == "p" else ws.pong())
            self.tasks[t] = loop.create_task(coro)
            self.ops[t] = tok[2]
        elif k == "p":
            self._deliver(peer_bytes(tok, self.cfg.side == "S", self.big), tok)
        elif k == "q":
            loop.call_soon(self._deliver, peer_bytes(tok, self.cfg.side == "S", self.big), tok)
        elif k == "d":
            self.tr.peer_close(None)
        elif k == "l":
            # the connection is closed locally by another actor (ClientSession.close() / connector.close() end in
            # ResponseHandler.close()); client only
            if self.cfg.side != "C":
                return False
            self.proto.close()
        elif k == "w":
            # write-side back-pressure (oracle-only histories; the model has no flow control)
            if self.tr.lost_called or (tok[1] == "p") == bool(self.proto._paused):
                return False
            (self.proto.pause_writing if tok[1] == "p" else self.proto.resume_writing)()
        elif k == "x":
            t = self.tasks[int(tok[1:])]
            if t is not None and not t.done():
                t.cancel()
        elif k == "a":
            if any(not h._cancelled for h in loop._ready):
                self.stall += int(tok[1:]) * UNIT
            loop.advance(int(tok[1:]) * UNIT)
            self.advanced = True
            self._collect_due_timers()
        elif k == "r":
            while loop._ready:
                h = loop._ready.popleft()
                if not h._cancelled:
                    import threading
                    asyncio.events._set_running_loop(loop)
                    loop._thread_id = threading.get_ident()      # loop.is_running() (eager tasks)
                    try:
                        h._run()
                    finally:
                        loop._thread_id = None
                        asyncio.events._set_running_loop(None)
                    break
        else:
            raise ValueError(tok)
        self.applied.append(tok)
        return True

    def _collect_due_timers(self):
        """What BaseEventLoop._run_once does first: due timer handles move to the ready queue in deadline order.
        Only the session's own timers (heartbeat, pong, asyncio.timeout of our tasks) are moved here; any other
        timer of the loop is left to the loop itself."""
        import asyncio.timeouts as at
        import heapq
        loop, ws = self.loop, self.ws
        keep, due = [], []
        while loop._scheduled and loop._scheduled[0]._when <= loop.time():
            h = heapq.heappop(loop._scheduled)
            cb = h._callback
            obj = getattr(cb, "__self__", None)
            mine = (obj is ws and getattr(cb, "__name__", "") in ("_send_heartbeat", "_pong_not_received")) or \
                   (isinstance(obj, at.Timeout) and obj._task in self.tasks)
            if h._cancelled:
                loop._timer_cancelled_count -= 1
                h._scheduled = False
            elif mine:
                h._scheduled = False
                due.append(h)
            else:
                keep.append(h)
        for h in keep:
            heapq.heappush(loop._scheduled, h)
        loop._ready.extend(due)

    # -- observation
    def _timeouts(self):
        """task -> relative deadline (units) of the asyncio.timeout() it is inside"""
        import asyncio.timeouts as at
        out = {}
        for h in self.loop._scheduled:
            if h._cancelled:
                continue
            cb = h._callback
            obj = getattr(cb, "__self__", None)
            if isinstance(obj, at.Timeout) and getattr(cb, "__name__", "") == "_on_timeout":
                out[obj._task] = round((h._when - self.loop.time()) * 16)
        return out

    def _task_state(self, i, tmo):
        t = self.tasks[i]
        if t is None:
            return "I"
        if not t.done():
            coro = t.get_coro()
            names = []
            c = coro
            while isinstance(c, types.CoroutineType):
                names.append(c.cr_code.co_name)
                c = c.cr_await
            if coro.cr_frame is not None and coro.cr_frame.f_lasti < 0:
                st = "S"
            elif "read" in names:
                st = "CR" if "close" in names else "W"
            elif names and names[-1] == "close":
                st = "CW"
            else:
                st = "?" + "/".join(names)
            if t in tmo:
                st += "@%d" % tmo[t]
            return st
        if t.cancelled():
            return "DxC"
        e = t.exception()
        if e is not None:
            if isinstance(e, asyncio.TimeoutError):
                return "DxT"
            if isinstance(e, RuntimeError):
                return "DxR"
            if isinstance(e, ConnectionResetError):
                return "DxN"
            if isinstance(e, AssertionError):
                return "DxA"
            return "Dx?" + type(e).__name__
        r = t.result()
        if r is None:
            return "Dn"
        if isinstance(r, bool):
            return "Db%d" % r
        return "Dm" + _msg_letter(r)

    def sent_frames(self):
        return [frame_letter(op, p) for op, p in parse_frames(bytes(self.tr.buf[self.hlen:]))]

    def snapshot(self):
        ws, tr, loop = self.ws, self.tr, self.loop
        r = ws._reader
        now = loop.time()

        def rel(h):
            if h is None or h._cancelled or not h._scheduled:
                return "-"
            return str(round((h._when - now) * 16))
        cw = "none" if ws._close_wait is None else ("done" if ws._close_wait.done() else "pend")
        exc = r._exception
        if exc is None:
            excs = "-"
        else:
            excs = str(int(getattr(exc, "code", -1))) if hasattr(exc, "code") else "X" + type(exc).__name__
        if self.cfg.side == "S":
            pcl = bool(self.proto._close)
            lostcnt = ws._conn_lost
        else:
            pcl = self.proto._payload_parser is None
            lostcnt = 0
        tmo = self._timeouts()
        code = ws._close_code
        return ("closed=%d closing=%d code=%s waiting=%d cw=%s lostcnt=%d buf=[%s] eof=%d exc=%s waiter=%d wclosing=%d "
                "trclosing=%d lost=%d sent=[%s] hb=%s pong=%s nreset=%d hasexc=%d pcl=%d tasks=%s") % (
            ws._closed, ws._closing, "-" if code is None else str(int(code)), ws._waiting, cw, lostcnt,
            "".join(_msg_letter(m) for m in r._buffer), r._eof, excs, r._waiter is not None, ws._writer._closing,
            tr.closed, tr.lost_called, ",".join(self.sent_frames()), rel(ws._heartbeat_cb), rel(ws._pong_response_cb),
            ws._need_heartbeat_reset, ws._exception is not None, pcl,
            ",".join(self._task_state(i, tmo) for i in range(NTASKS)))

    # -- the property, evaluated on the implementation only
    def oracle(self, final=False, silent_epilogue=False):
        """-> list of (kind, text, extra)"""
        ws, tr = self.ws, self.tr
        bad = []
        fr = self.sent_frames()
        closes = [i for i, f in enumerate(fr) if f.startswith("C")]
        if len(closes) > 1:
            bad.append(("two_close_frames", "more than one close frame on the wire: %s" % fr, {}))
        if closes and any(f == "T" for f in fr[closes[0] + 1:]):
            bad.append(("data_after_close", "data frame after the close frame: %s" % fr, {}))
        now = self.loop.time()
        for ent in self.active_close:
            waited = (now - ent[0]) - (self.stall - ent[1])
            if waited * 16 >= self.cfg.ctmo - 1e-6:
                bad.append(("close_overrun", "close() still blocked %.4fs after it was called (close timeout %.4fs)"
                            % (waited, self.cfg.ctmo * UNIT), {"peer_frames_after_close": self.peer_after_our_close}))
        tmo = self._timeouts()
        states = [self._task_state(i, tmo) for i in range(NTASKS)]
        for i, st in enumerate(states):
            if st.startswith("W") and (ws._closed or tr.lost_called):
                bad.append(("receive_stuck", "receive() of task %d still blocked although the session is %s"
                            % (i, "closed" if ws._closed else "disconnected"), {}))
            if final and not st.startswith(("D", "I")):
                bad.append(("task_stuck", "task %d (%s) never finished although every timer expired and the connection was dropped: %s"
                            % (i, self.ops[i], st), {}))
        # read-side flow control: an empty queue with the transport still paused can never resume (resume happens
        # only when a message is taken from the queue), so frames the peer has sent are never read
        if self.pending_peer and not tr.reading and not tr.closed and not ws._reader._buffer:
            bad.append(("read_paused_stuck", "reader queue is empty but the transport is still paused: %d peer frame(s) %s will never be read"
                        % (len(self.pending_peer), [t for _, t in self.pending_peer]), {}))
        # heartbeat: while the session is open some heartbeat machinery must be pending (ping timer, pong timer or
        # the coalesced reset), otherwise a silent peer is never detected
        if self.cfg.hb is not None and not ws._closed and not ws._closing and not tr.closed:
            def _armed(h):
                return h is not None and not h._cancelled and (getattr(h, "_scheduled", False) or h in self.loop._ready)
            if not (_armed(ws._heartbeat_cb) or _armed(ws._pong_response_cb)
                    or (ws._need_heartbeat_reset and ws._heartbeat_reset_handle is not None)):
                bad.append(("heartbeat_dead", "heartbeat enabled and session open, but neither the ping timer, the pong timer nor a "
                            "heartbeat reset is pending: a silent peer is never detected", {}))
        if silent_epilogue and self.cfg.hb is not None and not tr.closed and not (ws._closed or ws._closing):
            bad.append(("heartbeat_dead", "heartbeat %.4fs: the peer was silent for %.1fs but the session was not closed with 1006"
                        % (self.cfg.hb * UNIT, 25.0), {}))
        if ws._closed and not self.active_close:
            if not tr.closed:
                bad.append(("transport_open", "session closed (no close() in progress) but the transport is still open", {}))
            code = None if ws._close_code is None else int(ws._close_code)
            if code != 1006 and code not in self.peer_close_codes:
                bad.append(("close_code", "reported close code %s but the peer's close frames carried %s (abnormal end must report 1006)"
                            % (code, self.peer_close_codes), {"observed_code": code}))
            if (code == 1006 and len(set(self.peer_close_codes)) == 1 and closes and not self.advanced
                    and not any(t[0] in "dxl" or t[1:2] == "b" for t in self.applied if t != "/")
                    and self._clean_order()):
                bad.append(("close_code", "clean closing handshake (peer code %s, our close frame sent, no fault) reported as 1006"
                            % self.peer_close_codes[0], {"observed_code": code}))
        for ctx in self.loop.exceptions:
            e = ctx.get("exception")
            if e is not None and not isinstance(e, asyncio.CancelledError) and "never retrieved" not in ctx.get("message", ""):
                bad.append(("callback_exception", "unhandled %r in an event-loop callback: %s" % (e, ctx.get("message")), {}))
        self.loop.exceptions.clear()
        return bad

    def _clean_order(self):
        """all peer close frames were delivered before any application call other than receive()/close() failed;
        conservative: require that the first peer close was applied before the transport got closed by us, which
        holds whenever it was counted, and that no send op is in the history"""
        return not any(t[0] == "c" and t[2] == "s" for t in self.applied)

    def finish(self):
        for t in self.tasks:
            if t is not None and not t.done():
                t.cancel()
        if self.release is not None and not self.release.done():
            self.release.set_result(None)
        if not self.tr.closed:
            self.tr.peer_close(None)
        if self.cfg.side == "C":
            try:
                self.ws._response.close()
            except Exception:  # noqa
                pass
        self.loop.run_until_idle()
        for t in self.tasks:
            if t is not None and t.done() and not t.cancelled():
                t.exception()
        self.loop.exceptions.clear()


EPILOGUE = ["/", "a200", "/", "a200", "/", "d", "/"]


def run_history(world, cfg, tokens, online=True):
    """Run tokens (+ epilogue) on the implementation.  Returns (applied tokens, snapshots, violations)."""
    s = world.open(cfg)
    snaps, viol = [], []
    try:
        toks = list(tokens)
        if not toks or toks[-1] != "/":
            toks.append("/")
        n_main = len(toks)
        toks += EPILOGUE[1:]
        for i, tok in enumerate(toks):
            ok = s.apply(tok)
            if tok == "/":
                snaps.append(s.snapshot())
                # the snapshot before the final drop: the peer has been silent for the two epilogue advances
                silent = (i == len(toks) - 3) and not s.pending_peer
                for kind, text, extra in s.oracle(final=(i == len(toks) - 1), silent_epilogue=silent):
                    viol.append((kind, text, extra, len(s.applied)))
        applied = list(s.applied)
        extra_obs = {"peer_close_codes": list(s.peer_close_codes)}
    finally:
        s.finish()
    return applied, snaps, viol, extra_obs


def model_line(cfg, applied):
    return cfg.line() + " " + " ".join(applied)


GHOST = ("bad=", "leak=", "defect=")


def strip_ghost(snap):
    return " ".join(p for p in snap.split(" ") if not p.startswith(GHOST))


def model_snaps(exe, cfg_tokens):
    outs = fw.run_model(exe, [model_line(c, t) for c, t in cfg_tokens])
    return [o.split(" | ") for o in outs]


# ------------------------------------------------------------------------------------------------
# generators

def random_cfg(rng, side):
    return Cfg(side, autoclose=rng.random() < 0.8, autoping=rng.random() < 0.8,
               hb=rng.choice([None, None, 20]), ctmo=rng.choice([9, 13, 33]), rtmo=rng.choice([None, None, 7, 23]))


def backpressure_history(rng):
    """server, writer_limit=1, the transport pauses writing at some point: oracle-only"""
    toks = []
    for _ in range(rng.randint(3, 8)):
        r = rng.random()
        if r < 0.25:
            toks.append(rng.choice(["wp", "wp", "wr"]))
        elif r < 0.5:
            toks.append("c%dk1000" % rng.choice([0, 1]))
        elif r < 0.7:
            toks.append("c%dst" % rng.choice([2, 3]))
        elif r < 0.8:
            toks.append("c0r")
        elif r < 0.9:
            toks.append(rng.choice(["pt", "pc4001", "pp"]))
        else:
            toks.append("a%d" % rng.choice([4, 12]))
        if rng.random() < 0.6:
            toks.append("/")
    return toks


def bigmsg_history(rng):
    """one message above the read queue limit (reading pauses), later peer frames in later reads: oracle-only"""
    toks = []
    for _ in range(rng.randint(3, 8)):
        r = rng.random()
        if r < 0.25:
            toks.append(rng.choice(["pB", "qB"]))
        elif r < 0.55:
            toks.append("c0r")
        elif r < 0.75:
            toks.append(rng.choice(["pt", "pp", "pc1000", "pc4001", "qc3000"]))
        elif r < 0.85:
            toks.append("c1k1000")
        elif r < 0.92:
            toks.append("a%d" % rng.choice([4, 12]))
        else:
            toks.append(rng.choice(["d", "x0"]))
        if rng.random() < 0.65:
            toks.append("/")
    return toks


def random_history(rng, cfg):
    n = rng.randint(3, 14)
    toks = []
    codes = [1000, 1001, 4001, 3000]
    advs = [4, 8, 12, 20, 24, 32, 36]
    for _ in range(n):
        r = rng.random()
        if r < 0.22:
            toks.append("c%dr" % rng.choice([0, 0, 0, 1, 2]))
        elif r < 0.40:
            toks.append("c%dk%d" % (rng.choice([1, 1, 2, 3, 0]), rng.choice(codes)))
        elif r < 0.46:
            toks.append("c%ds%s" % (rng.choice([2, 3]), rng.choice("tpq")))
        elif r < 0.70:
            kind = rng.choice(["t", "t", "p", "q", "c", "c", "c", "b"])
            pre = rng.choice("ppq")
            toks.append(pre + kind + (str(rng.choice(codes)) if kind == "c" else ("1002" if kind == "b" else "")))
        elif r < 0.76:
            toks.append("l" if (cfg.side == "C" and rng.random() < 0.4) else "d")
        elif r < 0.86:
            toks.append("x%d" % rng.choice([0, 1, 1, 2, 3]))
        elif r < 0.93:
            toks.append("a%d" % rng.choice(advs))
        else:
            toks.append("r")
        if rng.random() < 0.5:
            toks.append("/")
    return toks


def enumerated_histories(alphabet, length, seps):
    """all sequences of `length` stimuli, each followed by "/" or not according to `seps` patterns"""
    for seq in itertools.product(alphabet, repeat=length):
        for sp in seps:
            toks = []
            for s_, cut in zip(seq, sp):
                toks.append(s_)
                if cut:
                    toks.append("/")
            yield toks


# ------------------------------------------------------------------------------------------------

def _case_dict(cfg, applied, kind, extra):
    d = {"suite": "session", "side": cfg.side, "cfg": cfg.to_json(), "tokens": list(applied), "kind": kind}
    d.update(extra)
    return d


def _close(ctx, exe, suite, n):
    if exe is None:
        ctx.oblige(f"correspondence:{suite}", "correspondence", False, "model runner unavailable; implementation-only search ran %d histories" % n)
        ctx.count(f"suite:{suite}", n)
    else:
        ctx.close_suite(suite, n)


def check_batch(ctx, exe, world, batch, suite):
    """batch: list of (cfg, tokens).  Runs implementation then model, diffs snapshots, reports violations."""
    results = []
    for cfg, toks in batch:
        applied, snaps, viol, obs = run_history(world, cfg, toks)
        results.append((cfg, applied, snaps, viol))
    if exe is None:
        msn = [None] * len(results)       # model runner unavailable: implementation-only search
    else:
        idx = [i for i, (c, a, _, _) in enumerate(results) if not is_outside_model(c, a)]
        got = model_snaps(exe, [(results[i][0], results[i][1]) for i in idx])
        msn = [None] * len(results)       # histories with back-pressure are outside the model: oracle only
        for i, g in zip(idx, got):
            msn[i] = g
    ran = 0
    for (cfg, applied, snaps, viol), ms in zip(results, msn):
        ran += 1
        final = snaps[-1] if snaps else ""
        nontriv = ("sent=[" in final and "C" in final.split("sent=[")[1].split("]")[0]) or "code=" in final and "code=-" not in final
        ctx.case((cfg.line(), tuple(applied), final), nontrivial=bool(nontriv))
        ctx.count("side:" + cfg.side)
        ctx.count("len:%d" % min(20, sum(1 for t in applied if t != "/")))
        for t in applied:
            if t != "/":
                ctx.count("stim:" + (t[0] + (t[2] if t[0] == "c" else t[1:2] if t[0] in "pq" else "")))
        for tk in final.split("tasks=")[1].split(",") if "tasks=" in final else []:
            ctx.count("outcome:" + tk.split("@")[0])
        ctx.traces_validated += 1
        # correspondence
        mss = [strip_ghost(x) for x in ms] if ms is not None else None
        if mss is None:
            pass
        elif any("REJECT" in x or "NOTIDLE" in x or "bad=1" in y for x, y in zip(mss, ms)) or len(mss) != len(snaps):
            ctx.disagreement(suite, {"cfg": cfg.to_json(), "tokens": applied}, ms[-1] if ms else None, "model rejected/did not quiesce")
        else:
            for j, (a, b) in enumerate(zip(mss, snaps)):
                if a != b:
                    ctx.disagreement(suite, {"cfg": cfg.to_json(), "tokens": applied, "burst": j}, a, b)
                    break
        seen = set()
        outside_model = cfg.wlimit or "wp" in applied or "wr" in applied
        for kind, text, extra, upto in viol:
            if kind in seen:
                continue
            if outside_model and kind in BACKPRESSURE_TIMING_KINDS:
                # write-side back-pressure is not among the property's actors: while the transport refuses writes,
                # close() waits in send_frame's drain (outside the close timeout, before it wakes a blocked receive()).
                # Only the safety part (wire, transport, close code, termination after the drop) is checked there.
                ctx.count("backpressure-timing-observation:" + kind)
                continue
            seen.add(kind)
            case = _case_dict(cfg, applied[:upto], kind, extra)
            ctx.violation(case, "%s %s: %s; history=%s" % ("server" if cfg.side == "S" else "client", kind, text, " ".join(applied[:upto])))
    return ran


def corpus_cases():
    d = os.path.join(fw.VERIF, "corpus", "C13")
    out = []
    for fn in sorted(os.listdir(d)) if os.path.isdir(d) else []:
        if fn.endswith(".json"):
            p = json.load(open(os.path.join(d, fn)))
            c = p.get("case", p)
            out.append((Cfg.from_json(c["cfg"]), c["tokens"]))
    return out


def run(ctx):
    ok, exe = build_model()
    ctx.oblige("model-runner-build", "correspondence", ok, "" if ok else exe)
    if not ok:
        exe = None          # the property oracle still runs on the implementation
    rng = ctx.rng
    world = World()
    try:
        # 1. corpus
        cc = corpus_cases()
        n = check_batch(ctx, exe, world, cc, "corpus") if cc else 0
        _close(ctx, exe, "corpus", max(n, 1) if cc else 1)
        # 2. enumerated short orderings on two tasks
        alpha = ["c0r", "c1k1001", "pc4001", "d", "x1", "x0", "a12", "pt", "qc4001", "r", "l"]
        seps = [(1, 1, 1, 1), (0, 0, 0, 1), (1, 0, 0, 1), (0, 1, 0, 1)]
        allseq = list(enumerated_histories(alpha, 3 if ctx.quick else 4, [s[:3] + (1,) for s in seps] if ctx.quick else seps[:2]))
        # 3-sequences are prefixed with a blocked receive so that the races are reached
        batch = []
        for side in "SC":
            cfgs = [Cfg(side), Cfg(side, hb=20, rtmo=7)] if not ctx.quick else [Cfg(side)]
            for cfg in cfgs:
                pick = allseq if not ctx.quick else rng.sample(allseq, min(len(allseq), 500))
                for toks in pick:
                    batch.append((cfg, ["c0r", "/"] + toks if rng.random() < 0.5 else toks))
        n = check_batch(ctx, exe, world, batch, "enumerated-orderings")
        _close(ctx, exe, "enumerated-orderings", n)
        # 3. random histories
        nrand = 1200 if ctx.quick else 30000
        batch = []
        for i in range(nrand):
            cfg = random_cfg(rng, "SC"[i % 2])
            batch.append((cfg, random_history(rng, cfg)))
        n = 0
        for k in range(0, len(batch), 2000):
            n += check_batch(ctx, exe, world, batch[k:k + 2000], "random-histories")
        _close(ctx, exe, "random-histories", n)
        # 4. write-side back-pressure: outside the model, implementation-only search (no correspondence obligation)
        bp = [(Cfg("S", ctmo=9, wlimit=True), backpressure_history(rng)) for _ in range(150 if ctx.quick else 3000)]
        n = check_batch(ctx, None, world, bp, "backpressure-oracle-only")
        ctx.count("suite:backpressure-oracle-only", n)
        # 5. read-side flow control: messages above the queue limit, outside the model, implementation-only search
        bm = [(Cfg("SC"[i % 2], ctmo=9, hb=rng.choice([None, None, 20])), bigmsg_history(rng)) for i in range(60 if ctx.quick else 1500)]
        n = check_batch(ctx, None, world, bm, "bigmsg-oracle-only")
        ctx.count("suite:bigmsg-oracle-only", n)
        if batch:
            ctx.sample({"suite": "random-histories", "cfg": batch[-1][0].to_json(), "tokens": batch[-1][1]})
            ctx.sample({"suite": "random-histories", "cfg": batch[0][0].to_json(), "tokens": batch[0][1]})
    finally:
        world.close()


def replay(ctx, case):
    try:
        ok, exe = build_model()
    except Exception as e:  # noqa  (e.g. --replay under VERIF_REPO: the isolated work dir has no coq/_CoqProject)
        ok, exe = False, repr(e)
    cfg = Cfg.from_json(case["cfg"])
    world = World()
    try:
        applied, snaps, viol, obs = run_history(world, cfg, case["tokens"])
    finally:
        world.close()
    outside = is_outside_model(cfg, applied)      # back-pressure / oversized messages: not in the model
    ms = model_snaps(exe, [(cfg, applied)])[0] if (ok and not outside) else []
    want = case.get("kind")
    hits = [(k, t) for k, t, _, _ in viol if want is None or k == want]
    return {"violates": bool(hits), "why": hits[0][1] if hits else None, "all_violations": [(k, t) for k, t, _, _ in viol],
            "applied": applied, "impl": snaps, "model": ms,
            "agree": None if outside else [strip_ghost(a) for a in ms] == snaps,
            "note": "history uses write-side back-pressure or a message above the read queue limit, which the model does not cover (oracle only)" if outside else ""}
