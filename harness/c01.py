"""C01 — request framing is unambiguous: one wire message, one parsed request."""
from __future__ import annotations

import json
import os

from harness import httpfam as H
from harness.common import framework as fw

PROP = "C01"
GENERATED = ["HttpGen.v"]
RULE = ("request pipelines from a grammar (methods x target forms x versions x header sets incl. every framing header "
        "x length/chunked/extension/trailer bodies, depth 1-4); every smuggling / malformation class (CL+TE, duplicate "
        "or non-decimal Content-Length, Transfer-Encoding not a single final chunked, bare LF / bare CR, obs-fold, "
        "control bytes, whitespace around field names, malformed chunk sizes / extensions / trailers, missing or "
        "repeated Host, control bytes in the target ...) applied at a random applicable position; byte mutations; "
        "x limit configurations. Each stream is read by the whole-stream strict reading (Coq Model/HttpSpec.v, "
        "extracted), by the extracted parser model and by aiohttp. Non-trivial = the strict reading yields at least "
        "one complete request; distinct by hash of (stream, limits).")
TRUSTED = [
    "translator/gen_http.py", "extraction: ExtrOcamlBasic only; ocaml/common/conv.ml + ocaml/HTTP/driver.ml",
    "correspondence harness harness/httpfam.py + harness/c01.py: sampled, not proved",
    "Model/HttpSpec.v is the strict reading used as oracle; it shares the field-level validators with Model/Http.v "
    "and is independent in stream splitting, body extraction and de-chunking; model = spec is validated by "
    "sampling (theorems cover the validators' rejection classes and the spec's partition property)",
    "yarl is an oracle for authority-/absolute-form targets",
]
ASSUMPTIONS = ["Python parser (AIOHTTP_NO_EXTENSIONS=1)", "surrogateescape decoding is modelled as identity on bytes"]
SIGNATURES: dict = {}


def spec_run_many(exe, items):
    """items: (stream, lim) -> parsed spec verdicts (oracle questions answered by yarl)."""
    oracles = [dict() for _ in items]
    res = [None] * len(items)
    todo = list(range(len(items)))
    for _ in range(8):
        if not todo:
            break
        lines = []
        for i in todo:
            s, lim = items[i]
            orc = ",".join(f"{'c' if c else 'a'}:{fw.hexs(t)}:{int(v)}" for (c, t), v in oracles[i].items()) or "-"
            lines.append("SPEC %d %d %d %d %s %s" % (*lim, orc, fw.hexs(s)))
        outs = fw.run_model(exe, lines)
        nxt = []
        for i, o in zip(todo, outs):
            if o.startswith("ASK:"):
                _, kind, hx = o.split(":")
                t = fw.unhex(hx)
                oracles[i][(kind == "c", t)] = H.yarl_verdict(kind == "c", t)
                nxt.append(i)
            else:
                res[i] = parse_spec(o)
        todo = nxt
    return res


def parse_spec(o):
    head, recs = o.split("#", 1)
    kind = head.split(":")[0]
    msgs = []
    for e in (recs.split("|") if recs else []):
        _, meth, tgt, ver, flags, comp, hdrs, data, ends, span = e.split(":")
        msgs.append({"method": fw.unhex(meth).decode("latin1"), "target": fw.unhex(tgt).hex(), "version": ver,
                     "headers": [] if hdrs == "~" else [tuple(fw.unhex(x).hex() for x in kv.split("=")) for kv in hdrs.split(",")],
                     "close": flags[0] == "1", "chunked": flags[1] == "1", "upgrade": flags[2] == "1",
                     "compression": None if comp == "~" else fw.unhex(comp).decode("latin1"),
                     "data": fw.unhex(data).hex(), "splits": [] if ends == "-" else [int(x) for x in ends.split(",")],
                     "span": int(span)})
    if kind == "UPGRADED" and msgs and msgs[-1]["method"] == "CONNECT":
        # a CONNECT tunnel: aiohttp hands the following bytes to the request's payload stream
        rest = head.split(":", 1)[1]
        msgs[-1]["data"] = fw.unhex(rest).hex()
        head = "UPGRADED:-"
    return {"kind": kind, "detail": head, "msgs": msgs}


FIELDS = ("method", "target", "version", "headers", "close", "chunked", "upgrade", "compression", "data", "splits")


def view(m):
    return {k: m[k] for k in FIELDS}


def judge(ctx, s, lim, spec, impl, how):
    """impl = observable of the implementation reading the same bytes (how = 'one-shot' | 'byte-at-a-time')."""
    case = {"stream": s.hex(), "lim": list(lim), "how": how, "spec": spec["detail"][:80], "impl": impl["outcome"]}
    if impl["outcome"].startswith("ESCAPE"):
        return      # C10's subject
    sm = [view(m) for m in spec["msgs"]]
    im_complete = [view(m) for m in impl["msgs"] if m["eof"] and m["exc"] is None]
    im_all = [view(m) for m in impl["msgs"]]
    k = spec["kind"]
    if k in ("ACCEPT", "UPGRADED"):
        if not impl["outcome"].startswith("OK"):
            ctx.violation(case, f"strict reading accepts {len(sm)} request(s) but aiohttp rejects ({impl['outcome']})")
        elif im_all != sm:
            ctx.violation(case, f"accepted requests differ from the strict reading: aiohttp={json.dumps(im_all)[:400]} strict={json.dumps(sm)[:400]}")
        elif k == "UPGRADED" and impl["outcome"] != "OK:" + fw.hexs(bytes.fromhex(spec["detail"].split(":")[1]) if spec["detail"].split(":")[1] != "-" else b""):
            # bytes after a protocol switch / CONNECT are not HTTP; CONNECT tunnels feed them to the payload instead
            if not (sm and sm[-1]["method"] == "CONNECT"):
                ctx.violation(case, "bytes after the protocol switch differ from the strict reading")
    elif k == "REJECT":
        if impl["outcome"].startswith("OK"):
            ctx.violation(case, f"strict reading rejects ({spec['detail']}) but aiohttp gives the bytes an interpretation: "
                                f"{json.dumps(im_all)[:500]}")
        elif im_complete[: len(sm)] != sm[: len(im_complete)] or len(im_complete) > len(sm):
            ctx.violation(case, "requests delivered before the rejection are not those of the strict reading")
    elif k == "INCOMPLETE":
        if impl["outcome"].startswith("OK") and im_complete != sm:
            ctx.violation(case, f"complete requests of an incomplete stream differ: aiohttp={json.dumps(im_complete)[:300]} strict={json.dumps(sm)[:300]}")
        if sum(m["span"] for m in spec["msgs"]) > len(s):
            ctx.violation(case, "strict reading spans exceed the stream (spec bug)")


def run(ctx):
    ok, exe = H.build_model()
    ctx.oblige("model-runner-build", "correspondence", ok, "" if ok else exe)
    if not ok:
        return
    rng = ctx.rng
    items, classes = [], []
    cdir = os.path.join(fw.VERIF, "corpus", "C01")
    for fn in sorted(os.listdir(cdir)) if os.path.isdir(cdir) else []:
        c = json.load(open(os.path.join(cdir, fn)))
        c = c.get("case", c)
        items.append((bytes.fromhex(c["stream"]), tuple(c["lim"])))
        classes.append("corpus")
    n = 2500 if ctx.quick else 40000
    for i in range(n):
        s = H.gen_stream(rng)
        r = rng.random()
        cls = "valid"
        if r < 0.5:
            s, cls = H.mutate_smuggling(rng, s)
        elif r < 0.62:
            s = H.mutate_bytes(rng, s)
            cls = "bytes"
        lim = H.DEFAULT_LIM if rng.random() < 0.7 else rng.choice(H.SMALL_LIMS[:3] + H.SMALL_LIMS[4:])
        items.append((s, lim))
        classes.append(cls)
    for s in H.bad_content_length_streams():
        items.append((s, H.DEFAULT_LIM))
        classes.append("directed-bad-content-length")
    # systematic: every single insertion / deletion / line duplication in a few base streams
    for bi, base in enumerate(H.SYSTEMATIC_BASES):
        for mstream in H.systematic_mutants(base, rng, 0.34 if ctx.quick else 1.0):
            items.append((mstream, H.DEFAULT_LIM))
            classes.append(f"systematic{bi}")
    specs = spec_run_many(exe, items)
    model = H.model_run_many(exe, [([s], lim) for s, lim in items])
    ran = 0
    for (s, lim), sp, m, cls in zip(items, specs, model, classes):
        if sp is None:
            continue
        im = H.impl_run([s], lim)
        ran += 1
        ctx.case((s, lim), nontrivial=bool(sp["msgs"]))
        ctx.count("class:" + cls)
        ctx.count("strict:" + sp["kind"])
        if not H.same(m, im):
            ctx.disagreement("request-parser-model", {"stream": s.hex(), "lim": list(lim)}, {k: m.get(k) for k in ("outcome", "msgs")}, im)
        # the model must read the stream like the strict reading too (model = spec, sampled)
        mv = [view(x) for x in m["msgs"]]
        if sp["kind"] in ("ACCEPT", "UPGRADED") and (not m["outcome"].startswith("OK") or mv != [view(x) for x in sp["msgs"]]):
            ctx.disagreement("model-vs-strict-reading", {"stream": s.hex(), "lim": list(lim)}, m["outcome"], sp["detail"])
        if sp["kind"] == "REJECT" and m["outcome"].startswith("OK"):
            ctx.disagreement("model-vs-strict-reading", {"stream": s.hex(), "lim": list(lim)}, m["outcome"], sp["detail"])
        nv = len(ctx.violations) + sum(ctx.known_hits.values())
        judge(ctx, s, lim, sp, im, "one-shot")
        one_shot_ok = (len(ctx.violations) + sum(ctx.known_hits.values())) == nv
        if ran % (6 if ctx.quick else 3) == 0 and len(s) < 500:
            imb = H.impl_run([s[i:i + 1] for i in range(len(s))], lim)
            # a difference that only appears under another segmentation while the one-shot reading is the
            # strict one is a segmentation dependence: C03's subject (reported there), not a framing error
            if not (one_shot_ok and H.consistent(im, imb) is not None):
                judge(ctx, s, lim, sp, imb, "byte-at-a-time")
            else:
                ctx.count("segmentation-dependence-left-to-C03")
    ctx.sample({"stream": items[-1][0].hex(), "lim": list(items[-1][1]), "strict": specs[-1]["detail"][:60] if specs[-1] else None})
    ctx.close_suite("request-parser-model", ran)
    ctx.close_suite("model-vs-strict-reading", ran)
    suite_server(ctx)


def suite_server(ctx):
    """Server level (web_protocol.py is one of C01's anchors): what the server SERVES must be what the strict
    reading frames.  Reuses the in-process RequestHandler driver of harness/c05.py for the families that are about
    framing: a body that cannot be decoded must not let the rest of the announced body be served as a request;
    bytes behind an accepted protocol switch are never parsed as HTTP; bytes buffered behind a declined upgrade
    are served exactly once."""
    from harness import c05
    rng = ctx.rng
    cases = [c for c in c05.special_fixed_cases(rng) if c["suite"] in ("ws", "upgrade")]
    gens = (c05.gen_badenc_case, c05.gen_ws_case, c05.gen_upgrade_case, c05.gen_upgrade_body_case)
    for k in range(60 if ctx.quick else 1200):
        cases.append(gens[k % len(gens)](rng))
    # directed: an Upgrade request with a body whose handler reads it, the body split from the head at every offset
    for first in range(0, 6):
        for together in (False, True):
            c = c05.gen_upgrade_body_case(rng, fixed=(first, together))
            c["beh"] = {"0": {"kind": "read"}}
            c["c01_body_split"] = True
            cases.append(c)
    for c in cases:
        r = c05.run_impl(c, shadow=False)
        ctx.case(("server", c["suite"], tuple(r["snaps"])), nontrivial=r["complete"] > 0)
        ctx.count("server:" + c["suite"])
        bad = list(r["bad"])
        last = r["snaps"][-1] if r["snaps"] else ""
        if c.get("c01_body_split") and r["complete"] == 0 and "closed=0" in last and "pc=handler0" in last:
            # every byte of the announced body was delivered, yet the handler that reads it never finishes:
            # the body bytes were not taken for this request's body
            bad.append(("body-not-delivered", "an Upgrade request's Content-Length body, delivered in a later read than its "
                        f"head, never reaches the handler reading it (final state: {last})"))
        for vkind, text in bad:
            cc = dict(c)
            cc["vkind"] = vkind
            cc["c01_server_case"] = True
            ctx.violation(cc, f"server level, {vkind}: {text}")
    ctx.count("suite:server-framing-oracle", len(cases))


def replay(ctx, case):
    if case.get("c01_server_case"):
        from harness import c05
        r = c05.run_impl(case, shadow=False)
        last = r["snaps"][-1] if r["snaps"] else ""
        stuck = bool(case.get("c01_body_split") and r["complete"] == 0 and "closed=0" in last and "pc=handler0" in last)
        return {"bad": r["bad"], "body_not_delivered": stuck, "final": last, "violates": bool(r["bad"]) or stuck}
    ok, exe = H.build_model()
    s, lim = bytes.fromhex(case["stream"]), tuple(case["lim"])
    sp = spec_run_many(exe, [(s, lim)])[0]
    im = H.impl_run([s], lim)
    before = len(ctx.violations)
    judge(ctx, s, lim, sp, im, "one-shot")
    v = len(ctx.violations) > before
    del ctx.violations[before:]
    return {"strict": sp["detail"], "impl": im["outcome"], "violates": v}
