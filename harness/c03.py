"""C03 — HTTP parsing does not depend on how the byte stream is segmented."""
from __future__ import annotations

import json
import os

from harness import httpfam as H
from harness import httpresp as R
from harness.common import framework as fw

PROP = "C03"
GENERATED = ["HttpGen.v", "HttpRespGen.v"]
RULE = ("streams = grammar-generated request pipelines (methods x target forms x versions x header sets x "
        "length/chunked/trailers bodies), each smuggling-mutation class, byte mutations, truncations; x limit "
        "configurations (default and small, equal and unequal); x segmentations (one-shot, byte-at-a-time, single "
        "cuts incl. around every CR/LF, random k-cuts; thorough: every single cut and sampled cut pairs). Responses "
        "(lax parser) likewise, plus lax-dialect generators (LF / CRLF / CR CR LF line ends, status lines with Unicode "
        "white space and undecodable bytes, obs-fold, lax chunk sizes, directed CR-skipping streams cut at every "
        "position) against the response model, and well-formed pipelines for the strict-reading oracle. Non-trivial = at least one message "
        "delivered; distinct by hash of (stream, limits, segmentation).")
TRUSTED = [
    "translator/gen_http.py (regex classes, constants, ast shape of the empty_body and re-raise rules)",
    "extraction: ExtrOcamlBasic only; ocaml/common/conv.ml + ocaml/HTTP/driver.ml",
    "correspondence harness harness/httpfam.py + harness/c03.py: sampled, not proved",
    "yarl is an oracle for authority-/absolute-form request targets (harness asks the real yarl)",
    "modelled, not verified: HttpRequestParser (strict, Model/Http.v) and HttpResponseParser (lax mode, Model/HttpResp.v: "
    "translator/gen_httpresp.py, ocaml/HTTPRESP/driver.ml, harness/httpresp.py; suite response-parser-model). CPython's "
    "utf-8/surrogateescape decoder, str.isspace() set and the ASCII-producing part of str.lower() are transcribed in "
    "coq/Lib/Utf8Decode.v and compared with CPython on every code point each run",
    "strict-reading oracle (harness/httpresp.py gen_wellformed / MUST_REJECT): the expected reading of generated "
    "well-formed responses is written by hand from RFC 9112, independent of the Coq model",
    "payload consumer never pauses (no decompression, read limit 4 MiB): pausing is C09's subject",
]
ASSUMPTIONS = ["Python parser (AIOHTTP_NO_EXTENSIONS=1)", "model/implementation agreement validated on generated cases only"]


def _cuts(case):
    pos, out = 0, []
    for s in case["segs"][:-1]:
        pos += len(s) // 2
        out.append(pos)
    return out


SIGNATURES = {}

COMPLETIONS = [b"\r\n\r\n", b"\r\n0\r\n\r\n", b"\r\n\r\n0\r\n\r\n", b"\n\r\n\r\n"]


def judge(ctx, run, stream, lim, segs, one, seg, parser):
    why = H.consistent(one, seg)
    if why is None:
        return
    case = {"parser": parser, "stream": stream.hex(), "lim": list(lim), "segs": [s.hex() for s in segs],
            "one_shot_outcome": one["outcome"], "split_outcome": seg["outcome"], "kind": "early-or-flip"}
    if why == "early":
        # rejection noticed earlier is allowed iff every completion of the stream is rejected too
        for comp in COMPLETIONS:
            full = run([stream + comp], lim)
            if full["outcome"].startswith("OK") and len(full["msgs"]) > len(seg["msgs"]):
                ctx.violation(case, f"{parser} parser: split run rejects ({seg['outcome']}) a stream whose completion "
                                    f"{comp!r} is accepted one-shot")
                return
        ctx.count("early-rejection-allowed")
        return
    ctx.violation(case, f"{parser} parser: {why}; one-shot={one['outcome']} split={seg['outcome']}")


def all_single_cuts(s):
    return [[s[:c], s[c:]] for c in range(1, len(s))]


def run(ctx):
    ok, exe = H.build_model()
    ctx.oblige("model-runner-build", "correspondence", ok, "" if ok else exe)
    if not ok:
        return
    rng = ctx.rng
    # corpus first
    streams = []
    cdir = os.path.join(fw.VERIF, "corpus", "C03")
    for fn in sorted(os.listdir(cdir)) if os.path.isdir(cdir) else []:
        c = json.load(open(os.path.join(cdir, fn)))
        c = c.get("case", c)
        if c.get("parser", "request") == "request":
            streams.append((bytes.fromhex(c["stream"]), tuple(c["lim"]), [[bytes.fromhex(x) for x in c["segs"]]]))
    n = 260 if ctx.quick else 4000
    for i in range(n):
        s = H.gen_stream(rng)
        r = rng.random()
        if r < 0.3:
            s, cls = H.mutate_smuggling(rng, s)
            ctx.count("mut:" + cls)
        elif r < 0.45:
            s = H.mutate_bytes(rng, s)
            ctx.count("mut:bytes")
        else:
            ctx.count("mut:none")
        lim = H.DEFAULT_LIM if rng.random() < 0.5 else rng.choice(H.SMALL_LIMS)
        segs = H.segmentations(rng, s, ctx.quick)
        if (i % (20 if ctx.quick else 4) == 0) and len(s) < 400:
            segs += all_single_cuts(s)
            if not ctx.quick and len(s) < 120:
                segs += [[s[:a], s[a:b], s[b:]] for a in range(1, len(s)) for b in range(a + 1, len(s)) if rng.random() < 0.08]
        streams.append((s, lim, segs))
    # directed: every syntactic position at limit-1 / limit / limit+1, cut around that line's CRLF
    for lim in ([H.DEFAULT_LIM, (40, 60, 6, 0), (60, 40, 8, 0)] if ctx.quick else [H.DEFAULT_LIM] + H.SMALL_LIMS):
        for s, pos, delta, cuts in H.limit_edge_streams(rng, lim):
            segs = [[s], [s[i:i + 1] for i in range(len(s))]] if len(s) < 600 else [[s]]
            segs += [[s[:c], s[c:]] for c in cuts]
            ctx.count(f"edge:{pos}:{delta:+d}")
            streams.append((s, lim, segs))
    cases, index = [], []
    for si, (s, lim, segs) in enumerate(streams):
        for segs1 in segs:
            cases.append((segs1, lim))
            index.append(si)
    model = H.model_run_many(exe, cases)
    ones = {}
    impls = []
    ran = 0
    for (segs1, lim), m, si in zip(cases, model, index):
        s = streams[si][0]
        im = H.impl_run(segs1, lim)
        impls.append(((segs1, lim), si, im))
        ran += 1
        ctx.case((s, lim, tuple(len(x) for x in segs1)), nontrivial=bool(im["msgs"]))
        ctx.count("outcome:" + im["outcome"].split("@")[0].split(":")[0 if im["outcome"].startswith("OK") else 1])
        if not H.same(m, im):
            ctx.disagreement("request-parser-model", {"stream": s.hex(), "lim": list(lim), "segs": [x.hex() for x in segs1]},
                             {k: m[k] for k in ("outcome", "msgs", "state")}, im)
        if len(segs1) == 1:
            ones[si] = im
    for (segs1, lim), si, im in impls:
        if len(segs1) == 1 or si not in ones:
            continue
        judge(ctx, H.impl_run, streams[si][0], lim, segs1, ones[si], im, "request")
    ctx.sample({"suite": "request", "stream": streams[-1][0].hex(), "lim": list(streams[-1][1]), "n_segmentations": len(streams[-1][2])})
    ctx.close_suite("request-parser-model", ran)
    # a consumer reading the body CONCURRENTLY (as BaseRequest.read() does) must get the same bytes
    # whatever the segmentation: bodies delivered piecewise between reads
    nc = 0
    for si, (s, lim, segs) in enumerate(streams):
        if si % (5 if ctx.quick else 2) or si not in ones or not ones[si]["outcome"].startswith("OK"):
            continue
        full = [m for m in ones[si]["msgs"]]
        for segs1 in segs[1:4] + ([segs[-1]] if len(segs) > 4 else []):
            got = H.impl_run_consumed(segs1, lim)
            nc += 1
            if not got["outcome"].startswith("OK"):
                continue
            for ref, g in zip(full, got["msgs"]):
                # a body that the one-shot reading delivers completely must be read back identically
                if g["finished"] and ref["eof"] and ref["exc"] is None and g["data"] != ref["data"]:
                    ctx.violation({"parser": "request", "stream": s.hex(), "lim": list(lim), "segs": [x.hex() for x in segs1],
                                   "kind": "concurrent-consumer", "one_shot_outcome": ones[si]["outcome"], "split_outcome": got["outcome"]},
                                  f"a consumer reading between the reads gets {len(g['data']) // 2} body bytes and end-of-body, "
                                  f"the one-shot reading delivers {len(ref['data']) // 2}")
                    break
    ctx.count("suite:concurrent-consumer", nc)
    # a bounded message queue whose consumer keeps up (the server's configuration: max_msg_queue_size = 32): the parser
    # parks the rest of a read when the queue is full and resumes with feed_data(b"") - the requests and the outcome must
    # not depend on where the reads were cut, in particular not on what an earlier read left in the parser
    nq = 0
    for i in range(12 if ctx.quick else 150):
        nreq = rng.choice([3, 4, 6])
        s = b""
        for k in range(nreq):
            pad = rng.choice([0, 0, 30, 120, 400])
            s += (b"GET /q/%d HTTP/1.1\r\nHost: x\r\n" % k) + (b"Cookie: " + b"c" * pad + b"\r\n" if pad else b"") + b"\r\n"
        lim = (8190, 8190, 128, rng.choice([1, 2, 2, 3]))
        one = H.impl_run_drained([s], lim)
        cuts = all_single_cuts(s) if len(s) < 700 else [[s[:c], s[c:]] for c in sorted(rng.sample(range(1, len(s)), 300))]
        cuts += [[s[:a], s[a:b], s[b:]] for a, b in (sorted(rng.sample(range(1, len(s)), 2)) for _ in range(40))]
        for segs1 in cuts:
            got = H.impl_run_drained(segs1, lim)
            nq += 1
            ctx.case((s, lim, tuple(len(x) for x in segs1), "drained"), nontrivial=True)
            if got != one:
                ctx.violation({"parser": "request", "kind": "queue-drain", "stream": s.hex(), "lim": list(lim), "segs": [x.hex() for x in segs1]},
                              f"request parser with a draining message queue of {lim[3]}: one read gives {one['outcome']} with "
                              f"{len(one['msgs'])} requests, this segmentation gives {got['outcome']} with {len(got['msgs'])}")
                break
    ctx.count("suite:queue-drain", nq)
    # responses: implementation self-consistency only
    nr = 200 if ctx.quick else 3000
    ranr = 0
    directed = []
    for body in (b"3\r\nabc\r\r\n0\r\n\r\n", b"3\r\nabc\r\n0\r\r\n\r\n", b"3\r\r\nabc\r\n0\r\n\r\n", b"3\r\nabc\r\n0\r\n\r\r\n",
                 b"3\nabc\n0\n\n", b"3\r\nabc\r\n0\r\nX: y\r\r\n\r\n"):
        directed.append(b"HTTP/1.1 200 OK\r\nTransfer-Encoding: chunked\r\n\r\n" + body)
    directed.append(b"HTTP/1.1 200 OK\r\r\nContent-Length: 2\r\r\n\r\r\nhi")
    for i in range(nr + len(directed)):
        s = directed[i] if i < len(directed) else H.gen_response_stream(rng)
        lim = H.DEFAULT_LIM if (i < len(directed) or rng.random() < 0.5) else rng.choice(H.SMALL_LIMS)
        one = H.impl_run_response([s], lim, eof=False)
        seglist = H.segmentations(rng, s, ctx.quick)[1:]
        if i < len(directed):
            seglist += all_single_cuts(s)
        for segs1 in seglist:
            seg = H.impl_run_response(segs1, lim, eof=False)
            ranr += 1
            ctx.case((s, lim, tuple(len(x) for x in segs1), "resp"), nontrivial=bool(seg["msgs"]))
            judge(ctx, lambda sg, lm: H.impl_run_response(sg, lm, eof=False), s, lim, segs1, one, seg, "response")
    ctx.count("suite:response-self-consistency", ranr)
    ctx.sample({"suite": "response", "stream": s.hex()})
    run_response_model(ctx)
    suite_decoded_bodies(ctx)


def _resp_runner(sg, lm):
    return R.impl_run(sg, lm, True, True, False)


def complete_but_rejected(one, seg):
    """The one-read run accepts the stream and is left with nothing pending (every body ended cleanly, no partial
    line, no open header block), yet the split run raises: not an "earlier" rejection, the stream is complete."""
    st = one["state"]
    return (one["outcome"].startswith("OK") and seg["outcome"].startswith("ERR") and bool(one["msgs"])
            and all(m["eof"] and m["exc"] is None for m in one["msgs"])
            and st["tail"] == 0 and st["lines"] == 0 and one.get("pk", "none") == "none")


def run_response_model(ctx):
    """Suite "response-parser-model": coq/Model/HttpResp.v (extracted) against HttpResponseParser per segmentation,
    the C03 oracle on the lax-dialect generators, and the strict-reading oracle (well-formed pipelines must be read
    as RFC 9112 reads them under every segmentation; independent of the model)."""
    import time as _t
    cpu0 = _t.process_time()
    okr, exer = R.build_model()
    ctx.oblige("model-runner-build:HTTPRESP", "correspondence", okr, "" if okr else exer)
    if not okr:
        return
    rng = ctx.rng
    bad, nprim = R.check_primitives(exer, rng, ctx.quick)
    ctx.oblige("correspondence:response-text-primitives", "correspondence", not bad, "; ".join(bad[:4]))
    ctx.count("suite:response-text-primitives", nprim)
    streams = []       # (stream, lim, segmentations, flags or None)
    cdir = os.path.join(fw.VERIF, "corpus", "C03")
    for fn in sorted(os.listdir(cdir)) if os.path.isdir(cdir) else []:
        c = json.load(open(os.path.join(cdir, fn)))
        c = c.get("case", c)
        if c.get("parser") == "response":
            st = bytes.fromhex(c["stream"])
            streams.append((st, tuple(c["lim"]), [[st], [bytes.fromhex(x) for x in c["segs"]]], (True, True, False)))
    for st in R.DIRECTED:
        cuts = all_single_cuts(st)
        streams.append((st, H.DEFAULT_LIM, [[st]] + cuts + [[st[i:i + 1] for i in range(len(st))]], (True, True, False)))
        for fl in ((False, True, True), (True, False, True)):
            streams.append((st, H.DEFAULT_LIM, [[st], [st[i:i + 1] for i in range(len(st))]] + (cuts if not ctx.quick else cuts[-12:]), fl))
    n = 120 if ctx.quick else 2500
    for i in range(n):
        r = rng.random()
        st = R.gen_lax_stream(rng) if r < 0.65 else (H.gen_response_stream(rng) if r < 0.92 else H.rand_bytes(rng, rng.randint(0, 80)))
        lim = H.DEFAULT_LIM if rng.random() < 0.5 else rng.choice(H.SMALL_LIMS)
        segs = H.segmentations(rng, st, ctx.quick)
        if i % (20 if ctx.quick else 4) == 0 and len(st) < 300:
            segs += all_single_cuts(st)
        # the C03 oracle needs one configuration per stream: half of the streams are run without end-of-stream
        fl = (True, True, False) if i % 2 == 0 else R.flags(rng)
        streams.append((st, lim, segs, fl))
    cases, index = [], []
    for si, (st, lim, segs, fl) in enumerate(streams):
        for segs1 in segs:
            cases.append((segs1, lim, *fl))
            index.append(si)
    model = R.model_run_many(exer, cases)
    ones, impls, ran = {}, [], 0
    for c, m, si in zip(cases, model, index):
        im = R.impl_run(*c)
        ran += 1
        st = streams[si][0]
        ctx.case((st, c[1:], tuple(len(x) for x in c[0]), "resp-model"), nontrivial=bool(im["msgs"]))
        ctx.count("resp-model-outcome:" + im["outcome"].split("@")[0].split(":")[0 if im["outcome"].startswith("OK") else 1])
        if not R.same(m, im):
            ctx.disagreement("response-parser-model", {"stream": st.hex(), "lim": list(c[1]), "segs": [x.hex() for x in c[0]],
                                                       "with_body": c[2], "until_eof": c[3], "eof": c[4]}, R.strip_model(m), im)
        if streams[si][3] == (True, True, False):
            impls.append((c, si, im))
            if len(c[0]) == 1:
                ones[si] = im
    for c, si, im in impls:
        if len(c[0]) == 1 or si not in ones:
            continue
        if complete_but_rejected(ones[si], im):
            ctx.violation({"parser": "response", "stream": streams[si][0].hex(), "lim": list(c[1]), "segs": [x.hex() for x in c[0]],
                           "one_shot_outcome": ones[si]["outcome"], "split_outcome": im["outcome"], "kind": "early-or-flip"},
                          f"response parser: a complete stream accepted in one read is rejected when split ({im['outcome']})")
        else:
            judge(ctx, _resp_runner, streams[si][0], c[1], c[0], ones[si], im, "response")
    ctx.sample({"suite": "response-parser-model", "stream": streams[-1][0].hex(), "lim": list(streams[-1][1])})
    ctx.close_suite("response-parser-model", ran)
    # strict reading of well-formed pipelines under every segmentation (implementation only)
    nw = 60 if ctx.quick else 800
    nsr = 0
    for i in range(nw):
        st, expected = R.gen_wellformed(rng)
        segs = H.segmentations(rng, st, ctx.quick)
        if i % 6 == 0 and len(st) < 400:
            segs += all_single_cuts(st)
        for segs1 in segs:
            im = R.impl_run(segs1, H.DEFAULT_LIM, True, True, True)
            nsr += 1
            ctx.case((st, tuple(len(x) for x in segs1), "strict-reading"), nontrivial=True)
            why = R.strict_reading_violation(expected, im)
            if why:
                ctx.violation({"parser": "response", "kind": "strict-reading", "stream": st.hex(), "lim": list(H.DEFAULT_LIM),
                               "segs": [x.hex() for x in segs1], "expected": expected}, "response parser, strict reading: " + why)
                break
    # ... and malformed responses are rejected under every segmentation
    for st, what in R.MUST_REJECT:
        seglist = [[st], [st[i:i + 1] for i in range(len(st))]] + [[st[:c], st[c:]] for c in sorted({rng.randint(1, len(st) - 1) for _ in range(3)})]
        for segs1 in seglist:
            im = R.impl_run(segs1, H.DEFAULT_LIM, True, True, True)
            nsr += 1
            ctx.case((st, tuple(len(x) for x in segs1), "must-reject"), nontrivial=True)
            if not (im["outcome"].startswith("ERR") or any(x["exc"] for x in im["msgs"])):
                ctx.violation({"parser": "response", "kind": "must-reject", "stream": st.hex(), "lim": list(H.DEFAULT_LIM),
                               "segs": [x.hex() for x in segs1], "what": what},
                              f"response parser, strict reading: {what} is accepted ({im['outcome']}, {len(im['msgs'])} message(s))")
                break
    ctx.count("suite:response-strict-reading", nsr)
    ctx.notes.append(f"response-parser-model part: {_t.process_time() - cpu0:.1f}s CPU in this process")


def _compressed_bodies(rng):
    """(token, wire bytes, plain bytes): valid encodings of bodies of several sizes, zlib-wrapped AND raw deflate
    (aiohttp sniffs the first byte to tell them apart), gzip with one and two members."""
    import gzip
    import zlib
    out = []
    for plain in (b"", b"a", b"hello world " * 3, bytes(rng.randrange(256) for _ in range(rng.randint(40, 90))), b"z" * 700):
        out.append((b"deflate", zlib.compress(plain), plain))
        co = zlib.compressobj(wbits=-15)
        out.append((b"deflate", co.compress(plain) + co.flush(), plain))
        out.append((b"gzip", gzip.compress(plain), plain))
        out.append((b"GZip", gzip.compress(plain[: len(plain) // 2]) + gzip.compress(plain[len(plain) // 2:]), plain))
    # bodies that can NOT be decoded (plain = None): corrupt at the start, in the middle, at the end, followed by
    # bytes that look like another message -- what happens to the rest must not depend on the reads either
    good = gzip.compress(b"hello world " * 5)
    nxt = b"GET /smuggled HTTP/1.1\r\nHost: h\r\n\r\n"
    for wire in (b"\xff" * 9, good[:12] + b"\xff" * 8 + good[20:], good[:-6] + b"\x00" * 6, good[:10] + b"\xff" * 12 + nxt,
                 b"\x00" + nxt, zlib.compress(b"x" * 50)[:-4] + nxt):
        out.append((rng.choice([b"gzip", b"deflate"]), wire, None))
    return out


def _decoded_differs(one, seg):
    """Same messages, same end state of each body.  A body that ends in an error in both runs may have handed on
    more or fewer decoded bytes before the error was noticed (streaming: 'how early a rejection is noticed'), but
    the bytes must agree as far as they go."""
    if one["outcome"].split("@")[0] != seg["outcome"].split("@")[0] or len(one["msgs"]) != len(seg["msgs"]):
        return True
    for x, y in zip(one["msgs"], seg["msgs"]):
        if (x["eof"], x["exc"]) != (y["eof"], y["exc"]):
            return True
        if x["exc"] is None:
            if x["data"] != y["data"]:
                return True
        elif not (x["data"].startswith(y["data"]) or y["data"].startswith(x["data"])):
            return True
    return False


def suite_decoded_bodies(ctx):
    """The DECODED body a parser hands on (auto_decompress, as the client and the server use it) is the same for
    every segmentation: implementation against itself, request parser and response parser, Content-Length and
    chunked framing (one chunk, several chunks), every single cut + byte-at-a-time + a few random segmentations."""
    rng = ctx.rng
    n = 0
    cdir = os.path.join(fw.VERIF, "corpus", "C03")
    for fn in sorted(os.listdir(cdir)) if os.path.isdir(cdir) else []:
        c = json.load(open(os.path.join(cdir, fn)))
        c = c.get("case", c)
        if c.get("kind") == "decoded-body":
            r = replay(ctx, c)
            n += 1
            ctx.count("corpus:decoded-body")
            if r["violates"]:
                ctx.violation(c, f"corpus case {fn}: {r}")
    for tok, wire, plain in _compressed_bodies(rng):
        framings = []
        framings.append((b"Content-Length: %d\r\n" % len(wire), wire))
        framings.append((b"Transfer-Encoding: chunked\r\n", (b"%x\r\n" % len(wire) + wire + b"\r\n" if wire else b"") + b"0\r\n\r\n"))
        if len(wire) > 3:
            a = rng.randint(1, len(wire) - 2)
            framings.append((b"Transfer-Encoding: chunked\r\n",
                             b"%x\r\n" % a + wire[:a] + b"\r\n" + b"%x;e=1\r\n" % (len(wire) - a) + wire[a:] + b"\r\n0\r\nX-T: t\r\n\r\n"))
        for hdr, framed in framings:
            for parser in ("request", "response"):
                if parser == "request":
                    s = b"POST /u HTTP/1.1\r\nHost: h\r\nContent-Encoding: " + tok + b"\r\n" + hdr + b"\r\n" + framed
                    run = lambda sg, lm: H.impl_run(sg, lm, auto_decompress=True)
                else:
                    s = b"HTTP/1.1 200 OK\r\nContent-Encoding: " + tok + b"\r\n" + hdr + b"\r\n" + framed
                    run = lambda sg, lm: H.impl_run_response(sg, lm, eof=False, auto_decompress=True)
                lim = H.DEFAULT_LIM
                one = run([s], lim)
                ok1 = one["outcome"].startswith("OK") and one["msgs"] and one["msgs"][0]["exc"] is None
                if plain is not None and not ok1:
                    ctx.violation({"parser": parser, "stream": s.hex(), "lim": list(lim), "segs": [s.hex()], "kind": "decoded-body", "plain": plain.hex()},
                                  f"{parser} parser: a valid {tok.decode()} body is not decoded: {one['outcome']} {one['msgs'][0]['exc'] if one['msgs'] else None}")
                if plain is not None and ok1 and bytes.fromhex(one["msgs"][0]["data"]) != plain:
                    ctx.violation({"parser": parser, "stream": s.hex(), "lim": list(lim), "segs": [s.hex()], "kind": "decoded-body"},
                                  f"{parser} parser: the decoded body ({len(one['msgs'][0]['data']) // 2} bytes) is not what was encoded ({len(plain)} bytes)")
                start = s.index(b"\r\n\r\n") + 2
                seglist = [[s[:c], s[c:]] for c in range(start, len(s))] if len(s) < 500 else \
                          [[s[:c], s[c:]] for c in sorted(set(range(start, min(len(s), start + 60))) | {rng.randrange(start, len(s)) for _ in range(20)})]
                if len(s) < 300:
                    seglist.append([s[i:i + 1] for i in range(len(s))])
                seglist += H.segmentations(rng, s, True)[1:3]
                for segs1 in seglist:
                    seg = run(segs1, lim)
                    n += 1
                    ctx.case((s, tuple(len(x) for x in segs1), parser, "decoded"), nontrivial=True)
                    a = [(m["data"], m["eof"], m["exc"]) for m in one["msgs"]]
                    b = [(m["data"], m["eof"], m["exc"]) for m in seg["msgs"]]
                    if _decoded_differs(one, seg):
                        ctx.violation({"parser": parser, "stream": s.hex(), "lim": list(lim), "segs": [x.hex() for x in segs1],
                                       "kind": "decoded-body", "one_shot_outcome": one["outcome"], "split_outcome": seg["outcome"]},
                                      f"{parser} parser, Content-Encoding {tok.decode()}: decoded body / outcome depends on the segmentation: "
                                      f"one-shot {one['outcome']} {[(len(d) // 2, e, x) for d, e, x in a]}, split {seg['outcome']} {[(len(d) // 2, e, x) for d, e, x in b]}")
                        break
    ctx.count("suite:decoded-body-segmentation", n)


def replay(ctx, case):
    if case.get("kind") == "decoded-body":
        segs = [bytes.fromhex(x) for x in case["segs"]]
        s = bytes.fromhex(case["stream"])
        lim = tuple(case["lim"])
        if case["parser"] == "request":
            run = lambda sg: H.impl_run(sg, lim, auto_decompress=True)
        else:
            run = lambda sg: H.impl_run_response(sg, lim, eof=False, auto_decompress=True)
        one, seg = run([s]), run(segs)
        a = [(m["data"], m["eof"], m["exc"]) for m in one["msgs"]]
        b = [(m["data"], m["eof"], m["exc"]) for m in seg["msgs"]]
        wrong = "plain" in case and not (one["msgs"] and one["msgs"][0]["exc"] is None and one["msgs"][0]["data"] == case["plain"])
        return {"one_shot": one["outcome"], "split": seg["outcome"], "not_decoded": wrong,
                "violates": wrong or _decoded_differs(one, seg)}
    s = bytes.fromhex(case["stream"])
    lim = tuple(case["lim"])
    segs = [bytes.fromhex(x) for x in case["segs"]]
    if case.get("kind") == "must-reject":
        im = R.impl_run(segs, lim, True, True, True)
        return {"impl": im["outcome"], "messages": len(im["msgs"]),
                "violates": not (im["outcome"].startswith("ERR") or any(x["exc"] for x in im["msgs"]))}
    if case.get("kind") == "strict-reading":
        im = R.impl_run(segs, lim, True, True, True)
        why = R.strict_reading_violation(case["expected"], im)
        return {"observed": im, "why": why, "violates": why is not None}
    if case.get("kind") == "queue-drain":
        one, got = H.impl_run_drained([s], lim), H.impl_run_drained(segs, lim)
        return {"one_shot": one["outcome"], "n_one_shot": len(one["msgs"]), "split": got["outcome"], "n_split": len(got["msgs"]),
                "violates": one != got}
    if case.get("kind") == "concurrent-consumer":
        one, got = H.impl_run([s], lim), H.impl_run_consumed(segs, lim)
        bad = any(g["finished"] and r["eof"] and r["exc"] is None and g["data"] != r["data"] for r, g in zip(one["msgs"], got["msgs"]))
        return {"one_shot": one["outcome"], "consumed": got, "violates": bad}
    runner = H.impl_run if case.get("parser", "request") == "request" else (lambda sg, lm: H.impl_run_response(sg, lm, eof=False))
    one, seg = runner([s], lim), runner(segs, lim)
    why = H.consistent(one, seg)
    viol = False
    if case.get("parser") == "response" and complete_but_rejected(_resp_runner([s], lim), _resp_runner(segs, lim)):
        return {"one_shot": one["outcome"], "split": seg["outcome"], "why": "complete stream rejected when split", "violates": True}
    if why == "early":
        for comp in COMPLETIONS:
            full = runner([s + comp], lim)
            if full["outcome"].startswith("OK") and len(full["msgs"]) > len(seg["msgs"]):
                viol = True
    elif why is not None:
        viol = True
    return {"one_shot": one["outcome"], "split": seg["outcome"], "why": why, "violates": viol}
