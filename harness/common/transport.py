"""In-memory asyncio transport and helpers to drive aiohttp's server and client in-process."""
from __future__ import annotations

import asyncio
from typing import Callable


class MemTransport(asyncio.Transport):
    """Records writes; close() schedules protocol.connection_lost(None) like a real transport."""

    def __init__(self, loop, protocol=None, on_write: Callable[["MemTransport", bytes], None] | None = None, extra=None):
        super().__init__(extra or {"peername": ("127.0.0.1", 50000), "sockname": ("127.0.0.1", 80), "sslcontext": None})
        self.loop, self.protocol = loop, protocol
        self.buf = bytearray()          # everything written
        self.writes: list[bytes] = []   # per write() call
        self.closed = False
        self.aborted = False
        self.lost_called = False
        self.reading = True
        self.pause_log: list[str] = []
        self.on_write = on_write
        self.write_buffer_size = 0

    # -- asyncio.Transport API
    def set_protocol(self, protocol):
        self.protocol = protocol

    def get_protocol(self):
        return self.protocol

    def is_closing(self):
        return self.closed

    def write(self, data):
        if self.closed:
            return
        data = bytes(data)
        self.writes.append(data)
        self.buf += data
        if self.on_write is not None:
            self.on_write(self, data)

    def writelines(self, chunks):
        self.write(b"".join(bytes(c) for c in chunks))

    def can_write_eof(self):
        return False

    def close(self):
        if self.closed:
            return
        self.closed = True
        self.loop.call_soon(self._lost, None)

    def abort(self):
        self.aborted = True
        self.close()

    def _lost(self, exc):
        if not self.lost_called and self.protocol is not None:
            self.lost_called = True
            self.protocol.connection_lost(exc)

    def peer_close(self, exc=None):
        """The peer closed (or the connection broke with exc)."""
        if self.closed:
            return
        self.closed = True
        self._lost(exc)

    def pause_reading(self):
        self.reading = False
        self.pause_log.append("pause")

    def resume_reading(self):
        self.reading = True
        self.pause_log.append("resume")

    def is_reading(self):
        return self.reading

    def get_write_buffer_size(self):
        return self.write_buffer_size

    def get_write_buffer_limits(self):
        return (16384, 65536)

    def set_write_buffer_limits(self, high=None, low=None):
        pass


async def start_server(app, loop, **runner_kw):
    """AppRunner set up without sockets; returns (runner, connect) where connect() gives a
    (protocol, transport) pair for a new in-memory connection."""
    from aiohttp import web
    runner_kw.setdefault("access_log", None)
    runner = web.AppRunner(app, **runner_kw)
    await runner.setup()

    def connect(on_write=None):
        proto = runner.server()
        tr = MemTransport(loop, proto, on_write=on_write)
        proto.connection_made(tr)
        return proto, tr

    return runner, connect


def make_connector(loop, origin_factory, **kw):
    """TCPConnector whose connections are in-memory.  origin_factory(req) -> object with
    on_bytes(transport, data) called for every client write; it answers by
    loop.call_soon(transport.protocol.data_received, bytes)."""
    import aiohttp

    class MemConnector(aiohttp.TCPConnector):
        def __init__(self, **kw2):
            super().__init__(**kw2)
            self.transports: list[MemTransport] = []
            self.attempts = 0

        async def _create_connection(self, req, traces, timeout):
            self.attempts += 1
            origin = origin_factory(req)
            if hasattr(origin, "before_connect"):
                await origin.before_connect(req)
            proto = self._factory()
            tr = MemTransport(loop, proto, on_write=lambda t, d: origin.on_bytes(t, d))
            tr.origin = origin
            proto.connection_made(tr)
            self.transports.append(tr)
            if hasattr(origin, "on_connect"):
                origin.on_connect(tr)
            return proto

    if "resolver" not in kw:
        # a real resolver per connector leaks a DNS channel (file descriptors) in long runs
        from aiohttp.abc import AbstractResolver

        class _NoResolver(AbstractResolver):
            async def resolve(self, host, port=0, family=0):
                return [{"hostname": host, "host": "127.0.0.1", "port": port, "family": family, "proto": 0, "flags": 0}]

            async def close(self):
                pass
        kw["resolver"] = _NoResolver()
    return MemConnector(**kw)
