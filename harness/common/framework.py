"""Check pipeline shared by all properties (DESIGN.md §2.2).

A property module harness/cNN.py defines:
  PROP = "CNN"
  GENERATED = ["HttpChars.v", ...]      translator outputs its Coq files Require (may be empty)
  TRUSTED = [...]                        property-specific trusted-base lines
  ASSUMPTIONS = [...]                    what the check assumes (oracles, sampling)
  SIGNATURES = {kind: predicate(case, params) -> bool}   for known_findings.json
  def run(ctx): correspondence suites + search oracle; uses ctx.suite(...), ctx.violation(...)
  def replay(ctx, case): re-run one recorded case (used by --replay and by known findings)
"""
from __future__ import annotations

import fcntl
import glob
import hashlib
import json
import os
import random
import re
import shutil
import subprocess
import sys
import time

VERIF = os.path.dirname(os.path.dirname(os.path.dirname(os.path.abspath(__file__))))
REPO = os.environ.get("VERIF_REPO", "/repo")
# A check against another source tree (VERIF_REPO=<copy>, used for mutation / seeded-change runs) works
# in its own copy of coq/ and ocaml/ so that it cannot disturb, or be disturbed by, checks of /repo.
if os.path.realpath(REPO) == "/repo":
    WORK = VERIF
else:
    WORK = "/tmp/verif-work-" + hashlib.sha256(os.path.realpath(REPO).encode()).hexdigest()[:12]
os.environ["VERIF_WORK"] = WORK
COQ = os.path.join(WORK, "coq")


def prepare_work():
    if WORK == VERIF:
        return
    os.makedirs(WORK, exist_ok=True)
    for d in ("coq", "ocaml"):
        subprocess.run(["rsync", "-a", "--delete", "--exclude", "Cases/", "--exclude", "Generated/*", "--exclude", ".stamp",
                        os.path.join(VERIF, d) + "/", os.path.join(WORK, d) + "/"], check=True)
    # model runners are always rebuilt from this work directory's own Generated files
    shutil.rmtree(os.path.join(WORK, "bin"), ignore_errors=True)
    for st in glob.glob(os.path.join(WORK, "ocaml", "*", ".stamp")):
        os.remove(st)
    os.makedirs(os.path.join(WORK, "coq", "Generated"), exist_ok=True)
    lg = os.path.join(VERIF, "coq", "Generated", ".lastgood")
    if os.path.isdir(lg):
        subprocess.run(["rsync", "-a", lg + "/", os.path.join(WORK, "coq", "Generated", ".lastgood") + "/"], check=True)
NPROC = int(os.environ.get("VERIF_JOBS", "16"))

FORBIDDEN = re.compile(
    r"\b(Admitted|admit|Axiom|Axioms|Parameter|Parameters|Conjecture|Conjectures|Admit\s+Obligations|give_up)\b"
    r"|Unset\s+Guard|Unset\s+Positivity|Unset\s+Universe|bypass_check|type-in-type|impredicative-set|native_compute"
)
# `Variable`/`Hypothesis` are allowed only inside a Section; checked separately.

STDLIB_AXIOMS_OK = (
    "functional_extensionality_dep", "proof_irrelevance", "classic", "eq_rect_eq",
    "JMeq_eq", "propositional_extensionality", "constructive_indefinite_description",
    "constructive_definite_description", "sig_forall_dec", "sig_not_dec",
)


def sh(cmd, cwd=None, timeout=1800, env=None, input=None):
    t0 = time.time()
    try:
        p = subprocess.run(cmd, cwd=cwd, shell=isinstance(cmd, str), stdout=subprocess.PIPE,
                           stderr=subprocess.STDOUT, timeout=timeout, env=env, input=input, text=True)
        return p.returncode, p.stdout, time.time() - t0
    except subprocess.TimeoutExpired as e:
        out = e.stdout if isinstance(e.stdout, str) else (e.stdout or b"").decode("utf-8", "replace")
        return 124, (out or "") + f"\n[timeout after {timeout}s]", time.time() - t0


class Lock:
    """Inter-process lock (flock), re-entrant within one process."""
    _held: dict = {}

    def __init__(self, name):
        self.name = name
        self.path = os.path.join(WORK, f".lock-{name}")

    def __enter__(self):
        ent = Lock._held.get(self.name)
        if ent:
            ent[1] += 1
            return self
        f = open(self.path, "w")
        fcntl.flock(f, fcntl.LOCK_EX)
        Lock._held[self.name] = [f, 1]
        return self

    def __exit__(self, *a):
        ent = Lock._held[self.name]
        ent[1] -= 1
        if ent[1] == 0:
            fcntl.flock(ent[0], fcntl.LOCK_UN)
            ent[0].close()
            del Lock._held[self.name]


# ----------------------------------------------------------------------------
# Coq project

def coq_files():
    fs = []
    for d in ("Lib", "Generated", "Model", "Proofs", "Props"):
        fs += sorted(glob.glob(os.path.join(COQ, d, "*.v")))
    return [os.path.relpath(f, COQ) for f in fs]


def coq_project():
    """(Re)write _CoqProject and Makefile.coq when the file list changes."""
    files = coq_files()
    text = "-Q . AV\n-arg -w -arg -notation-overridden,-deprecated-hint-without-locality,-ambiguous-paths\n" + "\n".join(files) + "\n"
    path = os.path.join(COQ, "_CoqProject")
    old = open(path).read() if os.path.exists(path) else None
    if old != text or not os.path.exists(os.path.join(COQ, "Makefile.coq")):
        with open(path, "w") as f:
            f.write(text)
        rc, out, _ = sh("coq_makefile -f _CoqProject -o Makefile.coq", cwd=COQ, timeout=120)
        if rc != 0:
            raise RuntimeError("coq_makefile failed: " + out)


def coq_make(targets, timeout=1500):
    """Full .vo build of the targets (and their dependencies). Returns (ok, log, secs)."""
    for attempt in range(3):
        with Lock("coq"):
            coq_project()
            rc, out, dt = sh(["timeout", "-k", "10", str(int(timeout)), "make", "-f", "Makefile.coq", f"-j{NPROC}",
                              "--no-print-directory"] + targets, cwd=COQ, timeout=timeout + 30)
        if rc != 0 and "No rule to make target" in out and attempt < 2:
            # the file list changed under us (a generated file was rewritten/removed): regenerate and retry
            try:
                os.remove(os.path.join(COQ, "_CoqProject"))
            except FileNotFoundError:
                pass
            time.sleep(1.0)
            continue
        break
    return rc == 0, out, dt


def coq_clean(targets_closure):
    for rel in targets_closure:
        base = os.path.join(COQ, rel[:-2])
        for ext in (".vo", ".vok", ".vos", ".glob"):
            try:
                os.remove(base + ext)
            except FileNotFoundError:
                pass


def coq_closure(rel_v: str) -> list[str]:
    """.v files (relative to coq/) that rel_v transitively depends on inside this project."""
    dep = {}
    dpath = os.path.join(COQ, ".Makefile.coq.d")
    if not os.path.exists(dpath):
        return [rel_v]
    txt = open(dpath).read().replace("\\\n", " ")
    for line in txt.splitlines():
        if ":" not in line:
            continue
        lhs, rhs = line.split(":", 1)
        tg = [t for t in lhs.split() if t.endswith(".vo")]
        deps = [d[:-1] for d in rhs.split() if d.endswith(".vo") and not d.startswith("/")]
        for t in tg:
            dep[t[:-1]] = deps
    seen, todo = [], [rel_v]
    while todo:
        f = todo.pop()
        if f in seen:
            continue
        seen.append(f)
        todo += dep.get(f, [])
    return sorted(seen)


def grep_gate(files) -> list[str]:
    """Forbidden constructs in the given coq files (comments stripped)."""
    bad = []
    for rel in files:
        try:
            txt = open(os.path.join(COQ, rel), encoding="utf-8").read()
        except FileNotFoundError:
            continue
        txt = strip_comments(txt)
        for m in FORBIDDEN.finditer(txt):
            bad.append(f"{rel}: {m.group(0)}")
        # Variable/Hypothesis/Context outside a Section
        depth = 0
        for m in re.finditer(r"^\s*(Section|Module\s+Type|End|Variables?|Hypothes[ie]s|Context)\b", txt, re.M):
            w = m.group(1)
            if w == "Section":
                depth += 1
            elif w == "End":
                depth = max(0, depth - 1)
            elif w.startswith("Module"):
                bad.append(f"{rel}: Module Type")
            elif depth == 0:
                bad.append(f"{rel}: {w} outside a Section")
    return bad


def strip_comments(txt: str) -> str:
    out, depth, i, n = [], 0, 0, len(txt)
    instr = False
    while i < n:
        if not instr and txt.startswith("(*", i):
            depth += 1
            i += 2
            continue
        if not instr and depth and txt.startswith("*)", i):
            depth -= 1
            i += 2
            continue
        c = txt[i]
        if depth == 0:
            if c == '"':
                instr = not instr
            out.append(c)
        elif c == "\n":
            out.append(c)
        i += 1
    return "".join(out)


def props_theorems(prop: str):
    rel = f"Props/{prop}.v"
    txt = strip_comments(open(os.path.join(COQ, rel), encoding="utf-8").read())
    thms = re.findall(r"^\s*(?:Theorem|Lemma|Corollary|Example|Fact)\s+(\w+)", txt, re.M)
    printed = re.findall(r"^\s*Print\s+Assumptions\s+(\w+)\s*\.", txt, re.M)
    return thms, printed


def compile_props(prop: str):
    """Always recompile Props/<prop>.v itself and capture Print Assumptions output.
    Returns (ok, log, [(theorem, 'closed' | [axiom names])])."""
    rel = f"Props/{prop}.v"
    base = os.path.join(COQ, rel[:-2])
    with Lock("coq"):
        for ext in (".vo", ".vok", ".vos", ".glob"):
            try:
                os.remove(base + ext)
            except FileNotFoundError:
                pass
        rc, out, dt = sh(["timeout", "900", "coqc", "-q", "-Q", ".", "AV", "-w", "-notation-overridden,-deprecated-hint-without-locality,-ambiguous-paths", rel], cwd=COQ, timeout=1000)
    thms, printed = props_theorems(prop)
    results = []
    if rc == 0:
        # split output into Print Assumptions answers, in order
        chunks = re.split(r"(?m)^(?=Closed under the global context|Axioms:)", out)
        chunks = [c for c in chunks if c.startswith("Closed under") or c.startswith("Axioms:")]
        for name, c in zip(printed, chunks):
            if c.startswith("Closed"):
                results.append((name, "closed"))
            else:
                ax = re.findall(r"(?m)^([A-Za-z_][\w.']*)\s*:", c[len("Axioms:"):])
                results.append((name, ax))
        if len(chunks) != len(printed):
            rc = 1
            out += f"\n[framework] {len(printed)} Print Assumptions commands but {len(chunks)} answers"
    return rc == 0, out, results, thms, printed


# ----------------------------------------------------------------------------
# running the model

def coq_eval(prop: str, name: str, text: str, timeout=900):
    """Compile coq/Cases/<prop>_<name>.v (written from `text`) and return (ok, stdout)."""
    d = os.path.join(COQ, "Cases")
    os.makedirs(d, exist_ok=True)
    fn = os.path.join(d, f"{prop}_{name}.v")
    with open(fn, "w") as f:
        f.write(text)
    rc, out, _ = sh(["timeout", str(timeout), "coqc", "-q", "-Q", ".", "AV", "-w", "-all", os.path.relpath(fn, COQ)],
                    cwd=COQ, timeout=timeout + 30)
    for ext in (".vo", ".vok", ".vos", ".glob"):
        try:
            os.remove(fn[:-2] + ext)
        except FileNotFoundError:
            pass
    return rc == 0, out


_model_cache: dict = {}


def ocaml_model(prop: str, deps: list[str]):
    """Per-process cache around _ocaml_model (the build takes the shared Coq lock)."""
    key = (prop, tuple(deps), REPO)
    if key not in _model_cache or not _model_cache[key][0]:
        _model_cache[key] = _ocaml_model(prop, deps)
    return _model_cache[key]


def _ocaml_model(prop: str, deps: list[str]):
    """Extract coq/Extract/<prop>.v (ExtrOcamlBasic only; it must end with
    `Extraction "model.ml" ...`) and link it with ocaml/common/conv.ml and
    ocaml/<prop>/driver.ml into bin/modelrun_<prop>.  `deps` are the project .vo targets
    the extraction file Requires (e.g. ["Model/Writer.vo"]); they are built first.
    Returns (ok, path_or_log).  Rebuilt when any input changed."""
    ext_v = os.path.join(COQ, "Extract", f"{prop}.v")
    odir = os.path.join(WORK, "ocaml", prop)
    bindir = os.path.join(WORK, "bin")
    os.makedirs(bindir, exist_ok=True)
    exe = os.path.join(bindir, f"modelrun_{prop}")
    def closure_hash():
        closure = [ext_v]
        for d in deps:
            closure += coq_closure(d[:-1])
        h = hashlib.sha256()
        for rel in sorted(set(closure)):
            try:
                h.update(open(os.path.join(COQ, rel), "rb").read())
            except FileNotFoundError:
                h.update(b"<missing:" + rel.encode() + b">")
        for f in (os.path.join(WORK, "ocaml", "common", "conv.ml"), os.path.join(odir, "driver.ml")):
            h.update(open(f, "rb").read())
        return h.hexdigest()

    stamp = os.path.join(odir, ".stamp")
    # fast path without the shared Coq lock: nothing the runner depends on changed since it was built
    try:
        if os.path.exists(exe) and os.path.exists(os.path.join(COQ, ".Makefile.coq.d")) \
                and open(stamp).read() == closure_hash():
            return True, exe
    except OSError:
        pass
    ok, log, _ = coq_make(deps)
    if not ok:
        return False, log
    closure = [ext_v]
    for d in deps:
        closure += coq_closure(d[:-1])
    h = hashlib.sha256()
    for rel in sorted(set(closure)):
        try:
            h.update(open(os.path.join(COQ, rel), "rb").read())
        except FileNotFoundError:
            pass
    for f in (os.path.join(WORK, "ocaml", "common", "conv.ml"), os.path.join(odir, "driver.ml")):
        h.update(open(f, "rb").read())
    stamp = os.path.join(odir, ".stamp")
    if os.path.exists(exe) and os.path.exists(stamp) and open(stamp).read() == h.hexdigest():
        return True, exe
    with Lock(f"ocaml-{prop}"):
        rc, out, _ = sh(["timeout", "600", "coqc", "-q", "-Q", COQ, "AV", "-w", "-all", "-o", os.path.join(odir, f"{prop}.vo"), ext_v],
                        cwd=odir, timeout=700)
        if rc != 0 or not os.path.exists(os.path.join(odir, "model.ml")):
            return False, "extraction failed:\n" + out
        with open(os.path.join(odir, "all.ml"), "w") as w:
            for part in (os.path.join(odir, "model.ml"), os.path.join(WORK, "ocaml", "common", "conv.ml"), os.path.join(odir, "driver.ml")):
                w.write(f"# 1 \"{part}\"\n")
                w.write(open(part).read())
                w.write("\n")
        rc, out2, _ = sh(["ocamlfind", "ocamlopt", "-O3", "-w", "-a", "-package", "str", "-linkpkg", "all.ml", "-o", exe], cwd=odir, timeout=600)
        if rc != 0:
            rc, out2, _ = sh(["ocamlfind", "ocamlopt", "-w", "-a", "-package", "str", "-linkpkg", "all.ml", "-o", exe], cwd=odir, timeout=600)
        if rc != 0:
            return False, "ocamlopt failed:\n" + out2
        with open(stamp, "w") as f:
            f.write(h.hexdigest())
    return True, exe


def run_model(exe: str, lines: list[str], timeout=1800) -> list[str]:
    """One request per input line, one answer per output line."""
    p = subprocess.run([exe], input="\n".join(lines) + "\n", stdout=subprocess.PIPE, stderr=subprocess.PIPE,
                       text=True, timeout=timeout)
    if p.returncode != 0:
        raise RuntimeError(f"model driver failed rc={p.returncode}: {p.stderr[-2000:]}")
    out = p.stdout.split("\n")
    if out and out[-1] == "":
        out.pop()
    if len(out) != len(lines):
        raise RuntimeError(f"model driver answered {len(out)} lines for {len(lines)} requests; stderr={p.stderr[-500:]}")
    return out


def hexs(b) -> str:
    """bytes / list of ints < 256 -> hex ('-' for empty so fields never vanish)."""
    b = bytes(b)
    return b.hex() if b else "-"


def unhex(s: str) -> bytes:
    return b"" if s == "-" else bytes.fromhex(s)


# ----------------------------------------------------------------------------
# context

class Ctx:
    def __init__(self, prop, tier, seed, module):
        self.prop, self.tier, self.seed, self.module = prop, tier, seed, module
        self.rng = random.Random(seed * 1000003 + sum(map(ord, prop)))
        self.t0 = time.time()
        self.obligations: list[dict] = []
        self.violations: list[dict] = []     # new (unlisted) violations
        self.known_hits: dict[str, int] = {}
        self.evaluations = 0
        self.nontrivial: set = set()
        self.samples: list = []
        self.distribution: dict[str, int] = {}
        self.traces_validated = 0
        self.disagreements = 0
        self.trusted: list[str] = []
        self.notes: list[str] = []
        self.checker_cmds: list[str] = []
        self.known = [k for k in load_known() if k.get("property") == prop]
        self.quick = tier == "quick"

    # -- obligations
    def oblige(self, name, kind, ok, detail=""):
        self.obligations.append({"name": name, "kind": kind, "ok": bool(ok), "detail": detail[-1500:] if detail else ""})
        if not ok:
            print(f"[{self.prop}] obligation BROKEN ({kind}) {name}: {detail[-600:] if detail else ''}", flush=True)

    # -- coverage accounting
    def count(self, key, n=1):
        self.distribution[key] = self.distribution.get(key, 0) + n

    def case(self, canon=None, nontrivial=False):
        """Account one explored case; canon = hashable canonical observable."""
        self.evaluations += 1
        if nontrivial and canon is not None:
            self.nontrivial.add(hashlib.blake2b(repr(canon).encode(), digest_size=8).digest())

    def sample(self, obj, limit=6):
        if len(self.samples) < limit:
            self.samples.append(obj)

    # -- violations
    def violation(self, case: dict, what: str):
        """A concrete input/history on which the IMPLEMENTATION violates the property."""
        sigs = getattr(self.module, "SIGNATURES", {})
        for k in self.known:
            if not str(k.get("status", "")).startswith("open"):
                continue
            sig = k.get("signature") or {}
            pred = sigs.get(sig.get("kind"))
            try:
                if pred and pred(case, sig.get("params") or {}):
                    self.known_hits[k["id"]] = self.known_hits.get(k["id"], 0) + 1
                    return False
            except Exception as e:  # noqa
                self.notes.append(f"signature {sig.get('kind')} raised {e!r}")
        if len(self.violations) < 20:
            self.violations.append({"case": case, "what": what})
        return True

    def disagreement(self, suite, case, model_obs, impl_obs):
        """Model and implementation differ on a case: correspondence obligation of `suite` is broken."""
        self.disagreements += 1
        self._disagreements.setdefault(suite, [])
        if len(self._disagreements[suite]) < 5:
            self._disagreements[suite].append({"case": case, "model": model_obs, "impl": impl_obs})

    _disagreements: dict = {}

    def close_suite(self, suite, ran: int):
        """Declare a correspondence suite finished: one obligation."""
        ds = self._disagreements.get(suite, [])
        self.oblige(f"correspondence:{suite}", "correspondence", not ds and ran > 0,
                    (f"{len(ds)}+ disagreements, first: {json.dumps(ds[0], default=str)[:1200]}" if ds else ("no cases ran" if ran == 0 else "")))
        self.count(f"suite:{suite}", ran)


def load_known():
    """Entries of known_findings.d/C*.json (the committed per-property files; known_findings.json is
    their merged copy).  Never written at run time."""
    out = []
    for p in sorted(glob.glob(os.path.join(VERIF, "known_findings.d", "C*.json"))):
        out += json.load(open(p))
    return out


def write_replay(ctx, payload: dict) -> str:
    d = os.path.join(WORK, "evidence", "replays")
    os.makedirs(d, exist_ok=True)
    h = hashlib.sha256(json.dumps(payload, sort_keys=True, default=str).encode()).hexdigest()[:12]
    path = os.path.join(d, f"{ctx.prop}-{h}.json")
    with open(path, "w") as f:
        json.dump(payload, f, indent=1, default=str)
    return os.path.relpath(path, VERIF) if WORK == VERIF else path


# ----------------------------------------------------------------------------
# main pipeline

def main(argv=None):
    import argparse
    import importlib
    ap = argparse.ArgumentParser()
    ap.add_argument("prop")
    ap.add_argument("--tier", default=os.environ.get("VERIF_TIER", "quick"), choices=["quick", "thorough"])
    ap.add_argument("--seed", type=int, default=int(os.environ.get("VERIF_SEED", "0") or 0))
    ap.add_argument("--replay")
    ap.add_argument("--no-coq", action="store_true", help="development only: skip the Coq build (never registered)")
    a = ap.parse_args(argv)
    prop = a.prop.upper()
    sys.path.insert(0, VERIF)
    os.chdir(VERIF)
    # aiohttp logs every handled error with a traceback; without a handler Python's last-resort handler prints them
    # to stderr (hundreds of KB per run).  A NullHandler keeps the records available to harness-installed handlers.
    import logging
    logging.getLogger("aiohttp").addHandler(logging.NullHandler())
    module = importlib.import_module(f"harness.{prop.lower()}")
    ctx = Ctx(prop, a.tier, a.seed, module)
    Ctx._disagreements = {}

    if a.replay:
        payload = json.load(open(a.replay))
        case = payload.get("case", payload)
        prepare_work()                 # an isolated work directory (VERIF_REPO) needs its coq/ and ocaml/ copies
        from translator import gen as _gen
        with Lock("coq"):
            _gen.regenerate() if WORK != VERIF else _gen.regenerate(only=list(getattr(module, "GENERATED", [])) or None)
        res = module.replay(ctx, case)
        print(json.dumps(res, indent=1, default=str))
        return 0

    # 1. translator  (the Coq lock is held from regeneration to the end of the Coq step so that a
    #    concurrent check working against another VERIF_REPO cannot swap Generated/*.v in between)
    from translator import gen
    prepare_work()
    coq_lock = Lock("coq")
    coq_lock.__enter__()
    needed = list(getattr(module, "GENERATED", []))
    # only this property's generated files are rewritten (other checks may be running concurrently
    # against another VERIF_REPO); files that do not exist yet are generated too
    if WORK != VERIF:
        tr = gen.regenerate()          # private work directory: generate everything from VERIF_REPO
    else:
        tr = gen.regenerate(only=needed) if needed else {}
    translator_failed = []
    for out in needed:
        r = tr.get(out)
        if r is None:
            ctx.oblige(f"translator:{out}", "translator", False, "no translator module produces this file")
            translator_failed.append(out)
        else:
            ctx.oblige(f"translator:{out}", "translator", r["ok"], r.get("error", ""))
            if not r["ok"]:
                translator_failed.append(out)
                if r.get("stale_restored"):
                    ctx.notes.append(f"{out}: translation failed; the last good generated text is used ONLY to build the "
                                     "model runner for the counterexample search; no theorem is counted as checked")

    # 2. Coq: closure build, property file, assumptions, gate
    if not a.no_coq:
        rel = f"Props/{prop}.v"
        if a.tier == "thorough":
            coq_project()
            sh(["make", "-f", "Makefile.coq", "--no-print-directory", ".Makefile.coq.d"], cwd=COQ, timeout=300)
            with Lock("coq"):
                # from-clean build of this property's own files (shared Lib/Generated stay cached
                # unless they are only used here)
                own = [f for f in coq_closure(rel) if prop in os.path.basename(f) or f.startswith("Props/")]
                coq_clean([f for f in own if f.startswith(("Proofs/", "Props/"))])
        ok, log, dt = coq_make([rel + "o"])
        ctx.checker_cmds.append(f"cd coq && coq_makefile -f _CoqProject -o Makefile.coq && make -f Makefile.coq -j{NPROC} {rel}o  ({dt:.1f}s)")
        closure = coq_closure(rel)
        if not ok:
            m = re.findall(r'File "\./([^"]+)", line (\d+)[^\n]*\n(?:.*\n){0,12}?Error:[^\n]*(?:\n[^\n]*){0,6}', log)
            ctx.oblige(f"coq-build:{rel}", "proof", False, log[-1500:])
        okp, outp, results, thms, printed = compile_props(prop) if ok else (False, "closure build failed", [], *props_theorems(prop))
        ctx.checker_cmds.append(f"cd coq && coqc -Q . AV {rel}   (always recompiled; Print Assumptions captured)")
        if ok and not okp:
            ctx.oblige(f"coq-build:{rel}", "proof", False, outp[-1500:])
        missing = [t for t in thms if t not in printed]
        if missing:
            ctx.oblige("props-lint", "proof", False, f"theorems without Print Assumptions: {missing}")
        res = dict(results)
        axioms_seen = {}
        for t in thms:
            if translator_failed:
                ctx.oblige(f"theorem:{t}", "proof", False,
                           f"not checked: the source no longer translates ({', '.join(translator_failed)})")
                continue
            if t not in res:
                ctx.oblige(f"theorem:{t}", "proof", False, "not checked (build failed)")
                continue
            r = res[t]
            if r == "closed":
                ctx.oblige(f"theorem:{t}", "proof", True, "Closed under the global context")
            else:
                bad = [x for x in r if x.split(".")[-1] not in STDLIB_AXIOMS_OK]
                axioms_seen[t] = r
                ctx.oblige(f"theorem:{t}", "proof", not bad, f"axioms: {r}" + (f" NOT ALLOWED: {bad}" if bad else ""))
        bad = grep_gate(closure)
        ctx.oblige("no-admits-no-axioms-gate", "proof", not bad, "; ".join(bad[:10]))
        ctx.trusted.append("Coq 8.16.1 kernel (coqc; vm_compute used for finite sweeps/witnesses; no native_compute)")
        ctx.trusted.append("Print Assumptions: " + ("all theorems closed under the global context" if not axioms_seen else json.dumps(axioms_seen)))
        ctx.trusted.append(f"Coq files in the closure of {rel}: {len(closure)}")
        if a.tier == "thorough" and ok and okp and os.environ.get("VERIF_COQCHK", "1") == "1":
            rc, out, dt = sh(["timeout", "1500", "coqchk", "-o", "-Q", ".", "AV", f"AV.Props.{prop}"], cwd=COQ, timeout=1600)
            tail = out[-3000:]
            ctx.checker_cmds.append(f"cd coq && coqchk -o -Q . AV AV.Props.{prop}  (rc={rc}, {dt:.0f}s)")
            okchk = rc == 0 and "Modules were successfully checked" in out
            ctx.oblige("coqchk", "proof", okchk, tail)
            m = re.search(r"\* Axioms:(.*?)(\n\n|\Z)", out, re.S)
            ctx.trusted.append("coqchk -o axioms of all loaded libraries: " + (" ".join(m.group(1).split()) if m else "<none listed>"))

    # 3. correspondence + search (property module)
    try:
        if hasattr(module, "build_model"):
            module.build_model()      # model runner built from the same Generated files, under the lock
    except Exception as e:  # noqa
        ctx.notes.append(f"build_model raised {e!r}")
    coq_lock.__exit__(None, None, None)
    try:
        module.run(ctx)
    except Exception as e:  # noqa
        import traceback
        ctx.oblige("harness-run", "correspondence", False, f"harness crashed: {traceback.format_exc()[-1400:]}")

    # 4. known findings: replay each open one
    for k in ctx.known:
        if not str(k.get("status", "")).startswith("open"):
            continue
        still = None
        try:
            if k.get("replay") and hasattr(module, "replay"):
                payload = json.load(open(os.path.join(VERIF, k["replay"])))
                r = module.replay(ctx, payload.get("case", payload))
                still = bool(r.get("violates")) if isinstance(r, dict) else None
        except Exception as e:  # noqa
            ctx.notes.append(f"known finding {k['id']} replay raised {e!r}")
        if still is False:
            ctx.notes.append(f"known finding {k['id']} no longer reproduces")
            print(f"[{prop}] note: known finding {k['id']} no longer reproduces on this tree")
        else:
            print(f"KNOWN-FINDING: property={prop} {k['what']}" + (f" [matched {ctx.known_hits.get(k['id'], 0)} generated cases]" if ctx.known_hits.get(k['id']) else ""), flush=True)

    # 5. verdict
    broken = [o for o in ctx.obligations if not o["ok"]]
    rc = 0
    for v in ctx.violations[:5]:
        path = write_replay(ctx, {"property": prop, "seed": a.seed, "tier": a.tier, "case": v["case"], "what": v["what"],
                                  "broken_obligations": [o["name"] for o in broken]})
        print(f"VIOLATION property={prop} replay={path}", flush=True)
        print(f"[{prop}]   {v['what'][:500]}", flush=True)
        rc = 1
    if broken and not ctx.violations:
        path = write_replay(ctx, {"property": prop, "seed": a.seed, "tier": a.tier, "case": None,
                                  "broken_obligations": broken,
                                  "disagreements": Ctx._disagreements,
                                  "what": "obligation(s) no longer check; the search found no input on which the implementation violates the property"})
        print(f"VIOLATION property={prop} replay={path} no-failing-input-found", flush=True)
        rc = 1

    # 6. evidence
    wall = time.time() - ctx.t0
    n_ob = len(ctx.obligations)
    n_ok = sum(1 for o in ctx.obligations if o["ok"])
    ev = {
        "property_id": prop, "tier": a.tier, "seed": a.seed, "level": "proof",
        "coverage": {
            "obligations": n_ob, "discharged": n_ok,
            "checker_cmd": " ; ".join(ctx.checker_cmds) or "(coq build skipped)",
            "trusted_base": ctx.trusted + list(getattr(module, "TRUSTED", [])),
            "obligation_list": [{k: o[k] for k in ("name", "kind", "ok")} | ({"detail": o["detail"]} if (o["detail"] and (not o["ok"] or o["kind"] == "proof")) else {}) for o in ctx.obligations],
            "evaluations": ctx.evaluations,
            "distinct_nontrivial": len(ctx.nontrivial),
            "rule": getattr(module, "RULE", "cases are generated from one PRNG seeded by VERIF_SEED; a case is non-trivial when it exercises a non-error path; distinct by hash of canonical observable"),
            "samples": ctx.samples or ["<no cases>"],
            "traces_validated_against_impl": ctx.traces_validated,
            "disagreements_checked": ctx.disagreements,
            "distribution": ctx.distribution,
            "known_findings_matched": ctx.known_hits,
            "notes": ctx.notes,
        },
        "assumptions": list(getattr(module, "ASSUMPTIONS", [])),
        "wall_s": round(wall, 2),
        "violations": len(ctx.violations) + (1 if (broken and not ctx.violations) else 0),
    }
    # evidence of a run against another source tree stays in that run's work directory
    os.makedirs(os.path.join(WORK, "evidence"), exist_ok=True)
    with open(os.path.join(WORK, "evidence", f"{prop}.json"), "w") as f:
        json.dump(ev, f, indent=1, default=str)
    print(f"[{prop}] tier={a.tier} seed={a.seed} obligations {n_ok}/{n_ob} evaluations={ctx.evaluations} "
          f"nontrivial={len(ctx.nontrivial)} violations={ev['violations']} wall={wall:.1f}s", flush=True)
    return rc
