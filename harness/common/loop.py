"""Virtual-time event loop: aiohttp runs unmodified, no real sleeping.

VLoop is a SelectorEventLoop whose clock is `vtime`; when nothing is ready the selector
advances the clock to the next timer instead of blocking.  Real file descriptors still work
(polled with timeout 0), but the harnesses use in-memory transports.
"""
from __future__ import annotations

import asyncio
import selectors
import time as _time
from unittest import mock


class _VSelector(selectors.DefaultSelector):
    def __init__(self):
        super().__init__()
        self.loop = None

    def select(self, timeout=None):
        ev = super().select(0)
        if not ev and timeout is not None and timeout > 0 and self.loop is not None:
            if self.loop.auto_advance:
                self.loop.vtime += timeout
            else:
                self.loop.starved = True
        return ev


class VLoop(asyncio.SelectorEventLoop):
    def __init__(self):
        sel = _VSelector()
        super().__init__(sel)
        sel.loop = self
        self.vtime = 1000.0
        self.auto_advance = True
        self.starved = False
        self.exceptions: list = []
        self.set_exception_handler(self._on_exc)

    def _on_exc(self, loop, context):
        self.exceptions.append(context)

    def time(self):
        return self.vtime

    def advance(self, dt: float):
        self.vtime += dt

    def run_until_idle(self, max_iters: int = 10000):
        """Run ready callbacks until nothing is ready (timers not yet due do not fire)."""
        old = self.auto_advance
        self.auto_advance = False
        try:
            for _ in range(max_iters):
                if not self._ready and not (self._scheduled and self._scheduled[0]._when <= self.vtime):
                    # one more pass for selector events
                    self.call_soon(self.stop)
                    self.run_forever()
                    if not self._ready:
                        return True
                    continue
                self.call_soon(self.stop)
                self.run_forever()
            return False
        finally:
            self.auto_advance = old

    def next_timer(self):
        live = [h._when for h in self._scheduled if not h._cancelled]
        return min(live) if live else None


class patched_time:
    """Patch time.time/monotonic users that aiohttp reads directly to the loop's clock."""

    def __init__(self, loop: VLoop, wall0: float = 1_700_000_000.0):
        self.loop, self.wall0 = loop, wall0
        self.ps = []

    def __enter__(self):
        import aiohttp.connector
        loop, wall0 = self.loop, self.wall0
        t0 = loop.vtime
        self.ps = [
            mock.patch("aiohttp.connector.monotonic", lambda: loop.vtime),
            mock.patch("time.time", lambda: wall0 + (loop.vtime - t0)),
            mock.patch("time.monotonic", lambda: loop.vtime),
        ]
        for p in self.ps:
            p.start()
        return self

    def __exit__(self, *a):
        for p in reversed(self.ps):
            p.stop()


def run(coro_fn, *args, timeout_virtual: float | None = None, **kw):
    """Run `await coro_fn(loop, *args)` on a fresh VLoop; returns (result, loop)."""
    loop = VLoop()
    asyncio.set_event_loop(loop)
    try:
        res = loop.run_until_complete(coro_fn(loop, *args, **kw))
        return res, loop
    finally:
        try:
            pending = [t for t in asyncio.all_tasks(loop) if not t.done()]
            for t in pending:
                t.cancel()
            if pending:
                loop.run_until_complete(asyncio.gather(*pending, return_exceptions=True))
            loop.run_until_complete(loop.shutdown_asyncgens())
        finally:
            asyncio.set_event_loop(None)
            loop.close()
