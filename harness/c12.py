"""C12 — WebSocket reader enforces the protocol and its size bounds.

Model side : extracted Coq (Model/Ws.v = WebSocketReader field for field; Model/WsSpec.v = whole-stream
             RFC 6455 / RFC 7692 reference decoder), both instantiated with the toy codec of Model/Ws.v.
Impl side  : the real aiohttp._websocket.reader_py.WebSocketReader + WebSocketDataQueue, mock protocol,
             the same toy codec plugged in through compression_utils.set_zlib_backend (and a second pass
             with real zlib, oracle only).
"""
from __future__ import annotations

import json
import os
import struct
import zlib as _real_zlib
from unittest import mock

from harness.common import framework as fw

PROP = "C12"
GENERATED = ["WsGen.v"]
RULE = ("streams = valid frame sequences (text/binary/fragmented/control interleaved/close/compressed with the toy "
        "codec, lengths around 125/126/127/65535/65536) + every violation class injected at every frame position "
        "+ random bytes; each stream x (one-shot, every single cut [sampled above 48 bytes], sampled double cuts, "
        "byte-at-a-time, random cuts) x (compress, decode_text, max_msg_size in {0,1,small,exact fit +-1,4MiB}); "
        "plus the application's view through queue.read() for consumers that read eagerly / lag by 1-2 messages / read only "
        "after the last network read. "
        "Non-trivial = at least one message was delivered; distinct by hash of (config, stream, segmentation, observable).")
TRUSTED = [
    "translator/gen_ws.py (opcode/close-code tables, every guarded WebSocketError test of _feed_data/_handle_frame as a "
    "boolean expression, check order, feed_data latch shape)",
    "extraction: ExtrOcamlBasic only; ocaml/common/conv.ml + ocaml/C12/driver.ml (hex / binary-number I/O)",
    "correspondence harness harness/c12.py: sampled, not proved; mock BaseProtocol (_reading_paused=False)",
    "codec: ZLibDecompressor.decompress_sync is a Section variable of the model (law used: output <= max_length when "
    "max_length != 0); the toy instance is run on both sides through set_zlib_backend; real zlib is only exercised by "
    "the oracle pass (segmentation independence, size cap, known-answer round trips)",
    "modelled, not verified: CPython bytes.decode('utf-8') (compared exhaustively to length 2 and on mutated samples), "
    "struct unpacking, bytearray/bytes joins; the Cython reader is out of scope (AIOHTTP_NO_EXTENSIONS=1)",
]
ASSUMPTIONS = [
    "The Python reader is used (AIOHTTP_NO_EXTENSIONS=1); 64-bit CPython (sys.maxsize = 2**63-1).",
    "Model/implementation agreement is validated on the generated cases only.",
    "TEXT payloads are validated only when decode_text=True (with decode_text=False aiohttp hands the raw bytes to the caller).",
]


# ------------------------------------------------------------------------------------------------
# known findings: none open (all four are fixed in /repo and kept as corpus regressions), so nothing is suppressed
SIGNATURES: dict = {}


def build_model():
    return fw.ocaml_model("C12", ["Model/Ws.vo", "Model/WsSpec.vo"])


# ------------------------------------------------------------------------------------------------
# toy codec (mirror of Model/Ws.v toy_decomp), pluggable as a zlib backend

class ToyError(Exception):
    pass


class ToyD:
    def __init__(self):
        self.a, self.pend, self.rem = 0, None, 0
        self.unconsumed_tail = b""
        self.unused_data = b""
        self.eof = False

    def decompress(self, data, max_length=0):
        from aiohttp.compression_utils import TooManyMembersError
        data = bytes(data)
        cap = max_length
        out = bytearray()
        k = self.rem if cap == 0 else min(self.rem, cap)
        out += bytes([self.a]) * k
        if k < self.rem:
            self.rem -= k
            self.unconsumed_tail = data
            return bytes(out)
        self.rem = 0
        i = 0
        n = len(data)
        while i < n:
            if cap != 0 and cap <= len(out):
                break
            b = data[i]
            if self.pend is None:
                if b == 255:
                    pass
                elif b == 254:
                    raise ToyError("corrupt toy stream")
                elif b == 253:
                    raise TooManyMembersError("toy: too many members")
                else:
                    self.pend = b
                i += 1
            else:
                cnt = self.pend
                a2 = (self.a + b) % 256
                k = cnt if cap == 0 else min(cnt, cap - len(out))
                self.a, self.pend = a2, None
                if k < cnt:
                    out += bytes([a2]) * k
                    self.rem = cnt - k
                    self.unconsumed_tail = data[i + 1:]
                    return bytes(out)
                out += bytes([a2]) * cnt
                i += 1
        self.unconsumed_tail = data[i:]
        return bytes(out)

    def flush(self, *a):
        return b""


class ToyBackend:
    __name__ = "toy"
    MAX_WBITS = 15
    Z_FULL_FLUSH = 3
    Z_SYNC_FLUSH = 2
    Z_BEST_SPEED = 1
    Z_FINISH = 4
    error = ToyError

    @staticmethod
    def decompressobj(wbits=15, zdict=b""):
        return ToyD()

    @staticmethod
    def compressobj(*a, **k):
        raise NotImplementedError


def toy_compress(payload: bytes) -> bytes:
    """Some toy input that inflates to `payload` from context a (tracked by the caller): not needed for the
    checks (any byte string is a toy stream); used to make 'valid compressed message' cases meaningful."""
    raise NotImplementedError


class _Backend:
    def __init__(self, backend):
        self.backend = backend

    def __enter__(self):
        from aiohttp import compression_utils as cu
        self.cu = cu
        self.old = cu.ZLibBackend._zlib_backend
        if self.backend is not None:
            cu.set_zlib_backend(self.backend)
        orig = self.orig = cu.ZLibDecompressor.decompress_sync

        def recording(zself, data, max_length=0):
            out = orig(zself, data, max_length)
            INFLATED.append((max_length, len(out)))
            return out
        cu.ZLibDecompressor.decompress_sync = recording

    def __exit__(self, *a):
        self.cu.ZLibDecompressor.decompress_sync = self.orig
        self.cu.set_zlib_backend(self.old)


# ------------------------------------------------------------------------------------------------
# frames

def frame(op, payload=b"", fin=1, rsv=0, mask=None, lenform=None, declared=None):
    """rsv: 3-bit value rsv1<<2 | rsv2<<1 | rsv3.  lenform in {None,7,16,64} forces the length encoding;
    declared overrides the announced length (payload bytes are emitted as given)."""
    b0 = (fin << 7) | (rsv << 4) | op
    n = len(payload) if declared is None else declared
    m = 0x80 if mask else 0
    if lenform is None:
        lenform = 7 if n < 126 else (16 if n < 65536 else 64)
    if lenform == 7:
        h = bytes([b0, m | (n & 0x7F)])
    elif lenform == 16:
        h = bytes([b0, m | 126]) + struct.pack("!H", n & 0xFFFF)
    else:
        h = bytes([b0, m | 127]) + struct.pack("!Q", n)
    if mask:
        payload = bytes(p ^ mask[i % 4] for i, p in enumerate(payload))
        h += mask
    return h + payload


TEXTS = [b"", b"a", b"hello", "hé".encode(), "€".encode(), "\U0001F600".encode(), "x߿y￿".encode(),
         b"\xed\x9f\xbf", b"\xee\x80\x80", b"\xf4\x8f\xbf\xbf"]
BAD_UTF8 = [b"\x80", b"\xc0\x80", b"\xc1\xbf", b"\xe0\x80\x80", b"\xe0\x9f\xbf", b"\xed\xa0\x80", b"\xed\xbf\xbf",
            b"\xf0\x80\x80\x80", b"\xf0\x8f\xbf\xbf", b"\xf4\x90\x80\x80", b"\xf5\x80\x80\x80", b"\xff", b"\xfe",
            b"a\xc3", b"\xe2\x82", b"\xf0\x9f\x98", b"ab\xc3\x28", b"\xc3\xa9\x80"]
BAD_CLOSE = [0, 1, 999, 1004, 1005, 1006, 1015, 1016, 1100, 2000, 2999, 5000, 5001, 32768, 65535]
GOOD_CLOSE = [1000, 1001, 1002, 1003, 1007, 1008, 1009, 1010, 1011, 1012, 1013, 1014, 3000, 3999, 4000, 4999]


def rpayload(rng, n=None, text=False):
    if text:
        s = rng.choice(TEXTS)
        if n is not None:
            s = (s * (n // max(1, len(s)) + 1))[:0] + b"".join(rng.choice(TEXTS[1:]) for _ in range(n))
        return s
    if n is None:
        n = rng.choice([0, 1, 2, 3, 5, 9, 17])
    return bytes(rng.randrange(256) for _ in range(n))


def rmask(rng):
    return None if rng.random() < 0.5 else bytes(rng.randrange(256) for _ in range(4))


def toy_stream(rng, maxpairs=4):
    """bytes that are a well-formed toy stream (pairs count,delta with occasional 0xff markers)."""
    out = bytearray()
    for _ in range(rng.randint(0, maxpairs)):
        if rng.random() < 0.15:
            out.append(255)
        out.append(rng.choice([0, 1, 2, 3, 5, 9, 40, 200, 252]))
        out.append(rng.randrange(256))
    return bytes(out)


def gen_message(rng, compress):
    """-> list of frames (bytes) forming one valid message (possibly with interleaved control frames)."""
    kind = rng.random()
    if kind < 0.12:
        return [frame(9, rpayload(rng), mask=rmask(rng))]
    if kind < 0.2:
        return [frame(10, rpayload(rng), mask=rmask(rng))]
    op = rng.choice([1, 2])
    comp = compress and rng.random() < 0.5
    if comp:
        body = toy_stream(rng)
    else:
        body = rpayload(rng, text=True) if op == 1 else rpayload(rng)
    nfr = rng.choice([1, 1, 1, 2, 3, 4])
    cuts = sorted(rng.randint(0, len(body)) for _ in range(nfr - 1))
    parts = [body[a:b] for a, b in zip([0] + cuts, cuts + [len(body)])]
    frames = []
    for i, p in enumerate(parts):
        fop = op if i == 0 else 0
        rsv = 4 if (comp and i == 0) else 0
        frames.append(frame(fop, p, fin=1 if i == nfr - 1 else 0, rsv=rsv, mask=rmask(rng),
                            lenform=rng.choice([None, None, None, 16, 64])))
        if i < nfr - 1 and rng.random() < 0.25:
            frames.append(frame(rng.choice([9, 10]), rpayload(rng), mask=rmask(rng)))
    return frames


def gen_valid(rng, compress, nmsg=None):
    frames = []
    for _ in range(nmsg if nmsg is not None else rng.randint(1, 4)):
        frames += gen_message(rng, compress)
    if rng.random() < 0.2:
        code = rng.choice(GOOD_CLOSE)
        frames.append(frame(8, struct.pack("!H", code) + rng.choice(TEXTS), mask=rmask(rng)))
    return frames


def violations(rng, compress):
    """name -> list of frames to splice in (each is a violating frame or short sequence)."""
    m = rmask(rng)
    v = {
        "rsv2": [frame(rng.choice([1, 2, 9]), b"x", rsv=2, mask=m)],
        "rsv3": [frame(rng.choice([1, 2, 8]), b"", rsv=1, mask=m)],
        "rsv1-unnegotiated-or-control": [frame(1 if not compress else 9, b"", rsv=4, mask=m)],
        "rsv1-on-continuation": [frame(1, b"a", fin=0), frame(0, b"b", rsv=4)],
        "opcode-reserved": [frame(rng.choice([3, 4, 5, 6, 7, 11, 12, 13, 14, 15]), b"zz", mask=m)],
        "control-fragmented": [frame(rng.choice([8, 9, 10]), b"", fin=0, mask=m)],
        "control-126": [frame(rng.choice([8, 9, 10]), b"p" * 126, mask=m)],
        "control-len64": [frame(9, b"", lenform=64, declared=5)],
        "cont-without-start": [frame(0, b"c", fin=rng.choice([0, 1]), mask=m)],
        "data-in-message-fin": [frame(1, b"a", fin=0), frame(rng.choice([1, 2]), b"b", fin=1)],
        "data-in-message-nonfin": [frame(1, b"a", fin=0), frame(2, b"b", fin=0), frame(0, b"c", fin=1)],
        "data-after-empty-fragment": [frame(1, b"", fin=0), frame(2, b"x", fin=1), frame(0, b"y", fin=1)],
        "bad-utf8-text": [frame(1, rng.choice(BAD_UTF8), mask=m)],
        "bad-utf8-fragmented": [frame(1, b"\xe2\x82", fin=0), frame(0, b"\x28", fin=1)],
        "split-char-valid": [frame(1, b"\xe2\x82", fin=0), frame(0, b"\xac", fin=1)],
        "bad-utf8-close-reason": [frame(8, struct.pack("!H", 1000) + rng.choice(BAD_UTF8), mask=m)],
        "bad-close-code": [frame(8, struct.pack("!H", rng.choice(BAD_CLOSE)) + b"r", mask=m)],
        "close-len1": [frame(8, b"\x03", mask=m)],
        "len64-msb": [frame(2, b"", lenform=64, declared=rng.choice([2**63, 2**64 - 1, 2**63 + 5]))],
        "len64-huge": [frame(2, b"abc", lenform=64, declared=rng.choice([2**62, 2**63 - 1, 2**40]))],
        "toy-corrupt": [frame(2, b"\x01\x02\xfe", rsv=4 if compress else 0)],
        "toy-too-many": [frame(2, b"\x01\x02\xfd", rsv=4 if compress else 0)],
        "toy-bomb": [frame(2, bytes([252, 1] * 6), rsv=4 if compress else 0)],
    }
    return v


# ------------------------------------------------------------------------------------------------
# implementation runner

class Impl:
    def __init__(self, mx, compress, decode_text):
        import asyncio
        from aiohttp._websocket.reader_py import WebSocketDataQueue, WebSocketReader
        self.proto = _Proto(self)
        self.pauses = 0
        self.loop = _LOOP
        self.q = WebSocketDataQueue(self.proto, 2 ** 40, loop=self.loop)
        self.r = WebSocketReader(self.q, mx, compress, decode_text)
        self.errored = False

    def feed(self, seg: bytes):
        """-> (events str, state str, pause flag, return-value check)"""
        before = self.pauses
        was_latched = self.r._exc is not None
        ret = self.r.feed_data(seg)
        evs = [ev_of(m) for m in self.q._buffer]
        sizes_ok = all(size_ok(m) for m in self.q._buffer)
        self.q._buffer.clear()
        self.q._size = 0
        st = state_of(self.r)
        ret_ok = (ret == (True, seg)) if was_latched else (ret == ((True, b"") if self.r._exc is not None else (False, b"")))
        return evs, st, self.pauses > before, ret_ok and sizes_ok


_LOOP = None


class _Proto:
    """stand-in for BaseProtocol: never paused, counts pause requests"""
    _reading_paused = False

    def __init__(self, owner):
        self.owner = owner

    def pause_reading(self):
        self.owner.pauses += 1

    def resume_reading(self):
        pass


def ev_of(m):
    from aiohttp._websocket.models import WSMsgType
    t = m.type
    if t == WSMsgType.TEXT:
        d = m.data
        return "T:" + fw.hexs(d.encode("utf-8") if isinstance(d, str) else d)
    if t == WSMsgType.BINARY:
        return "B:" + fw.hexs(m.data)
    if t == WSMsgType.PING:
        return "PI:" + fw.hexs(m.data)
    if t == WSMsgType.PONG:
        return "PO:" + fw.hexs(m.data)
    if t == WSMsgType.CLOSE:
        return f"C:{int(m.data)}:" + fw.hexs((m.extra or "").encode("utf-8"))
    return f"?{t}"


def size_ok(m):
    from aiohttp._websocket.models import WSMsgType
    t = m.type
    if t == WSMsgType.TEXT:
        return m.size == len(m.data.encode("utf-8") if isinstance(m.data, str) else m.data)
    if t in (WSMsgType.BINARY, WSMsgType.PING, WSMsgType.PONG):
        return m.size == len(m.data)
    if t == WSMsgType.CLOSE:
        return m.size == (0 if m.data == 0 and not m.extra else 2 + len(m.extra.encode("utf-8")))
    return False


def binn(x: int) -> str:
    return "b" + format(x, "b")


def err_of(exc):
    from aiohttp._websocket.models import WebSocketError
    if isinstance(exc, WebSocketError):
        return str(int(exc.code))
    if isinstance(exc, (ToyError, _real_zlib.error)):
        return "codec"
    return "exn:" + type(exc).__name__


def state_of(r):
    if r._exc is not None:
        return "X:" + err_of(r._exc)
    d = r._decompressobj
    if d is None:
        cx = "0/n/b0/-"
    else:
        t = d._decompressor
        if isinstance(t, ToyD):
            cx = f"{t.a}/{'n' if t.pend is None else t.pend}/{binn(t.rem)}/{fw.hexs(t.unconsumed_tail)}"
        else:
            cx = "zlib"
    frs = b"".join(bytes(f) for f in r._payload_fragments)
    if r._frame_payload_len != len(frs):
        cx += "!frame_payload_len=%d" % r._frame_payload_len
    return ":".join([
        "L", str(r._state), fw.hexs(r._tail), fw.hexs(bytes(r._partial)), str(16 if r._opcode == -1 else r._opcode),
        "1" if r._frame_fin else "0", str(16 if r._frame_opcode == -1 else r._frame_opcode), fw.hexs(frs),
        binn(len(r._payload_fragments)), "1" if r._has_mask else "0",
        fw.hexs(r._frame_mask if r._frame_mask is not None else b"\0\0\0\0"), binn(r._payload_bytes_to_read),
        str(r._payload_len_flag), str(2 if r._compressed == -1 else r._compressed), cx])


INFLATED: list = []     # (max_length asked, bytes returned) of every decompress_sync call, recorded by _Backend


def run_impl(cfg, segs):
    """-> (list of per-feed (events, state, pause, ret_ok)), all events, final status"""
    mx, cmp_, dt = cfg
    del INFLATED[:]
    im = Impl(mx, cmp_, dt)
    per = []
    allev = []
    stale = None
    for i, s in enumerate(segs):
        evs, st, p, ok = im.feed(s)
        per.append((evs, st, p, ok))
        allev += evs
        if stale is None and im.r._exc is None and im.r._state == 1 and len(im.r._payload_fragments) != 0:
            stale = i
    status = "pending" if im.r._exc is None else err_of(im.r._exc)
    return per, allev, status, stale


class _WouldBlock(Exception):
    pass


def qread(q):
    """`await queue.read()` when it does not have to wait (buffer non-empty or eof/exception set): returns the
    message or raises what read() raises."""
    co = q.read()
    try:
        co.send(None)
    except StopIteration as e:
        return e.value
    co.close()
    q._waiter = None
    raise _WouldBlock()


def run_consumer(cfg, segs, lag):
    """The application's view: messages are taken with queue.read().  lag=None: the application only reads after the
    last network read; lag=k: after every network read it reads until k messages are left unread (k=0: eager).
    At the end it reads until read() raises or would block.  -> (messages read, 'pending' | error class)"""
    mx, cmp_, dt = cfg
    im = Impl(mx, cmp_, dt)
    got = []
    status = "pending"

    def take(leave):
        nonlocal status
        while status == "pending" and (len(im.q._buffer) > leave or (leave == 0 and im.q._eof)):
            try:
                got.append(ev_of(qread(im.q)))
            except _WouldBlock:
                break
            except Exception as e:  # noqa
                status = err_of(e)
    for s_ in segs:
        im.r.feed_data(s_)
        if lag is not None:
            take(lag)
    take(0)
    return got, status


# ------------------------------------------------------------------------------------------------
# segmentations

def cut(stream: bytes, points):
    pts = [0] + sorted(points) + [len(stream)]
    return [stream[a:b] for a, b in zip(pts, pts[1:])]


def segmentations(rng, stream: bytes, quick: bool):
    n = len(stream)
    out = [[stream]]
    if n == 0:
        return out
    if n <= 48 or not quick:
        singles = range(1, n) if n <= 400 else sorted(rng.sample(range(1, n), 400))
    else:
        singles = sorted(set(rng.sample(range(1, n), min(n - 1, 16)) + [1, 2, n - 1]))
    for i in singles:
        out.append(cut(stream, [i]))
    if n >= 3:
        k = min(12 if quick else 40, (n - 1) * (n - 2) // 2)
        seen = set()
        if (n - 1) * (n - 2) // 2 <= k:
            for i in range(1, n):
                for j in range(i + 1, n):
                    out.append(cut(stream, [i, j]))
        else:
            while len(seen) < k:
                i, j = sorted(rng.sample(range(1, n), 2))
                if (i, j) not in seen:
                    seen.add((i, j))
                    out.append(cut(stream, [i, j]))
    if n <= 600:
        out.append([stream[i:i + 1] for i in range(n)])
    for _ in range(2):
        pts = sorted(set(rng.randint(1, n - 1) for _ in range(rng.randint(1, 6)))) if n > 1 else []
        out.append(cut(stream, pts))
    if n > 4:   # empty reads are legal input to feed_data
        out.append([stream[:2], b"", stream[2:]])
    return out


# ------------------------------------------------------------------------------------------------
# model access

def run_line(cfg, segs):
    mx, cmp_, dt = cfg
    return " ".join(["RUN", str(mx), "1" if cmp_ else "0", "1" if dt else "0"] + [fw.hexs(s) for s in segs])


def spec_line(profile, cfg, stream):
    mx, cmp_, dt = cfg
    return " ".join(["SPEC", profile, str(mx), "1" if cmp_ else "0", "1" if dt else "0", fw.hexs(stream)])


def parse_run(ans):
    out = []
    for part in ans.split(" | "):
        e, s, p = part.split(";")
        evs = [] if e[2:] == "-" else e[2:].split(",")
        out.append((evs, s[2:], p[2:] == "1"))
    return out


def parse_spec(ans):
    e, o = ans.split(";")
    evs = [] if e[2:] == "-" else e[2:].split(",")
    o = o[2:]
    if o == "pending":
        return evs, "pending", None
    _, code, cls = o.split(":")
    return evs, code, cls


_DEVIATIONS: list = []


def flush_deviations(ctx, exe):
    """Every deviation from the RFC reference decoder is a violation (C12_refines_spec is a full theorem)."""
    global _DEVIATIONS
    devs, _DEVIATIONS = _DEVIATIONS, []
    for case, cfg, stream, obs, (sev, sst, scls), mobs in devs:
        same = (obs[0], obs[1]) == (mobs[0], mobs[1])
        ctx.count("deviation:" + str(scls or "accepted-by-reference"))
        ctx.violation(dict(case, kind="spec", spec_class=scls, matches_model=same,
                           spec=[sev, sst, scls], impl=[obs[0], obs[1]], model=[mobs[0], mobs[1]]),
                      f"reader differs from the RFC 6455/7692 reference decoder: impl delivered {obs[0]} then {obs[1]}; "
                      f"reference delivers {sev} then {sst}" + (f" ({scls})" if scls else "")
                      + ("" if same else f"; the model delivers {mobs[0]} then {mobs[1]}"))


# ------------------------------------------------------------------------------------------------
# suites

def cfgs_for(rng, stream_len, frames_payload_total, compress_used):
    out = [(0, compress_used, True)]
    out.append((4 * 1024 * 1024, compress_used, rng.random() < 0.5))
    t = frames_payload_total
    out.append((rng.choice([1, 2, 3, 7, 16, 40, 125, 126, 127]), compress_used, True))
    for d in rng.sample([-1, 0, 1], 2):
        if t + d > 0:
            out.append((t + d, compress_used, rng.random() < 0.7))
    return out


def gen_streams(ctx):
    """-> list of (label, stream bytes, compress, payload_total)"""
    rng = ctx.rng
    out = []
    nvalid = 70 if ctx.quick else 300
    for _ in range(nvalid):
        comp = rng.random() < 0.5
        frs = gen_valid(rng, comp)
        out.append(("valid", b"".join(frs), comp, sum(len(f) for f in frs)))
    ninj = 3 if ctx.quick else 8
    for _ in range(ninj):
        for comp in (False, True):
            base = gen_valid(rng, comp, nmsg=rng.randint(0, 2))
            vio = violations(rng, comp)
            for name, bad in vio.items():
                pos = rng.randint(0, len(base))
                # never splice into the middle of a fragmented message: positions are message boundaries
                frs = base[:pos] + bad + base[pos:]
                out.append(("inj:" + name, b"".join(frs), comp, sum(len(f) for f in frs)))
    # injection at each frame position of one fixed sequence (incl. inside a fragmented message)
    fixed = [frame(1, b"he", fin=0), frame(9, b"p"), frame(0, b"l", fin=0), frame(0, b"lo", fin=1), frame(2, b"\x00\x01"),
             frame(8, struct.pack("!H", 1000) + b"bye")]
    vio = violations(rng, False)
    for name, bad in vio.items():
        for pos in range(len(fixed) + 1):
            if ctx.quick and rng.random() < 0.5:
                continue
            frs = fixed[:pos] + bad + fixed[pos:]
            out.append(("pos:" + name, b"".join(frs), False, sum(len(f) for f in frs)))
    # a message whose non-final fragments are all empty, then ordinary frames, then a stray continuation, then more frames
    for _ in range(6 if ctx.quick else 60):
        op = rng.choice([1, 2])
        frs = [frame(op, b"", fin=0, mask=rmask(rng))]
        for _ in range(rng.randint(0, 2)):
            frs.append(frame(0, b"", fin=0, mask=rmask(rng)))
            if rng.random() < 0.3:
                frs.append(frame(9, rpayload(rng)))
        frs.append(frame(0, rng.choice([b"", b"x", b"hi"]), fin=1, mask=rmask(rng)))
        for _ in range(rng.randint(0, 2)):
            frs += [frame(rng.choice([9, 10]), rpayload(rng)), frame(rng.choice([1, 2]), rng.choice(TEXTS[1:5]))][: rng.randint(1, 2)]
        frs.append(frame(0, b"y", fin=rng.choice([0, 1, 1]), mask=rmask(rng)))
        frs += [frame(2, b"z"), frame(0, b"w")][: rng.randint(0, 2)]
        out.append(("empty-frags-then-stray-cont", b"".join(frs), False, sum(len(f) for f in frs)))
    # size boundaries: unfragmented and fragmented, plain and inflated
    for n in ([0, 1, 5, 124, 125, 126, 127, 300] if ctx.quick else [0, 1, 2, 5, 124, 125, 126, 127, 128, 300, 65535, 65536, 70000]):
        p = bytes(rng.randrange(256) for _ in range(n))
        out.append(("size", frame(2, p, mask=rmask(rng)), False, n))
        if n >= 2:
            out.append(("size-frag", frame(2, p[: n // 2], fin=0) + frame(9, b"") + frame(0, p[n // 2:]), False, n))
    for cnt in (3, 10, 40):
        out.append(("inflate", frame(2, bytes([cnt, 7]), rsv=4) + frame(1, bytes([cnt, 1, 2, 0]), rsv=4), True, cnt))
    # random bytes
    for _ in range(60 if ctx.quick else 1500):
        n = rng.randint(0, 24)
        b = bytearray(rng.randrange(256) for _ in range(n))
        if n >= 2 and rng.random() < 0.7:
            b[0] = rng.choice([0x81, 0x82, 0x01, 0x02, 0x80, 0x00, 0x88, 0x89, 0x8A, 0xC1, 0xC2])
            b[1] = rng.choice([0, 1, 2, 5, 125, 126, 127, 0x80, 0x81, 0x85, 0xFE, 0xFF])
        comp = rng.random() < 0.5
        out.append(("random", bytes(b), comp, n))
    return out


def corpus_cases():
    d = os.path.join(fw.VERIF, "corpus", PROP)
    out = []
    names = sorted(os.listdir(d), key=lambda n: (not n.startswith("fixed-"), n)) if os.path.isdir(d) else []
    for fn in names:
        if fn.endswith(".json"):
            p = json.load(open(os.path.join(d, fn)))
            out.append((fn, p.get("case", p)))
    return out


def check_case(ctx, exe, label, cfg, stream, seglist, spec_rfc, answers):
    """Correspondence (per feed, field by field) + oracle (vs whole-stream spec, segmentation independence)."""
    sev, sst, scls = spec_rfc
    ran = 0
    info = None
    first_impl = None
    for segs, ans in zip(seglist, answers):
        model = parse_run(ans)
        per, allev, status, stale = run_impl(cfg, segs)
        if first_impl is None:
            first_impl = (allev, status)
        ran += 1
        canon = (cfg, stream, tuple(len(s) for s in segs), tuple(allev), status)
        ctx.case(canon, nontrivial=bool(allev))
        ctx.count("status:" + status)
        case = {"suite": "reader", "label": label, "cfg": list(cfg), "stream": stream.hex(), "segs": [len(s) for s in segs]}
        # correspondence
        for i, ((mev, mst, mp), (iev, ist, ip, ok)) in enumerate(zip(model, per)):
            if mev != iev or mst != ist or mp != ip:
                ctx.disagreement("reader_state", dict(case, feed=i), f"E={mev} S={mst} P={mp}", f"E={iev} S={ist} P={ip}")
                break
            if not ok:
                ctx.violation(dict(case, kind="return-value", feed=i), "feed_data return value / message size field is not what the state implies")
                break
        # oracle 1: same outcome as the RFC reference decoder on the whole stream (classified in one batch later)
        if (allev, status) != (sev, sst):
            mev = [e for evs_, _, _ in model for e in evs_]
            mlast = model[-1][1] if model else "L"
            mstatus = mlast[2:] if mlast.startswith("X:") else "pending"
            _DEVIATIONS.append((case, cfg, stream, (allev, status), (sev, sst, scls), (mev, mstatus)))
        # oracle 3: inflation is bounded by the limit (memory under decompression)
        if cfg[0] and any(n > cfg[0] + 1 for _, n in INFLATED):
            ctx.violation(dict(case, kind="inflate-unbounded", inflated=max(n for _, n in INFLATED)),
                          f"a compressed message was inflated to {max(n for _, n in INFLATED)} bytes with max_msg_size={cfg[0]}")
        # oracle 2: nothing of a finished frame is retained
        if stale is not None:
            ctx.violation(dict(case, kind="stale-fragments", feed=stale),
                          "after a frame was completed _payload_fragments still holds entries (they are never released and count "
                          "towards the fragment cap that pauses the transport)")
    # oracle 4: the application's view through queue.read() — everything decoded before the first violation, then the
    # error — does not depend on when the application reads (eager, lagging by k, only after the last network read)
    eager_obs = None
    for segs in (seglist[0], seglist[-1]) if len(seglist) > 1 else (seglist[0],):
        for lag in (0, None, 1, 2):
            obs = run_consumer(cfg, segs, lag)
            ran += 1
            ctx.case(("consumer", cfg, stream, tuple(len(s) for s in segs), lag, tuple(obs[0]), obs[1]), nontrivial=bool(obs[0]))
            if eager_obs is None:
                eager_obs = obs
            if obs != eager_obs:
                ctx.violation({"suite": "consumer", "label": label, "cfg": list(cfg), "stream": stream.hex(),
                               "segs": [len(s) for s in segs], "lag": lag, "kind": "consumer-timing"},
                              f"what the application reads depends on when it reads: eager consumer of the first segmentation gets "
                              f"{eager_obs[0]} then {eager_obs[1]}; consumer with lag={lag} on cuts {[len(s) for s in segs][:8]} gets {obs[0]} then {obs[1]}")
                break
    if eager_obs is not None and first_impl is not None and eager_obs != first_impl:
        ctx.violation({"suite": "consumer", "label": label, "cfg": list(cfg), "stream": stream.hex(),
                       "segs": [len(s) for s in seglist[0]], "lag": 0, "kind": "consumer-vs-queue"},
                      f"queue.read() hands the application {eager_obs[0]} then {eager_obs[1]} but the reader put {first_impl[0]} then {first_impl[1]} on the queue")
    if sst != "pending":
        ctx.count("spec-class:" + str(scls))
    return ran


def suite_reader(ctx, exe):
    rng = ctx.rng
    ran = 0
    with _Backend(ToyBackend):
        jobs = []      # (label, stream, cfg, seglist)
        for fn, case in corpus_cases():
            if case.get("suite") == "stall":
                r = replay_stall(case)
                ran += 1
                ctx.case(("stall", case.get("frames"), r["stale_entries"]), nontrivial=True)
                if r["violates"] or r["pause_requested_with_empty_queue_at_frame"] is not None:
                    ctx.violation(dict(case, kind="stale-fragments"),
                                  f"{r['stale_entries']} stale entries in _payload_fragments after {r['frames']} two-read frames; "
                                  f"pause requested with an empty queue at frame {r['pause_requested_with_empty_queue_at_frame']}")
                continue
            if case.get("suite") != "reader":
                continue
            stream = bytes.fromhex(case["stream"])
            cfg = tuple(case["cfg"])
            segs = cut(stream, list(_acc(case["segs"]))[:-1]) if case.get("segs") else [stream]
            jobs.append(("corpus:" + fn, stream, cfg, [segs, [stream], [stream[i:i + 1] for i in range(len(stream))]]))
        budget_segs = 12 if ctx.quick else 10 ** 9
        for label, stream, comp, total in gen_streams(ctx):
            for cfg in cfgs_for(rng, len(stream), total, comp):
                segl = segmentations(rng, stream, ctx.quick)
                if len(segl) > budget_segs:
                    keep = [segl[0], segl[-1], segl[-2], segl[-3], segl[-4]]
                    rest = segl[1:-4]
                    segl = keep + rng.sample(rest, min(len(rest), budget_segs - len(keep)))
                jobs.append((label, stream, cfg, segl))
        specs = fw.run_model(exe, [spec_line("rfc", cfg, stream) for _, stream, cfg, _ in jobs])
        runs = fw.run_model(exe, [run_line(cfg, segs) for _, _, cfg, segl in jobs for segs in segl])
        k = 0
        for (label, stream, cfg, segl), sp in zip(jobs, specs):
            ctx.count("stream:" + label.split(":")[0])
            ran += check_case(ctx, exe, label, cfg, stream, segl, parse_spec(sp), runs[k:k + len(segl)])
            k += len(segl)
        flush_deviations(ctx, exe)
        ctx.sample({"suite": "reader", "label": jobs[-1][0], "cfg": list(jobs[-1][2]), "stream": jobs[-1][1].hex(), "spec": specs[-1]})
        ctx.sample({"suite": "reader", "label": jobs[0][0], "cfg": list(jobs[0][2]), "stream": jobs[0][1].hex(), "spec": specs[0], "run": runs[0]})
    ctx.close_suite("reader_state", ran)


def _acc(lens):
    t = 0
    for x in lens:
        t += x
        yield t


def suite_utf8(ctx, exe):
    rng = ctx.rng
    cases = [b""] + [bytes([a]) for a in range(256)] + [bytes([a, b]) for a in range(256) for b in range(256)]
    if not ctx.quick:
        for a in (0xE0, 0xE1, 0xEC, 0xED, 0xEE, 0xEF, 0xF0, 0xF1, 0xF3, 0xF4, 0xC2, 0x41):
            cases += [bytes([a, b, c]) for b in range(256) for c in range(256)]
    for _ in range(1500 if ctx.quick else 60000):
        base = bytearray(b"".join(rng.choice(TEXTS[1:] + BAD_UTF8) for _ in range(rng.randint(1, 4))))
        if rng.random() < 0.5 and base:
            base[rng.randrange(len(base))] = rng.randrange(256)
        if rng.random() < 0.3 and base:
            del base[rng.randrange(len(base))]
        cases.append(bytes(base))
    ans = fw.run_model(exe, ["UTF8 " + fw.hexs(c) for c in cases])
    ran = 0
    for c, a in zip(cases, ans):
        try:
            c.decode("utf-8")
            ok = "1"
        except UnicodeDecodeError:
            ok = "0"
        ran += 1
        ctx.case(("utf8", c), nontrivial=ok == "1")
        if a != ok:
            ctx.disagreement("utf8_validator", {"bytes": c.hex()}, a, ok)
    ctx.count("utf8:cases", ran)
    ctx.close_suite("utf8_validator", ran)


def suite_toy(ctx, exe):
    """ZLibDecompressor.decompress_sync over the toy backend == Model toy_decomp (state carried across calls)."""
    rng = ctx.rng
    from aiohttp.compression_utils import TooManyMembersError, ZLibDecompressor
    cases = []
    for _ in range(400 if ctx.quick else 8000):
        cap = rng.choice([0, 0, 1, 2, 5, 17, 300])
        chunks = []
        for _ in range(rng.randint(1, 4)):
            b = bytearray(toy_stream(rng, 3))
            if rng.random() < 0.3:
                b += bytes([rng.randrange(256)])
            if rng.random() < 0.1 and b:
                b[rng.randrange(len(b))] = rng.choice([253, 254, 255])
            chunks.append(bytes(b))
        cases.append((cap, chunks))
    ans = fw.run_model(exe, [" ".join(["TOY", str(cap)] + [fw.hexs(c) for c in chunks]) for cap, chunks in cases])
    ran = 0
    with _Backend(ToyBackend):
        for (cap, chunks), a in zip(cases, ans):
            d = ZLibDecompressor(suppress_deflate_header=True)
            outs = []
            dead = False
            for ch in chunks:
                if dead:
                    outs.append("DEAD")
                    continue
                try:
                    o = d.decompress_sync(ch, cap)
                    t = d._decompressor
                    outs.append("OK:" + fw.hexs(o) + f"/{t.a}/{'n' if t.pend is None else t.pend}/{binn(t.rem)}/{fw.hexs(t.unconsumed_tail)}")
                    if cap and len(o) > cap:
                        ctx.violation({"suite": "toy", "cap": cap, "chunks": [c.hex() for c in chunks]}, "decompress_sync returned more than max_length")
                except TooManyMembersError:
                    outs.append("TOOMANY")
                    dead = True
                except ToyError:
                    outs.append("ERR")
                    dead = True
            ran += 1
            ctx.case(("toy", cap, tuple(chunks)), nontrivial=not dead)
            if " ".join(outs) != a:
                ctx.disagreement("toy_codec_glue", {"cap": cap, "chunks": [c.hex() for c in chunks]}, a, " ".join(outs))
    ctx.close_suite("toy_codec_glue", ran)


def suite_zlib(ctx):
    """Real zlib: the oracle only (no model): known-answer round trips, segmentation independence, size cap,
    bounded inflation (law assumed of the codec: output <= max_length)."""
    rng = ctx.rng
    ran = 0
    with _Backend(None):
        for _ in range(60 if ctx.quick else 600):
            takeover = rng.random() < 0.7
            co = _real_zlib.compressobj(wbits=-15)
            msgs = []
            frames = []
            for _ in range(rng.randint(1, 4)):
                op = rng.choice([1, 2])
                body = (b"".join(rng.choice(TEXTS[1:]) for _ in range(rng.randint(0, 30))) if op == 1
                        else bytes(rng.randrange(4) for _ in range(rng.randint(0, 400))))
                if rng.random() < 0.15:
                    body = b"\0" * rng.choice([1000, 5000, 70000])
                    op = 2
                use = rng.random() < 0.8
                if use:
                    if not takeover:
                        co = _real_zlib.compressobj(wbits=-15)
                    z = co.compress(body) + co.flush(_real_zlib.Z_SYNC_FLUSH if takeover else _real_zlib.Z_FULL_FLUSH)
                    assert z.endswith(b"\x00\x00\xff\xff")
                    wire = z[:-4]
                else:
                    wire = body
                k = rng.randint(0, len(wire))
                if rng.random() < 0.4:
                    frames += [frame(op, wire[:k], fin=0, rsv=4 if use else 0, mask=rmask(rng)), frame(0, wire[k:], fin=1, mask=rmask(rng))]
                else:
                    frames.append(frame(op, wire, rsv=4 if use else 0, mask=rmask(rng)))
                msgs.append((op, body, len(wire)))
            stream = b"".join(frames)
            biggest = max(len(b) for _, b, _ in msgs)
            for mx in (0, biggest + 1, max(1, biggest), max(1, biggest - 1), 4 * 1024 * 1024):
                cfg = (mx, True, True)
                # expected by the documented meaning of max_msg_size on the inflated message; the wire-size test is
                # compared through the model elsewhere, so only cases where the wire size is clearly below are asserted
                exp = []
                exp_status = "pending"
                for op, body, wl in msgs:
                    if mx and len(body) > mx:
                        exp_status = "1009"
                        break
                    if mx and wl > mx:
                        exp = None     # compressed form larger than the limit although the message fits: refused on the wire size
                        break
                    exp.append(("T:" if op == 1 else "B:") + fw.hexs(body))
                results = []
                for segs in segmentations(rng, stream, True)[: (6 if ctx.quick else 40)]:
                    per, allev, status, stale = run_impl(cfg, segs)
                    results.append((allev, status))
                    if mx and any(n > mx + 1 for _, n in INFLATED):
                        ctx.violation({"suite": "zlib", "kind": "inflate-unbounded", "cfg": list(cfg), "stream": stream.hex()},
                                      f"real zlib: inflated to {max(n for _, n in INFLATED)} bytes with max_msg_size={mx}")
                    ran += 1
                    ctx.case(("zlib", cfg, stream, tuple(len(s) for s in segs)), nontrivial=bool(allev))
                case = {"suite": "zlib", "cfg": list(cfg), "stream": stream.hex()}
                if any(r != results[0] for r in results):
                    ctx.violation(dict(case, kind="segmentation"), f"outcome depends on segmentation (real zlib): {set(map(str, results))}")
                elif exp is not None and results[0] != (exp, exp_status):
                    ctx.violation(dict(case, kind="zlib-known-answer"), f"real zlib pass: expected {exp} then {exp_status}, got {results[0]}")
        # inflation is bounded: a deflate bomb never yields more than max_msg_size + 1 bytes from decompress_sync
        from aiohttp.compression_utils import ZLibDecompressor
        for mx in (1, 100, 4096, 65536):
            co = _real_zlib.compressobj(wbits=-15)
            z = co.compress(b"\0" * (mx * 50 + 1000)) + co.flush(_real_zlib.Z_SYNC_FLUSH)
            d = ZLibDecompressor(suppress_deflate_header=True)
            o = d.decompress_sync(z, mx + 1)
            ran += 1
            ctx.case(("bomb", mx), nontrivial=True)
            if len(o) > mx + 1:
                ctx.violation({"suite": "zlib", "kind": "cap", "max": mx}, f"decompress_sync(max_length={mx + 1}) returned {len(o)} bytes")
            per, allev, status, _ = run_impl((mx, True, True), [frame(2, z[:-4], rsv=4)])
            if allev or status != "1009":
                ctx.violation({"suite": "zlib", "kind": "bomb", "max": mx}, f"deflate bomb not refused with 1009: {allev} {status}")
    ctx.count("suite:zlib_oracle", ran)


def suite_memory(ctx):
    """Property oracle on the implementation alone: bytes retained between calls never exceed
    max_msg_size + 125 + 13 (partial + fragments of the frame in progress + tail), for adversarial drip feeds."""
    rng = ctx.rng
    ran = 0
    with _Backend(ToyBackend):
        for _ in range(40 if ctx.quick else 600):
            mx = rng.choice([1, 8, 64, 300, 1000])
            im = Impl(mx, rng.random() < 0.5, False)
            worst = 0
            feeds = []
            for _ in range(rng.randint(5, 60)):
                if im.r._exc is not None:
                    break
                # attacker: fragments just under the cap, interleaved controls, huge declared lengths fed slowly
                choice = rng.random()
                partial = len(im.r._partial)
                if choice < 0.5:
                    n = max(0, min(mx - partial - rng.choice([1, 1, 2, 0]), rng.choice([mx, 3, 1, 0])))
                    f = frame(0 if im.r._opcode != -1 else rng.choice([1, 2]), bytes(n), fin=0)
                elif choice < 0.7:
                    f = frame(9, bytes(rng.choice([0, 125])))
                else:
                    n = rng.choice([mx - 1, mx, mx + 1, 2 ** 20, 2 ** 40])
                    f = frame(2 if im.r._opcode == -1 else 0, b"", fin=0, lenform=rng.choice([16, 64]), declared=max(0, n))[: rng.randint(1, 10)]
                step = rng.choice([1, 2, 7, len(f)])
                for i in range(0, len(f), step):
                    im.feed(f[i:i + step])
                    feeds.append(f[i:i + step].hex())
                    r = im.r
                    kept = len(r._partial) + sum(len(x) for x in r._payload_fragments) + len(r._tail)
                    worst = max(worst, kept)
            ran += 1
            ctx.case(("mem", mx, worst), nontrivial=True)
            if worst > mx + 125 + 13:
                ctx.violation({"suite": "memory", "max": mx, "feeds": feeds}, f"retained {worst} bytes with max_msg_size={mx}")
    ctx.count("suite:memory_oracle", ran)


def run(ctx):
    global _LOOP
    import asyncio
    ok, exe = build_model()
    ctx.oblige("model-runner-build", "correspondence", ok, "" if ok else exe)
    if not ok:
        return
    _LOOP = asyncio.new_event_loop()
    try:
        suite_utf8(ctx, exe)
        suite_toy(ctx, exe)
        suite_reader(ctx, exe)
        suite_zlib(ctx)
        suite_memory(ctx)
    finally:
        _LOOP.close()
        _LOOP = None


# ------------------------------------------------------------------------------------------------
# replay

def replay_stall(case):
    """Known finding: frames whose header ends a read leave one empty entry each in _payload_fragments; once
    there are more than _max_fragments the reader pauses the transport although the queue is empty."""
    import asyncio
    global _LOOP
    _LOOP = _LOOP or asyncio.new_event_loop()
    mx = case.get("max", 1024)
    n = case.get("frames", 1100)
    im = Impl(mx, False, False)
    paused_at = None
    for i in range(n):
        f = frame(2, b"ab")
        im.feed(f[:2])
        if im.pauses and paused_at is None:
            paused_at = i
        im.feed(f[2:])
    entries = len(im.r._payload_fragments)
    return {"violates": entries > 0 or paused_at is not None, "stale_entries": entries, "frames": n,
            "pause_requested_with_empty_queue_at_frame": paused_at, "max_fragments": im.r._max_fragments}


def replay_stall_e2e(nframes, max_msg):
    """Same finding through a real web.WebSocketResponse server on an in-memory transport: after _max_fragments
    frames whose header and payload arrive in two reads the transport is paused and the handler stops receiving."""
    import asyncio
    import base64
    from aiohttp import web
    from harness.common.loop import VLoop
    from harness.common.transport import start_server

    async def main(loop):
        got = []

        async def handler(request):
            ws = web.WebSocketResponse(max_msg_size=max_msg, heartbeat=None, autoping=False)
            await ws.prepare(request)
            async for m in ws:
                got.append(m.data)
            return ws
        app = web.Application()
        app.router.add_get("/ws", handler)
        runner, connect = await start_server(app, loop)
        proto, tr = connect()
        key = base64.b64encode(bytes(range(16))).decode()
        proto.data_received(("GET /ws HTTP/1.1\r\nHost: x\r\nUpgrade: websocket\r\nConnection: Upgrade\r\n"
                             f"Sec-WebSocket-Key: {key}\r\nSec-WebSocket-Version: 13\r\n\r\n").encode())
        for _ in range(5):
            await asyncio.sleep(0)
        unread = 0
        mask = b"\x01\x02\x03\x04"
        for _ in range(nframes):
            f = frame(2, b"ab", mask=mask)
            for part in (f[:6], f[6:]):
                if tr.reading:
                    proto.data_received(part)
                else:
                    unread += 1       # a real transport does not read while paused
                for _ in range(3):
                    await asyncio.sleep(0)
        res = {"messages_received_by_handler": len(got), "transport_reading": tr.reading, "reads_never_delivered": unread}
        tr.peer_close()
        for _ in range(5):
            await asyncio.sleep(0)
        return res
    loop = VLoop()
    asyncio.set_event_loop(loop)
    try:
        return loop.run_until_complete(main(loop))
    finally:
        asyncio.set_event_loop(None)
        loop.close()


def replay(ctx, case):
    global _LOOP
    import asyncio
    if case.get("suite") == "stall":
        r = replay_stall(case)
        try:
            r["end_to_end_server"] = replay_stall_e2e(case.get("frames", 1100), case.get("max", 1024))
        except Exception as e:  # noqa
            r["end_to_end_server"] = f"not run: {e!r}"
        return r
    ok, exe = build_model()
    _LOOP = _LOOP or asyncio.new_event_loop()
    if case.get("suite") == "consumer":
        stream = bytes.fromhex(case["stream"])
        cfg = tuple(case["cfg"])
        segs = cut(stream, list(_acc(case["segs"]))[:-1]) if case.get("segs") else [stream]
        with _Backend(ToyBackend):
            per, allev, status, _ = run_impl(cfg, segs)
            views = {str(lag): run_consumer(cfg, segs, lag) for lag in (0, 1, 2, None)}
            views["eager, byte at a time"] = run_consumer(cfg, [stream[i:i + 1] for i in range(len(stream))], 0)
        spec = parse_spec(fw.run_model(exe, [spec_line("rfc", cfg, stream)])[0])
        bad = sorted(k for k, v in views.items() if v != (allev, status))
        return {"put_on_queue_by_reader": [allev, status], "reference_rfc": list(spec), "application_reads (by lag)": views,
                "violates": bool(bad), "why": [f"consumer with lag={k} does not get what the reader delivered" for k in bad]}
    if case.get("suite") == "reader":
        stream = bytes.fromhex(case["stream"])
        cfg = tuple(case["cfg"])
        segs = cut(stream, list(_acc(case["segs"]))[:-1]) if case.get("segs") else [stream]
        with _Backend(ToyBackend):
            per, allev, status, stale = run_impl(cfg, segs)
            infl = list(INFLATED)
            one = run_impl(cfg, [stream])
        model = fw.run_model(exe, [run_line(cfg, segs), spec_line("rfc", cfg, stream), spec_line("aio", cfg, stream)])
        sev, sst, scls = parse_spec(model[1])
        bad = []
        mrun0 = parse_run(model[0])
        mev = [e for evs_, _, _ in mrun0 for e in evs_]
        mstatus = mrun0[-1][1][2:] if mrun0 and mrun0[-1][1].startswith("X:") else "pending"
        if (allev, status) != (sev, sst):
            bad.append("differs from reference decoder")
        if (allev, status) != (one[1], one[2]):
            bad.append("depends on segmentation")
        if stale is not None:
            bad.append("stale fragment entries")
        if cfg[0] and any(n > cfg[0] + 1 for _, n in infl):
            bad.append(f"inflated {max(n for _, n in infl)} bytes with max_msg_size={cfg[0]}")
        if not all(ok for _, _, _, ok in per):
            bad.append("feed_data return value / size field")
        mrun = parse_run(model[0])
        model_differs = [(e, s_, p_) for e, s_, p_, _ in per] != mrun      # correspondence, not a property violation
        return {"model_and_implementation_differ": model_differs, "impl": [allev, status], "impl_one_shot": [one[1], one[2]], "reference_rfc": [sev, sst, scls],
                "reference_aiohttp_profile": model[2], "model_run": model[0], "stale_fragment_feed": stale,
                "violates": bool(bad), "why": bad}
    return {"violates": None, "note": "this suite is regenerated from the seed; re-run with --seed"}
