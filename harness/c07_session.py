"""C07, session level: the CALL SITES of the pool API (ClientSession._request, ClientResponse /
ClientRequest release paths, TCPConnector proxy tunnel set-up) must hand every connection back.

Oracle only (no model): a real ClientSession over a TCPConnector whose _create_direct_connection returns
in-memory transports that play a scripted origin / HTTP proxy.  A *scenario* is a connector configuration
plus a list of request specs executed one after the other; after every request has finished (returned and
been consumed the way the spec says, failed, timed out or been cancelled after N loop iterations) the
harness checks, independently of the connector's own logic:
  * nothing is counted in `_acquired` / `_acquired_per_host` except connections of responses the caller
    still legitimately holds (returned, not complete, not released);
  * every transport the connection factory ever created is closed, or idle in `_conns`, or held as above;
  * no waiter is queued; a follow-up request gets a slot;
  * after session.close() every created transport is closed.
Exceptions (e.g. TooManyRedirects with its history) are kept alive until the end of the scenario, as an
application that logs them would.
"""
from __future__ import annotations

import asyncio
import re
import warnings

HIGH_WATER = 1024
BODY = b"<html>moved, see the Location header</html>"


class SrvTransport(asyncio.Transport):
    """In-memory peer (origin or proxy).  Behaviour is read from the request path:
      /redir/<n>/<mode>     n>0: 302 -> /redir/<n-1>/<mode>, else 200; <mode> = how the body of the 3xx arrives
      /ok/<mode>            200
         modes: empty | full | partial (head + first bytes now, rest 60 virtual s later) |
                chunkpart (chunked, last chunk 60 s later) | eofbody (no length, peer never closes) |
                closedelim / http10 (no length, the peer closes after the body) | fulldrop (complete body, then the
                peer drops the connection at once) | dropmid (peer drops in the middle of the body)
      /ws/<variant>         WebSocket upgrade answered per variant (see _ws)
      /early/<status>/<keep|close>   the peer does not read the request body (write side pauses above
                HIGH_WATER) and answers at once: 204, 200 (empty) or 307 -> /ok/full
      /reset                the peer closes the connection after the request head
      /garbage              the peer answers with bytes that are not HTTP
      /hang                 the peer never answers
    A proxy answers CONNECT according to world.connect_mode: 200 | 407 | 403 | 502 | reset | garbage | hang."""

    def __init__(self, world, proto, loop):
        super().__init__()
        self.world, self.proto, self.loop = world, proto, loop
        self.closing = False
        self.buf = b""
        self.swallow = False
        self.buffered = 0
        self.tunnel = False
        self.timers = []

    # -- transport API
    def set_protocol(self, p):
        self.proto = p

    def get_protocol(self):
        return self.proto

    def is_closing(self):
        return self.closing

    def close(self):
        if not self.closing:
            self.closing = True
            for h in self.timers:
                h.cancel()
            self.loop.call_soon(self.proto.connection_lost, None)

    abort = close

    def peer_close(self):
        if not self.closing:
            self.closing = True
            self.proto.connection_lost(None)

    def get_extra_info(self, name, default=None):
        return default

    def get_write_buffer_size(self):
        return self.buffered

    def pause_reading(self):
        pass

    def resume_reading(self):
        pass

    def is_reading(self):
        return True

    def writelines(self, chunks):
        self.write(b"".join(bytes(c) for c in chunks))

    def write(self, data):
        if self.closing:
            return
        data = bytes(data)
        if self.swallow:
            self.buffered += len(data)
            if self.buffered > HIGH_WATER and not self.proto._paused:
                self.proto.pause_writing()
            return
        if getattr(self, "ws_open", False):
            # upgraded: answer whatever the client sends (its close frame) with a close frame 1000
            self.loop.call_soon(self.feed, b"\x88\x02\x03\xe8")
            return
        self.buf += data
        self._process()

    def feed(self, data):
        if not self.closing:
            self.proto.data_received(data)

    def later(self, delay, data):
        self.timers.append(self.loop.call_later(delay, self.feed, data))

    # -- the scripted peer
    def _process(self):
        while not self.closing and not self.swallow:
            while self.buf.startswith(b"0\r\n\r\n"):
                # the GET hop after a redirected chunked POST carries a stray chunked terminator without a
                # Transfer-Encoding header (framing defect of the unchanged tree, C02/C04 territory): skip it
                self.buf = self.buf[5:]
            i = self.buf.find(b"\r\n\r\n")
            if i < 0:
                return
            head = self.buf[:i + 4]
            lower = head.lower()
            line = head.split(b"\r\n", 1)[0].split(b" ")
            method, target = line[0], line[1].decode()
            path = re.sub(r"^https?://[^/]+", "", target) or "/"
            if method == b"CONNECT":
                self.buf = self.buf[i + 4:]
                self._connect()
                continue
            if path.startswith("/ws/"):
                self.buf = self.buf[i + 4:]
                self._ws(path.split("/")[2], head)
                continue
            if path.startswith("/early/"):
                rest = self.buf[i + 4:]
                self.buf = b""
                self.swallow = True
                self.buffered = len(rest)
                _, _, status, keep = path.split("/")
                conn = b"" if keep == "keep" else b"Connection: close\r\n"
                if status == "307":
                    ans = b"HTTP/1.1 307 Temporary Redirect\r\nLocation: /ok/full\r\nContent-Length: 0\r\n" + conn + b"\r\n"
                elif status == "204":
                    ans = b"HTTP/1.1 204 No Content\r\n" + conn + b"\r\n"
                else:
                    ans = b"HTTP/1.1 200 OK\r\nContent-Length: 0\r\n" + conn + b"\r\n"
                self.loop.call_soon(self.feed, ans)
                return
            # a well-behaved exchange: wait for the complete request body
            m = re.search(rb"content-length:\s*(\d+)", lower)
            if b"transfer-encoding: chunked" in lower:
                j = self.buf.find(b"0\r\n\r\n", i + 4)
                if j < 0:
                    return
                end = j + 5
            else:
                end = i + 4 + (int(m.group(1)) if m else 0)
                if len(self.buf) < end:
                    return
            self.buf = self.buf[end:]
            self._answer(path)

    def _ws(self, variant, head):
        """Answer a WebSocket upgrade.  variant: ok | deflate | ext_bad | ext_wbits | ext_other | proto_ok |
        proto_unknown | status200 | status403 | bad_upgrade | bad_connection | bad_accept | no_accept"""
        import base64
        import hashlib
        m = re.search(rb"sec-websocket-key:\s*(\S+)", head, re.I)
        key = m.group(1) if m else b""
        accept = base64.b64encode(hashlib.sha1(key + b"258EAFA5-E914-47DA-95CA-C5AB0DC85B11").digest())
        lines = {"status": b"HTTP/1.1 101 Switching Protocols", "upgrade": b"Upgrade: websocket",
                 "connection": b"Connection: upgrade", "accept": b"Sec-WebSocket-Accept: " + accept}
        extra = []
        if variant == "deflate":
            extra.append(b"Sec-WebSocket-Extensions: permessage-deflate")
        elif variant == "ext_bad":
            extra.append(b"Sec-WebSocket-Extensions: permessage-deflate; unknown_parameter=1")
        elif variant == "ext_wbits":
            extra.append(b"Sec-WebSocket-Extensions: permessage-deflate; server_max_window_bits=20")
        elif variant == "ext_other":
            extra.append(b"Sec-WebSocket-Extensions: x-not-deflate")
        elif variant == "proto_ok":
            extra.append(b"Sec-WebSocket-Protocol: chat")
        elif variant == "proto_unknown":
            extra.append(b"Sec-WebSocket-Protocol: zzz")
        elif variant == "status200":
            lines["status"] = b"HTTP/1.1 200 OK"
            extra.append(b"Content-Length: 0")
        elif variant == "status403":
            lines["status"] = b"HTTP/1.1 403 Forbidden"
            extra.append(b"Content-Length: 0")
        elif variant == "bad_upgrade":
            lines["upgrade"] = b"Upgrade: h2c"
        elif variant == "bad_connection":
            lines["connection"] = b"Connection: keep-alive"
        elif variant == "bad_accept":
            lines["accept"] = b"Sec-WebSocket-Accept: AAAAAAAAAAAAAAAAAAAAAAAAAAA="
        elif variant == "no_accept":
            del lines["accept"]
        if lines["status"].startswith(b"HTTP/1.1 101"):
            self.ws_open = True
        self.loop.call_soon(self.feed, b"\r\n".join(list(lines.values()) + extra) + b"\r\n\r\n")

    def _connect(self):
        mode = self.world.connect_mode
        if mode == "200":
            self.tunnel = True
            self.loop.call_soon(self.feed, b"HTTP/1.1 200 Connection established\r\n\r\n")
        elif mode in ("407", "403", "502"):
            self.loop.call_soon(self.feed, b"HTTP/1.1 " + mode.encode() + b" Refused\r\nProxy-Authenticate: Basic realm=x\r\n"
                                b"Content-Length: 0\r\n\r\n")
        elif mode == "reset":
            self.loop.call_soon(self.peer_close)
        elif mode == "garbage":
            self.loop.call_soon(self.feed, b"\x00\x01 not http\r\n\r\n")
        # "hang": nothing

    def _answer(self, path):
        parts = path.strip("/").split("/")
        kind = parts[0]
        if kind == "reset":
            self.loop.call_soon(self.peer_close)
            return
        if kind == "garbage":
            self.loop.call_soon(self.feed, b"\x00\x01 not http\r\n\r\n")
            return
        if kind == "hang":
            return
        if kind == "redir":
            n, mode = int(parts[1]), parts[2]
            if n > 0:
                start = b"HTTP/1.1 302 Found\r\nLocation: /redir/%d/%s\r\n" % (n - 1, mode.encode())
            else:
                start, mode = b"HTTP/1.1 200 OK\r\n", "full"
        else:
            mode = parts[1] if len(parts) > 1 else "full"
            start = b"HTTP/1.1 200 OK\r\n"
        if mode == "empty":
            self.loop.call_soon(self.feed, start + b"Content-Length: 0\r\n\r\n")
        elif mode == "full":
            self.loop.call_soon(self.feed, start + b"Content-Length: %d\r\n\r\n" % len(BODY) + BODY)
        elif mode == "partial":
            self.loop.call_soon(self.feed, start + b"Content-Length: %d\r\n\r\n" % len(BODY) + BODY[:10])
            self.later(60, BODY[10:])
        elif mode == "chunkpart":
            self.loop.call_soon(self.feed, start + b"Transfer-Encoding: chunked\r\n\r\na\r\n" + BODY[:10] + b"\r\n")
            self.later(60, b"0\r\n\r\n")
        elif mode == "eofbody":
            self.loop.call_soon(self.feed, start + b"\r\n" + BODY[:10])
        elif mode == "closedelim":       # body delimited by the end of the connection: EOF arrives from connection_lost
            self.loop.call_soon(self.feed, start + b"Connection: close\r\n\r\n" + BODY)
            self.timers.append(self.loop.call_later(0.01, self.peer_close))
        elif mode == "http10":
            self.loop.call_soon(self.feed, start.replace(b"HTTP/1.1", b"HTTP/1.0") + b"\r\n" + BODY)
            self.timers.append(self.loop.call_later(0.01, self.peer_close))
        elif mode == "fulldrop":         # complete body, then the peer drops the connection right away
            self.loop.call_soon(self.feed, start + b"Content-Length: %d\r\n\r\n" % len(BODY) + BODY)
            self.loop.call_soon(self.peer_close)
        elif mode == "dropmid":          # the peer drops the connection in the middle of the body
            self.loop.call_soon(self.feed, start + b"Content-Length: %d\r\n\r\n" % len(BODY) + BODY[:10])
            self.timers.append(self.loop.call_later(0.01, self.peer_close))
        else:
            self.loop.call_soon(self.feed, start + b"Content-Length: 0\r\n\r\n")


class World:
    def __init__(self, connect_mode="200"):
        self.connect_mode = connect_mode
        self.transports: list[SrvTransport] = []


def make_session(loop, world, limit, lph, force_close=False):
    import aiohttp
    from aiohttp.abc import AbstractResolver
    from aiohttp.client_proto import ResponseHandler

    class NoResolver(AbstractResolver):
        async def resolve(self, host, port=0, family=0):
            raise OSError("no DNS in the harness")

        async def close(self):
            pass

    class SessConnector(aiohttp.TCPConnector):
        async def _create_direct_connection(self, req, traces, timeout, *, client_error=None):
            await asyncio.sleep(0)
            proto = ResponseHandler(loop=loop)
            tr = SrvTransport(world, proto, loop)
            proto.connection_made(tr)
            world.transports.append(tr)
            return tr, proto

        async def _start_tls_connection(self, underlying_transport, req, timeout, client_error=None):
            # stand-in for loop.start_tls on an in-memory transport: a fresh protocol on the same transport
            tls_proto = self._factory()
            underlying_transport.set_protocol(tls_proto)
            tls_proto.connection_made(underlying_transport)
            return underlying_transport, tls_proto

        def _get_ssl_context(self, req):
            return None

    conn = SessConnector(limit=limit, limit_per_host=lph, force_close=force_close, use_dns_cache=False,
                         resolver=NoResolver())
    return conn, aiohttp.ClientSession(connector=conn)


async def settle(n=12):
    for _ in range(n):
        await asyncio.sleep(0)


def _body(spec):
    b = spec.get("body")
    if b == "gen":
        async def gen():
            for _ in range(4):
                yield b"x" * 1000
        return {"data": gen()}
    if b == "chunked":
        return {"data": b"y" * 4000, "chunked": True}
    if b == "bytes":
        return {"data": b"z" * 300}
    return {}


def check(world, connector, held, where, out, closed=False):
    """The implementation-level oracle.  held: responses the caller still holds (returned, not complete)."""
    allowed = set()
    for r in held:
        c = getattr(r, "_connection", None)
        if c is not None and not r.closed and c.protocol is not None:
            allowed.add(c.protocol)
    extra = [p for p in connector._acquired if p not in allowed]
    if extra and not closed:
        out.append(({"kind": "session_slot_leak", "where": where, "count": len(extra)},
                    f"{where}: {len(extra)} connection(s) still counted as in use although no request holds them"))
    per = sum(len(v) for v in connector._acquired_per_host.values())
    if per > len(connector._acquired) and not closed:
        out.append(({"kind": "session_slot_leak", "where": where, "per_host": per},
                    f"{where}: {per} connection(s) counted per host, {len(connector._acquired)} in total"))
    idle = {p for d in connector._conns.values() for p, _ in d}
    stray = [i for i, tr in enumerate(world.transports)
             if not tr.closing and tr.proto not in idle and tr.proto not in allowed]
    if stray:
        out.append(({"kind": "session_transport_leak" if not closed else "session_close_leaves_open", "where": where, "transports": stray},
                    f"{where}: transport(s) {stray} created by the connector are open but neither pooled nor held by a request"))
    w = sum(len(v) for v in connector._waiters.values())
    if w:
        out.append(({"kind": "session_waiter_left", "where": where, "count": w}, f"{where}: {w} waiter(s) still queued"))


async def run_scenario(loop, sc):
    """sc = {limit, lph, force_close, connect_mode, requests: [spec...]}; -> (violations, log)"""
    import aiohttp
    warnings.simplefilter("ignore")
    world = World(sc.get("connect_mode", "200"))
    connector, session = make_session(loop, world, sc["limit"], sc["lph"], bool(sc.get("force_close")))
    out: list = []
    log: list = []
    keep_alive: list = []      # exceptions and finished responses stay referenced, like an application that logs them
    held: list = []
    try:
        for idx, spec in enumerate(sc["requests"]):
            url = ("https" if spec.get("https") else "http") + "://" + spec.get("host", "srv.example") + spec["path"]
            kw = dict(_body(spec))
            if spec.get("proxy"):
                kw["proxy"] = "http://proxy.example:3128"
            if "max_redirects" in spec:
                kw["max_redirects"] = spec["max_redirects"]
            consume = spec.get("consume", "read")

            async def one_ws():
                ws = await session.ws_connect(url, compress=spec.get("compress", 0), protocols=tuple(spec.get("protocols", ())),
                                              timeout=aiohttp.ClientWSTimeout(ws_close=1.0), **({"proxy": kw["proxy"]} if "proxy" in kw else {}))
                try:
                    if consume != "status":
                        await ws.close()
                    else:
                        ws._response.close()
                except BaseException:
                    ws._response.close()
                    raise
                return ws._response

            async def one():
                if spec.get("ws"):
                    return await one_ws()
                resp = await session.request(spec.get("method", "GET"), url, **kw)
                try:
                    if consume == "read":
                        await resp.read()
                    elif consume == "release":
                        resp.release()
                    elif consume == "close":
                        resp.close()
                    elif consume == "ctx":
                        async with resp:
                            pass
                    # "status": the caller only looks at the status
                except BaseException:
                    resp.close()
                    raise
                return resp

            task = asyncio.ensure_future(one())
            outcome = None
            try:
                if spec.get("cancel_after") is not None:
                    for _ in range(spec["cancel_after"]):
                        if task.done():
                            break
                        await asyncio.sleep(0)
                    if not task.done():
                        task.cancel()
                    res = (await asyncio.gather(task, return_exceptions=True))[0]
                    if isinstance(res, BaseException):
                        raise res
                    resp = res
                else:
                    resp = await asyncio.wait_for(task, spec.get("timeout", 5))
                outcome = f"status {resp.status}"
                keep_alive.append(resp)
                if consume == "status":
                    await settle()
                    if not resp.closed:
                        held.append(resp)
            except asyncio.CancelledError:
                outcome = "cancelled"
            except asyncio.TimeoutError as e:
                outcome = "timeout"
                keep_alive.append(e)
            except aiohttp.ClientError as e:
                outcome = type(e).__name__
                keep_alive.append(e)
            except Exception as e:  # noqa
                outcome = "unexpected:" + type(e).__name__
                keep_alive.append(e)
                out.append(({"kind": "session_unexpected_exception", "exc": repr(e)[:200]}, f"request {idx}: unexpected {e!r}"))
            await settle()
            log.append(outcome)
            check(world, connector, held, f"after request {idx} ({outcome})", out)
        # a follow-up request must get a slot (nobody is active except responses the caller holds)
        if not held:
            try:
                r = await asyncio.wait_for(session.get("http://probe.example/ok/empty"), 5)
                r.release()
                log.append("probe ok")
            except asyncio.TimeoutError:
                log.append("probe timeout")
                out.append(({"kind": "session_followup_blocked"},
                            "a follow-up request waits for a slot forever although no request is active"))
            except aiohttp.ClientError as e:
                log.append("probe " + type(e).__name__)
            await settle()
        for r in held:
            r.release()
        held.clear()
        await settle()
        check(world, connector, held, "after all responses were released", out)
    finally:
        await session.close()
        await settle()
    check(world, connector, [], "after session.close()", out, closed=True)
    still = [i for i, tr in enumerate(world.transports) if not tr.closing]
    if still and not any(v[0]["kind"] == "session_close_leaves_open" for v in out):
        out.append(({"kind": "session_close_leaves_open", "transports": still},
                    f"after session.close() transports {still} of {len(world.transports)} created are still open"))
    del keep_alive
    # one finding per kind is enough for a replay
    seen, uniq = set(), []
    for v, w in out:
        if v["kind"] not in seen:
            seen.add(v["kind"])
            uniq.append((v, w))
    return uniq, log


def run(sc):
    from harness.common.loop import VLoop
    loop = VLoop()
    asyncio.set_event_loop(loop)
    try:
        return loop.run_until_complete(run_scenario(loop, sc))
    finally:
        try:
            pending = [t for t in asyncio.all_tasks(loop) if not t.done()]
            for t in pending:
                t.cancel()
            if pending:
                loop.run_until_complete(asyncio.gather(*pending, return_exceptions=True))
        finally:
            asyncio.set_event_loop(None)
            loop.close()


# ---- generation ------------------------------------------------------------------------------------

MODES = ["empty", "full", "partial", "chunkpart", "eofbody", "closedelim", "http10", "fulldrop", "dropmid"]
WS_VARIANTS = ["ok", "deflate", "ext_bad", "ext_wbits", "ext_other", "proto_ok", "proto_unknown", "status200", "status403",
               "bad_upgrade", "bad_connection", "bad_accept", "no_accept"]


def gen_request(rng):
    r = rng.random()
    spec: dict = {}
    if r < 0.16:
        v = rng.choice(WS_VARIANTS)
        spec.update({"ws": True, "path": f"/ws/{v}", "compress": rng.choice([0, 15, 15, 9]),
                     "protocols": rng.choice([[], ["chat"], ["chat", "v2"]]), "consume": rng.choice(["close", "close", "status"]),
                     "host": rng.choice(["srv.example", "b.example"])})
        if rng.random() < 0.2:
            spec["cancel_after"] = rng.randint(0, 10)
        return spec
    if r < 0.36:
        n = rng.randint(1, 4)
        spec["path"] = f"/redir/{n}/{rng.choice(MODES[:4] + MODES[5:8])}"
        spec["max_redirects"] = rng.choice([n - 1, n, n + 1, 10]) or 1
    elif r < 0.56:
        spec["path"] = f"/ok/{rng.choice(MODES)}"
    elif r < 0.74:
        spec["path"] = f"/early/{rng.choice(['204', '307', '200'])}/{rng.choice(['keep', 'close'])}"
        spec["method"] = "POST"
        spec["body"] = rng.choice(["gen", "chunked", "bytes"])
    elif r < 0.82:
        spec["path"] = rng.choice(["/reset", "/garbage", "/hang"])
    else:
        spec["path"] = f"/ok/{rng.choice(MODES[:3] + MODES[5:8])}"
        spec["proxy"] = True
        spec["https"] = rng.random() < 0.75
    if "method" not in spec and rng.random() < 0.2:
        spec["method"] = "POST"
        spec["body"] = rng.choice(["gen", "chunked", "bytes"])
    spec["consume"] = rng.choice(["read", "read", "release", "close", "ctx", "status"])
    if rng.random() < 0.25:
        spec["cancel_after"] = rng.randint(0, 14)
    spec["host"] = rng.choice(["srv.example", "srv.example", "b.example"])
    return spec


def gen_scenario(rng):
    return {"limit": rng.choice([1, 1, 2, 0]), "lph": rng.choice([0, 0, 1]), "force_close": 1 if rng.random() < 0.1 else 0,
            "connect_mode": rng.choice(["200", "407", "403", "502", "reset", "garbage", "hang"]),
            "requests": [gen_request(rng) for _ in range(rng.randint(1, 4))]}
