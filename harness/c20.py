"""C20 — application lifecycle: cleanup runs exactly for what started; shutdown drains.

Suite `lifecycle`: registration trees (cleanup contexts, on_startup/on_shutdown/on_cleanup receivers,
sub-applications) x failure sets x entry point (AppRunner as documented / the real web.run_app on a
virtual-time loop with in-memory sites).  Instrumented user callbacks log events; the extracted Gallina
model (Model/Lifecycle.v) must produce the same log, and the property oracle is evaluated on the
implementation's log alone.
"""
from __future__ import annotations

import asyncio
import contextlib
import glob
import itertools
import json
import os
from unittest import mock

from harness.common import framework as fw

PROP = "C20"
GENERATED = ["LifecycleGen.v"]
RULE = ("lifecycle: a fixed family of registration trees (flat, one/two/nested sub-applications, receivers before and "
        "after add_subapp, generator- and class-style contexts) with every single and every pair of failing steps, plus "
        "random trees (<= 3 levels, <= 4 contexts per application) with random failure sets of size <= 4, each through "
        "AppRunner and through web.run_app; shutdown: every placement of the shutdown moment relative to the request "
        "phases (idle keep-alive, new, handler running/finishing within t/within 2t/never, body upload pending, pipelined) "
        "on 1-4 in-memory connections under virtual time, with on_shutdown receivers taking 0 or s seconds.  "
        "Non-trivial = at least one context completed start-up (lifecycle) / at least one connection was not idle "
        "(shutdown); distinct by the canonical event log.")
TRUSTED = [
    "translator/gen_lifecycle.py (ast shape checks of CleanupContext, Application.cleanup, BaseRunner.cleanup, "
    "AppRunner._make_server, web._run_app, Server.pre_shutdown/shutdown, RequestHandler.shutdown/close, ceil_timeout)",
    "extraction: ExtrOcamlBasic only; ocaml/common/conv.ml + ocaml/C20/driver.ml (tree / event-log text I/O)",
    "correspondence harness harness/c20.py (instrumented callbacks, in-memory sites and transports, virtual-time loop): "
    "sampled, not proved",
    "modelled, not verified: asyncio task scheduling and cancellation, aiosignal.Signal.send (receivers awaited in "
    "order, first exception propagates), contextlib.asynccontextmanager, real sockets/sites (replaced by in-memory ones)",
]
ASSUMPTIONS = [
    "Steps fail by raising an Exception subclass (not BaseException/CancelledError); cleanup() is called once.",
    "No new connection arrives after the sites were stopped (the in-memory harness opens none).",
    "Handlers react to cancellation at once (no handler swallows CancelledError).",
    "Model/implementation agreement is validated on the generated cases only.",
]

STEP_KINDS = ("en", "ex", "su", "sd", "cl")


class StepError(Exception):
    pass


# --------------------------------------------------------------------------------------------
# cases: tree = list of ops; op = ["ctx", id, style] | ["su", id] | ["sd", id] | ["cl", id] | ["sub", tree]

def tree_tokens(tree) -> str:
    out = ["("]
    for op in tree:
        k = op[0]
        if k == "ctx":
            out.append(f"c{op[1]}")
        elif k == "su":
            out.append(f"s{op[1]}")
        elif k == "sd":
            out.append(f"d{op[1]}")
        elif k == "cl":
            out.append(f"l{op[1]}")
        elif k == "sub":
            out.append(tree_tokens(op[1]))
        else:
            raise ValueError(op)
    out.append(")")
    return " ".join(out)


def tree_steps(tree) -> list[str]:
    """all steps of a tree that can be told to fail"""
    out = []
    for op in tree:
        k = op[0]
        if k == "ctx":
            out += [f"en{op[1]}", f"ex{op[1]}"]
        elif k in ("su", "sd", "cl"):
            out.append(f"{k}{op[1]}")
        elif k == "sub":
            out += tree_steps(op[1])
    return out


def tree_apps(tree, path=()):
    """[(path, [ctx ids])] for every application of the tree (root first)"""
    out = [(path, [op[1] for op in tree if op[0] == "ctx"])]
    i = 0
    for op in tree:
        if op[0] == "sub":
            out += tree_apps(op[1], path + (i,))
            i += 1
    return out


def model_line(case) -> str:
    d = {"apprunner": "A", "run_app": "R"}[case["driver"]]
    fails = ",".join(case["fails"]) if case["fails"] else "-"
    return f"LIFE {d} {fails} {tree_tokens(case['tree'])}"


class _Ids:
    def __init__(self):
        self.n = {"ctx": 0, "su": 100, "sd": 200, "cl": 300}

    def new(self, k):
        self.n[k] += 1
        return self.n[k]


def rand_tree(rng, ids, depth=0):
    ops = []
    n = rng.randint(1, 7) if depth == 0 else rng.randint(0, 5)
    nctx = 0
    for _ in range(n):
        r = rng.random()
        if r < 0.40 and nctx < 4:
            nctx += 1
            ops.append(["ctx", ids.new("ctx"), rng.choice(["gen", "cm"])])
        elif r < 0.52:
            ops.append(["su", ids.new("su")])
        elif r < 0.62:
            ops.append(["sd", ids.new("sd")])
        elif r < 0.74:
            ops.append(["cl", ids.new("cl")])
        elif depth < 2:
            ops.append(["sub", rand_tree(rng, ids, depth + 1)])
        else:
            ops.append(["cl", ids.new("cl")])
    return ops


def fixed_trees():
    g, c = "gen", "cm"
    return [
        [["ctx", 1, g]],
        [["ctx", 1, g], ["ctx", 2, c], ["ctx", 3, g]],
        [["ctx", 1, c], ["ctx", 2, g], ["ctx", 3, g], ["ctx", 4, c], ["su", 101], ["sd", 201], ["cl", 301]],
        [["su", 101], ["ctx", 1, g], ["cl", 301], ["ctx", 2, c], ["sd", 201], ["su", 102]],
        [["ctx", 1, g], ["sub", [["ctx", 2, c], ["su", 102], ["cl", 302]]], ["su", 101], ["sd", 201], ["cl", 301]],
        [["su", 101], ["cl", 301], ["sub", [["ctx", 2, g], ["ctx", 3, c], ["sd", 202]]], ["ctx", 1, c]],
        [["ctx", 1, g], ["sub", [["ctx", 2, g]]], ["sub", [["ctx", 3, c], ["cl", 303]]], ["cl", 301]],
        [["ctx", 1, c], ["sub", [["ctx", 2, g], ["sub", [["ctx", 3, c], ["su", 103]]], ["su", 102]]], ["sd", 201]],
    ]


# --------------------------------------------------------------------------------------------
# implementation side

def build_app(tree, log, fails):
    from aiohttp import web
    app = web.Application()
    nsub = 0
    for op in tree:
        k = op[0]
        if k == "ctx":
            app.cleanup_ctx.append(_make_ctx(op[1], op[2] if len(op) > 2 else "gen", log, fails))
        elif k in ("su", "sd", "cl"):
            getattr(app, {"su": "on_startup", "sd": "on_shutdown", "cl": "on_cleanup"}[k]).append(_make_recv(k, op[1], log, fails))
        elif k == "sub":
            app.add_subapp(f"/s{nsub}", build_app(op[1], log, fails))
            nsub += 1
    return app


def _make_ctx(c, style, log, fails):
    if style == "gen":
        async def ctx(app):
            if f"en{c}" in fails:
                log.append(f"en{c}-")
                raise StepError(f"en{c}")
            log.append(f"en{c}+")
            yield
            if f"ex{c}" in fails:
                log.append(f"ex{c}-")
                raise StepError(f"ex{c}")
            log.append(f"ex{c}+")
        return ctx

    class CM(contextlib.AbstractAsyncContextManager):
        async def __aenter__(self):
            await asyncio.sleep(0)
            if f"en{c}" in fails:
                log.append(f"en{c}-")
                raise StepError(f"en{c}")
            log.append(f"en{c}+")

        async def __aexit__(self, *a):
            await asyncio.sleep(0)
            if f"ex{c}" in fails:
                log.append(f"ex{c}-")
                raise StepError(f"ex{c}")
            log.append(f"ex{c}+")

    return lambda app: CM()


def _make_recv(k, u, log, fails):
    async def h(app):
        if f"{k}{u}" in fails:
            log.append(f"{k}{u}-")
            raise StepError(f"{k}{u}")
        log.append(f"{k}{u}+")
    return h


def _err_name(e: BaseException) -> str:
    from aiohttp import web
    if isinstance(e, StepError):
        return e.args[0]
    if isinstance(e, web.CleanupError):
        return "multi"
    return "OTHER:" + type(e).__name__


@contextlib.contextmanager
def _server_markers(log):
    """harness-side wrappers: log when Server.pre_shutdown / Server.shutdown are called"""
    from aiohttp import web_server
    orig_pre, orig_sd = web_server.Server.pre_shutdown, web_server.Server.shutdown

    def pre(self):
        log.append("pre")
        return orig_pre(self)

    async def sd(self, timeout=None):
        log.append("srv")
        return await orig_sd(self, timeout)

    with mock.patch.object(web_server.Server, "pre_shutdown", pre), mock.patch.object(web_server.Server, "shutdown", sd):
        yield


def _fake_site_class(log, fails):
    from aiohttp import web_runner

    class MemSite(web_runner.BaseSite):
        """a site without a socket: registers with the runner; start() may fail like a busy port"""

        def __init__(self, runner, *a, **kw):
            super().__init__(runner)

        @property
        def name(self):
            return "mem://site"

        async def start(self):
            await super().start()
            if "site" in fails:
                log.append("site-")
                raise StepError("site")
            log.append("site+")

    return MemSite


def impl_apprunner(case) -> str:
    """AppRunner as documented: setup(), a site, cleanup() whatever happened."""
    from aiohttp import web
    from harness.common.loop import VLoop
    log: list[str] = []
    fails = set(case["fails"])
    loop = VLoop()
    asyncio.set_event_loop(loop)

    async def go():
        app = build_app(case["tree"], log, fails)
        runner = web.AppRunner(app, access_log=None)
        ok = True
        try:
            await runner.setup()
        except Exception as e:  # noqa
            ok = False
            log.append("SR:" + _err_name(e))
        if ok:
            try:
                await _fake_site_class(log, fails)(runner).start()
            except StepError:
                pass
        try:
            await runner.cleanup()
        except Exception as e:  # noqa
            log.append("CR:" + _err_name(e))

    try:
        with _server_markers(log):
            loop.run_until_complete(go())
    finally:
        asyncio.set_event_loop(None)
        loop.close()
    return " ".join(log) if log else "-"


def impl_run_app(case) -> str:
    """The real web.run_app on a virtual-time loop; TCPSite replaced by an in-memory site; the
    process 'receives SIGTERM' (GracefulExit raised from a loop callback) one virtual second later."""
    from aiohttp import web, web_runner
    from harness.common.loop import VLoop
    log: list[str] = []
    fails = set(case["fails"])
    loop = VLoop()

    class LogRunner(web.AppRunner):
        async def setup(self):
            try:
                await super().setup()
            except Exception as e:  # noqa
                log.append("SR:" + _err_name(e))
                raise

        async def cleanup(self):
            try:
                await super().cleanup()
            except Exception as e:  # noqa
                log.append("CR:" + _err_name(e))
                raise

    fin = "none"
    app = build_app(case["tree"], log, fails)
    loop.call_later(1.0, web_runner._raise_graceful_exit)
    try:
        with _server_markers(log), mock.patch("aiohttp.web.TCPSite", _fake_site_class(log, fails)), \
                mock.patch("aiohttp.web.AppRunner", LogRunner):
            try:
                web.run_app(app, loop=loop, print=None, access_log=None)
            except Exception as e:  # noqa
                fin = _err_name(e)
    finally:
        if not loop.is_closed():
            loop.close()
        asyncio.set_event_loop(None)
    return (" ".join(log) if log else "-") + " FIN:" + fin


def impl_log(case) -> str:
    return impl_apprunner(case) if case["driver"] == "apprunner" else impl_run_app(case)


# --------------------------------------------------------------------------------------------
# property oracle on the implementation's log (no model involved)

def lifecycle_oracle(case, log: str):
    """None, or (what, diag): the cleanup code of a context runs exactly once iff its startup code
    completed, and within one application in reverse order of start-up."""
    ev = [e for e in log.split() if e != "-"]
    started, exits = [], []
    for e in ev:
        if e.startswith("en") and e.endswith("+"):
            started.append(int(e[2:-1]))
        elif e.startswith("ex"):
            exits.append(int(e[2:-1]))
    first_exit = next((i for i, e in enumerate(ev) if e.startswith("ex")), None)
    last_enter = max((i for i, e in enumerate(ev) if e.startswith("en")), default=None)
    diag = {
        "setup_raised": any(e.startswith("SR:") for e in ev),
        "shutdown_failed": any(e.startswith("sd") and e.endswith("-") for e in ev),
        "cleanup_step_failed": any((e.startswith("ex") or e.startswith("cl")) and e.endswith("-") for e in ev),
    }
    twice = sorted({c for c in exits if exits.count(c) > 1})
    unstarted = sorted({c for c in exits if c not in started})
    missing = sorted(c for c in started if c not in exits)
    if twice:
        return f"cleanup code of context(s) {twice} ran more than once", dict(diag, kind="twice", ctxs=twice)
    if unstarted:
        return (f"cleanup code of context(s) {unstarted} ran although their startup code did not complete",
                dict(diag, kind="unstarted", ctxs=unstarted))
    if first_exit is not None and last_enter is not None and first_exit < last_enter:
        return "a context was cleaned up before start-up had finished", dict(diag, kind="early")
    root_ctxs = set(tree_apps(case["tree"])[0][1])
    for path, ctxs in tree_apps(case["tree"]):
        s = [c for c in started if c in ctxs]
        x = [c for c in exits if c in ctxs]
        if x and x != list(reversed(s)) and not [c for c in s if c not in x]:
            return (f"application {list(path)}: contexts started in order {s} but cleaned in order {x} (not the reverse)",
                    dict(diag, kind="order", app=list(path)))
    if missing:
        diag.update(kind="missing", ctxs=missing, missing_in_root=sorted(c for c in missing if c in root_ctxs),
                    all_started_missing=(missing == sorted(started)))
        # position of the missing contexts relative to the first failing clean-up step (depth-first clean-up order)
        return (f"context(s) {missing} completed their startup code but their cleanup code never ran "
                f"(driver={case['driver']}, failing steps={case['fails']})"), diag
    return None


# known-finding signatures: each recognises one family of failing cases through the diagnosis the oracle
# derived from the implementation's own log (never from the model)
def _sig_startup_failure_subapp(case, params):
    d = case.get("diag") or {}
    return (d.get("kind") == "missing" and d.get("setup_raised") and not d.get("missing_in_root"))


def _sig_cleanup_error_skips_rest(case, params):
    d = case.get("diag") or {}
    return (d.get("kind") == "missing" and not d.get("setup_raised") and not d.get("shutdown_failed")
            and d.get("cleanup_step_failed") and bool(d.get("after_first_cleanup_failure")))


def _sig_shutdown_error_skips_cleanup(case, params):
    d = case.get("diag") or {}
    return (d.get("kind") == "missing" and not d.get("setup_raised") and d.get("shutdown_failed")
            and d.get("all_started_missing") and not d.get("cleanup_step_failed"))


SIGNATURES = {
    "startup_failure_leaves_subapp_contexts": _sig_startup_failure_subapp,
    "cleanup_error_skips_later_receivers": _sig_cleanup_error_skips_rest,
    "on_shutdown_error_skips_cleanup": _sig_shutdown_error_skips_cleanup,
}


def cleanup_dfs_order(tree):
    """steps of the on_cleanup signal in depth-first order, as (kind, id, app_path)"""
    def go(t, path):
        out = [("ctxs", [op[1] for op in t if op[0] == "ctx"], path)]
        i = 0
        for op in t:
            if op[0] == "cl":
                out.append(("cl", op[1], path))
            elif op[0] == "sub":
                out += go(op[1], path + (i,))
                i += 1
        return out
    return go(tree, ())


def refine_diag(case, log, diag):
    """for `missing`: are all missing contexts behind the first failing clean-up receiver (depth-first)?"""
    if diag.get("kind") != "missing":
        return diag
    ev = log.split()
    failed = [e[:-1] for e in ev if (e.startswith("ex") or e.startswith("cl")) and e.endswith("-")]
    order = cleanup_dfs_order(case["tree"])
    pos = None
    for i, (k, v, path) in enumerate(order):
        if (k == "ctxs" and any(f"ex{c}" in failed for c in v)) or (k == "cl" and f"cl{v}" in failed):
            pos = i
            break
    if pos is None:
        diag["after_first_cleanup_failure"] = False
        return diag
    later = set()
    for k, v, path in order[pos + 1:]:
        if k == "ctxs":
            later.update(v)
    diag["after_first_cleanup_failure"] = all(c in later for c in diag["ctxs"])
    return diag


# --------------------------------------------------------------------------------------------

def build_model():
    return fw.ocaml_model("C20", ["Model/Lifecycle.vo"])


def gen_lifecycle_cases(ctx):
    rng = ctx.rng
    cases = []
    for tree in fixed_trees():
        steps = tree_steps(tree) + ["site"]
        sets = [()] + [(s,) for s in steps]
        pairs = list(itertools.combinations(steps, 2))
        if ctx.quick:
            rng.shuffle(pairs)
            pairs = pairs[:40]
        sets += pairs
        if not ctx.quick:
            sets += list(itertools.combinations(steps, 3))[:600]
        for fs in sets:
            for d in ("apprunner", "run_app"):
                cases.append({"suite": "lifecycle", "driver": d, "tree": tree, "fails": list(fs)})
    for _ in range(350 if ctx.quick else 12000):
        tree = rand_tree(rng, _Ids())
        steps = tree_steps(tree) + ["site"]
        k = rng.choice([0, 1, 1, 1, 2, 2, 3, 4])
        fs = sorted(rng.sample(steps, min(k, len(steps))))
        for d in ("apprunner", "run_app"):
            cases.append({"suite": "lifecycle", "driver": d, "tree": tree, "fails": fs})
    return cases


def check_lifecycle_case(ctx, case, model_out, record=True):
    impl = impl_log(case)
    res = {"impl": impl, "model": model_out, "violates": False, "why": None}
    if record:
        nontriv = any(e.startswith("en") and e.endswith("+") for e in impl.split())
        ctx.case(("lifecycle", impl), nontrivial=nontriv)
        ctx.count(f"lifecycle:driver:{case['driver']}")
        ctx.count(f"lifecycle:failing_steps:{len(case['fails'])}")
        for f in case["fails"]:
            ctx.count("lifecycle:fail_kind:" + ("site" if f == "site" else f[:2]))
        ctx.count("lifecycle:setup_raised" if "SR:" in impl else "lifecycle:setup_ok")
        if "CR:" in impl:
            ctx.count("lifecycle:cleanup_raised")
    if model_out is not None and model_out != impl:
        ctx.disagreement("lifecycle", case, model_out, impl)
        res["disagree"] = True
    bad = lifecycle_oracle(case, impl)
    if bad:
        what, diag = bad
        vcase = dict(case, diag=refine_diag(case, impl, diag), impl_log=impl)
        res.update(violates=True, why=what, diag=vcase["diag"])
        if record:
            ctx.violation(vcase, "lifecycle: " + what + f"; log: {impl}")
    return res


def suite_lifecycle(ctx, exe):
    cases = []
    for p in sorted(glob.glob(os.path.join(fw.VERIF, "corpus", "C20", "*.json"))):
        c = json.load(open(p))
        c = c.get("case", c)
        if c.get("suite") == "lifecycle":
            cases.append({k: c[k] for k in ("suite", "driver", "tree", "fails")})
            ctx.count("lifecycle:corpus")
    cases += gen_lifecycle_cases(ctx)
    model = fw.run_model(exe, [model_line(c) for c in cases])
    for c, m in zip(cases, model):
        check_lifecycle_case(ctx, c, m)
    for c, m in list(zip(cases, model))[-2:]:
        ctx.sample({"case": c, "model_log": m})
    ctx.traces_validated += len(cases)
    ctx.close_suite("lifecycle", len(cases))


def run(ctx):
    ok, exe = build_model()
    ctx.oblige("model-runner-build", "correspondence", ok, "" if ok else exe)
    if not ok:
        return
    suite_lifecycle(ctx, exe)


def replay(ctx, case):
    ok, exe = build_model()
    if case.get("suite") == "lifecycle":
        c = {k: case[k] for k in ("suite", "driver", "tree", "fails")}
        m = fw.run_model(exe, [model_line(c)])[0] if ok else None
        return check_lifecycle_case(ctx, c, m, record=False)
    return {"violates": None, "note": "unknown suite"}
