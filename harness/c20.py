"""C20 — application lifecycle: cleanup runs exactly for what started; shutdown drains.

Suite `lifecycle`: registration trees (cleanup contexts, on_startup/on_shutdown/on_cleanup receivers,
sub-applications) x failure sets x entry point (AppRunner as documented / the real web.run_app on a
virtual-time loop with in-memory sites).  Instrumented user callbacks log events; the extracted Gallina
model (Model/Lifecycle.v) must produce the same log, and the property oracle is evaluated on the
implementation's log alone.
"""
from __future__ import annotations

import asyncio
import contextlib
import glob
import itertools
import json
import logging
import os
from unittest import mock

from harness.common import framework as fw

PROP = "C20"
GENERATED = ["LifecycleGen.v"]
RULE = ("lifecycle: a fixed family of registration trees (flat, one/two/nested sub-applications, receivers before and "
        "after add_subapp, generator- and class-style contexts) with every single and every pair of failing steps, plus "
        "random trees (<= 3 levels, <= 4 contexts per application) with random failure sets of size <= 4, each through "
        "AppRunner and through web.run_app, also with the failing steps raising CancelledError and (run_app) with the stop signal "
        "arriving while a context is still suspended in its startup code; shutdown: every placement of the shutdown moment relative to the request "
        "phases (idle keep-alive, new, handler running/finishing within t/within 2t/never, body upload pending, body received but read later, pipelined) "
        "(pipelined = 1-3 further requests parsed and queued behind the one in flight, which ends before/at/after the on_shutdown signal or in the iteration cleanup() starts in) on 1-4 in-memory connections under virtual time, with on_shutdown receivers taking 0 or s seconds.  "
        "Non-trivial = at least one context completed start-up (lifecycle) / at least one connection was not idle "
        "(shutdown); distinct by the canonical event log.")
TRUSTED = [
    "translator/gen_lifecycle.py (ast shape checks of CleanupContext, Application.cleanup, BaseRunner.cleanup, "
    "AppRunner._make_server, web._run_app, Server.pre_shutdown/shutdown, RequestHandler.shutdown/close, ceil_timeout)",
    "extraction: ExtrOcamlBasic only; ocaml/common/conv.ml + ocaml/C20/driver.ml (tree / event-log text I/O)",
    "correspondence harness harness/c20.py (instrumented callbacks, in-memory sites and transports, virtual-time loop): "
    "sampled, not proved",
    "modelled, not verified: asyncio task scheduling and cancellation, aiosignal.Signal.send (receivers awaited in "
    "order, first exception propagates), contextlib.asynccontextmanager, real sockets/sites (replaced by in-memory ones)",
]
ASSUMPTIONS = [
    "Steps fail by raising an Exception subclass or CancelledError (not other BaseExceptions); cleanup() is called once; "
    "when a step raises CancelledError, or the stop signal arrives while a context is suspended in its startup code, the "
    "exception that finally leaves run_app is not compared with the model (asyncio task-cancellation bookkeeping).",
    "No new connection arrives after the sites were stopped (the in-memory harness opens none).",
    "Handlers react to cancellation at once (no handler swallows CancelledError).",
    "Model/implementation agreement is validated on the generated cases only.",
]

STEP_KINDS = ("en", "ex", "su", "sd", "cl")


class StepError(Exception):
    pass


class StepCancelled(asyncio.CancelledError):
    """a step that raises CancelledError (e.g. a teardown doing `task.cancel(); await task`)"""


class Fails(set):
    """failing steps of a case; .cancels = those raising CancelledError instead of an Exception;
    .hang = a context whose startup code is still suspended when the process is told to stop"""

    def __init__(self, case):
        super().__init__(case["fails"])
        self.cancels = set(case.get("cancels") or [])
        self.hang = case.get("hang")

    def boom(self, name):
        return StepCancelled(name) if name in self.cancels else StepError(name)


# --------------------------------------------------------------------------------------------
# cases: tree = list of ops; op = ["ctx", id, style] | ["su", id] | ["sd", id] | ["cl", id] | ["sub", tree]

def tree_tokens(tree) -> str:
    out = ["("]
    for op in tree:
        k = op[0]
        if k == "ctx":
            out.append(f"c{op[1]}")
        elif k == "su":
            out.append(f"s{op[1]}")
        elif k == "sd":
            out.append(f"d{op[1]}")
        elif k == "cl":
            out.append(f"l{op[1]}")
        elif k == "sub":
            out.append(tree_tokens(op[1]))
        else:
            raise ValueError(op)
    out.append(")")
    return " ".join(out)


def tree_steps(tree) -> list[str]:
    """all steps of a tree that can be told to fail"""
    out = []
    for op in tree:
        k = op[0]
        if k == "ctx":
            out += [f"en{op[1]}", f"ex{op[1]}"]
        elif k in ("su", "sd", "cl"):
            out.append(f"{k}{op[1]}")
        elif k == "sub":
            out += tree_steps(op[1])
    return out


def tree_apps(tree, path=()):
    """[(path, [ctx ids])] for every application of the tree (root first)"""
    out = [(path, [op[1] for op in tree if op[0] == "ctx"])]
    i = 0
    for op in tree:
        if op[0] == "sub":
            out += tree_apps(op[1], path + (i,))
            i += 1
    return out


def model_line(case) -> str:
    d = {"apprunner": "A", "run_app": "R"}[case["driver"]]
    fl = list(case["fails"]) + ([f"en{case['hang']}"] if case.get("hang") is not None else [])
    fails = ",".join(fl) if fl else "-"
    return f"LIFE {d} {fails} {tree_tokens(case['tree'])}"


def canon_for_compare(case, model_out: str, impl: str):
    """Cases with CancelledError-raising steps or a context suspended in its startup code: the exception that
    leaves run_app (FIN) depends on asyncio's task-cancellation bookkeeping, which the model does not describe,
    and a cancelled startup surfaces as a plain CancelledError."""
    if not (case.get("cancels") or case.get("hang") is not None):
        return model_out, impl
    m = [t for t in model_out.split() if not t.startswith("FIN:")]
    i = [t for t in impl.split() if not t.startswith("FIN:")]
    if case.get("hang") is not None:
        m = ["SR:cancelled" if t == f"SR:en{case['hang']}" else t for t in m]
    return " ".join(m), " ".join(i)


class _Ids:
    def __init__(self):
        self.n = {"ctx": 0, "su": 100, "sd": 200, "cl": 300}

    def new(self, k):
        self.n[k] += 1
        return self.n[k]


def rand_tree(rng, ids, depth=0):
    ops = []
    n = rng.randint(1, 7) if depth == 0 else rng.randint(0, 5)
    nctx = 0
    for _ in range(n):
        r = rng.random()
        if r < 0.40 and nctx < 4:
            nctx += 1
            ops.append(["ctx", ids.new("ctx"), rng.choice(["gen", "cm"])])
        elif r < 0.52:
            ops.append(["su", ids.new("su")])
        elif r < 0.62:
            ops.append(["sd", ids.new("sd")])
        elif r < 0.74:
            ops.append(["cl", ids.new("cl")])
        elif depth < 2:
            ops.append(["sub", rand_tree(rng, ids, depth + 1)])
        else:
            ops.append(["cl", ids.new("cl")])
    return ops


def fixed_trees():
    g, c = "gen", "cm"
    return [
        [["ctx", 1, g]],
        [["ctx", 1, g], ["ctx", 2, c], ["ctx", 3, g]],
        [["ctx", 1, c], ["ctx", 2, g], ["ctx", 3, g], ["ctx", 4, c], ["su", 101], ["sd", 201], ["cl", 301]],
        [["su", 101], ["ctx", 1, g], ["cl", 301], ["ctx", 2, c], ["sd", 201], ["su", 102]],
        [["ctx", 1, g], ["sub", [["ctx", 2, c], ["su", 102], ["cl", 302]]], ["su", 101], ["sd", 201], ["cl", 301]],
        [["su", 101], ["cl", 301], ["sub", [["ctx", 2, g], ["ctx", 3, c], ["sd", 202]]], ["ctx", 1, c]],
        [["ctx", 1, g], ["sub", [["ctx", 2, g]]], ["sub", [["ctx", 3, c], ["cl", 303]]], ["cl", 301]],
        [["ctx", 1, c], ["sub", [["ctx", 2, g], ["sub", [["ctx", 3, c], ["su", 103]]], ["su", 102]]], ["sd", 201]],
    ]


# --------------------------------------------------------------------------------------------
# implementation side

def build_app(tree, log, fails):
    from aiohttp import web
    app = web.Application()
    nsub = 0
    for op in tree:
        k = op[0]
        if k == "ctx":
            app.cleanup_ctx.append(_make_ctx(op[1], op[2] if len(op) > 2 else "gen", log, fails))
        elif k in ("su", "sd", "cl"):
            getattr(app, {"su": "on_startup", "sd": "on_shutdown", "cl": "on_cleanup"}[k]).append(_make_recv(k, op[1], log, fails))
        elif k == "sub":
            app.add_subapp(f"/s{nsub}", build_app(op[1], log, fails))
            nsub += 1
    return app


def _make_ctx(c, style, log, fails):
    if style == "gen":
        async def ctx(app):
            if f"en{c}" in fails:
                log.append(f"en{c}-")
                raise fails.boom(f"en{c}")
            if fails.hang == c:
                try:
                    await asyncio.Event().wait()      # suspended in its startup code until the task is cancelled
                except BaseException:
                    log.append(f"en{c}-")
                    raise
            log.append(f"en{c}+")
            yield
            if f"ex{c}" in fails:
                log.append(f"ex{c}-")
                raise fails.boom(f"ex{c}")
            log.append(f"ex{c}+")
        return ctx

    class CM(contextlib.AbstractAsyncContextManager):
        async def __aenter__(self):
            await asyncio.sleep(0)
            if f"en{c}" in fails:
                log.append(f"en{c}-")
                raise fails.boom(f"en{c}")
            if fails.hang == c:
                try:
                    await asyncio.Event().wait()
                except BaseException:
                    log.append(f"en{c}-")
                    raise
            log.append(f"en{c}+")

        async def __aexit__(self, *a):
            await asyncio.sleep(0)
            if f"ex{c}" in fails:
                log.append(f"ex{c}-")
                raise fails.boom(f"ex{c}")
            log.append(f"ex{c}+")

    return lambda app: CM()


def _make_recv(k, u, log, fails):
    async def h(app):
        if f"{k}{u}" in fails:
            log.append(f"{k}{u}-")
            raise fails.boom(f"{k}{u}")
        log.append(f"{k}{u}+")
    return h


def _err_name(e: BaseException) -> str:
    from aiohttp import web
    if isinstance(e, (StepError, StepCancelled)) and e.args:
        return e.args[0]
    if isinstance(e, asyncio.CancelledError):
        return "cancelled"
    if isinstance(e, web.CleanupError):
        return "multi"
    return "OTHER:" + type(e).__name__


@contextlib.contextmanager
def _server_markers(log):
    """harness-side wrappers: log when Server.pre_shutdown / Server.shutdown are called"""
    from aiohttp import web_server
    orig_pre, orig_sd = web_server.Server.pre_shutdown, web_server.Server.shutdown

    def pre(self):
        log.append("pre")
        return orig_pre(self)

    async def sd(self, timeout=None):
        log.append("srv")
        return await orig_sd(self, timeout)

    with mock.patch.object(web_server.Server, "pre_shutdown", pre), mock.patch.object(web_server.Server, "shutdown", sd):
        yield


def _fake_site_class(log, fails):
    from aiohttp import web_runner

    class MemSite(web_runner.BaseSite):
        """a site without a socket: registers with the runner; start() may fail like a busy port"""

        def __init__(self, runner, *a, **kw):
            super().__init__(runner)

        @property
        def name(self):
            return "mem://site"

        async def start(self):
            await super().start()
            if "site" in fails:
                log.append("site-")
                raise StepError("site")
            log.append("site+")

    return MemSite


def impl_apprunner(case) -> str:
    """AppRunner as documented: setup(), a site, cleanup() whatever happened."""
    from aiohttp import web
    from harness.common.loop import VLoop
    log: list[str] = []
    fails = Fails(case)
    loop = VLoop()
    asyncio.set_event_loop(loop)

    async def go():
        app = build_app(case["tree"], log, fails)
        runner = web.AppRunner(app, access_log=None)
        ok = True
        try:
            await runner.setup()
        except (Exception, asyncio.CancelledError) as e:  # noqa
            ok = False
            log.append("SR:" + _err_name(e))
        if ok:
            try:
                await _fake_site_class(log, fails)(runner).start()
            except StepError:
                pass
        try:
            await runner.cleanup()
        except (Exception, asyncio.CancelledError) as e:  # noqa
            log.append("CR:" + _err_name(e))

    try:
        with _server_markers(log):
            loop.run_until_complete(go())
    finally:
        asyncio.set_event_loop(None)
        loop.close()
    return " ".join(log) if log else "-"


def impl_run_app(case) -> str:
    """The real web.run_app on a virtual-time loop; TCPSite replaced by an in-memory site; the
    process 'receives SIGTERM' (GracefulExit raised from a loop callback) one virtual second later."""
    from aiohttp import web, web_runner
    from harness.common.loop import VLoop
    log: list[str] = []
    fails = Fails(case)
    loop = VLoop()

    class LogRunner(web.AppRunner):
        async def setup(self):
            try:
                await super().setup()
            except BaseException as e:  # noqa
                log.append("SR:" + _err_name(e))
                raise

        async def cleanup(self):
            try:
                await super().cleanup()
            except BaseException as e:  # noqa
                log.append("CR:" + _err_name(e))
                raise

    fin = "none"
    app = build_app(case["tree"], log, fails)
    loop.call_later(1.0, web_runner._raise_graceful_exit)
    try:
        with _server_markers(log), mock.patch("aiohttp.web.TCPSite", _fake_site_class(log, fails)), \
                mock.patch("aiohttp.web.AppRunner", LogRunner):
            try:
                web.run_app(app, loop=loop, print=None, access_log=None)
            except (Exception, asyncio.CancelledError) as e:  # noqa
                fin = _err_name(e)
    finally:
        if not loop.is_closed():
            loop.close()
        asyncio.set_event_loop(None)
    return (" ".join(log) if log else "-") + " FIN:" + fin


def impl_log(case) -> str:
    return impl_apprunner(case) if case["driver"] == "apprunner" else impl_run_app(case)


# --------------------------------------------------------------------------------------------
# property oracle on the implementation's log (no model involved)

def lifecycle_oracle(case, log: str):
    """None, or (what, diag): the cleanup code of a context runs exactly once iff its startup code
    completed, and within one application in reverse order of start-up."""
    ev = [e for e in log.split() if e != "-"]
    started, exits = [], []
    for e in ev:
        if e.startswith("en") and e.endswith("+"):
            started.append(int(e[2:-1]))
        elif e.startswith("ex"):
            exits.append(int(e[2:-1]))
    first_exit = next((i for i, e in enumerate(ev) if e.startswith("ex")), None)
    last_enter = max((i for i, e in enumerate(ev) if e.startswith("en")), default=None)
    diag = {
        "setup_raised": any(e.startswith("SR:") for e in ev),
        "shutdown_failed": any(e.startswith("sd") and e.endswith("-") for e in ev),
        "cleanup_step_failed": any((e.startswith("ex") or e.startswith("cl")) and e.endswith("-") for e in ev),
    }
    twice = sorted({c for c in exits if exits.count(c) > 1})
    unstarted = sorted({c for c in exits if c not in started})
    missing = sorted(c for c in started if c not in exits)
    if twice:
        return f"cleanup code of context(s) {twice} ran more than once", dict(diag, kind="twice", ctxs=twice)
    if unstarted:
        return (f"cleanup code of context(s) {unstarted} ran although their startup code did not complete",
                dict(diag, kind="unstarted", ctxs=unstarted))
    if first_exit is not None and last_enter is not None and first_exit < last_enter:
        return "a context was cleaned up before start-up had finished", dict(diag, kind="early")
    root_ctxs = set(tree_apps(case["tree"])[0][1])
    for path, ctxs in tree_apps(case["tree"]):
        s = [c for c in started if c in ctxs]
        x = [c for c in exits if c in ctxs]
        if x and x != list(reversed(s)) and not [c for c in s if c not in x]:
            return (f"application {list(path)}: contexts started in order {s} but cleaned in order {x} (not the reverse)",
                    dict(diag, kind="order", app=list(path)))
    if missing:
        diag.update(kind="missing", ctxs=missing, missing_in_root=sorted(c for c in missing if c in root_ctxs),
                    all_started_missing=(missing == sorted(started)))
        # position of the missing contexts relative to the first failing clean-up step (depth-first clean-up order)
        return (f"context(s) {missing} completed their startup code but their cleanup code never ran "
                f"(driver={case['driver']}, failing steps={case['fails']})"), diag
    return None


# every finding of this property is repaired in /repo (known_findings.d/C20.json lists them as fixed:<commit>);
# there is no suppressing signature: any violation is reported
SIGNATURES: dict = {}


def build_model():
    # Other checks running concurrently regenerate EVERY coq/Generated file from THEIR repo (VERIF_REPO may point
    # at a stale or mutated copy) and may overwrite or delete LifecycleGen.v between this check's translator
    # step and the model build; re-translate our own file from this check's repo right before building.
    try:
        from translator import gen
        gen.regenerate(only=GENERATED)
    except Exception:  # noqa  (the translator obligation was already recorded by the framework)
        pass
    return fw.ocaml_model("C20", ["Model/Lifecycle.vo", "Model/Shutdown.vo"])


def gen_lifecycle_cases(ctx):
    rng = ctx.rng
    cases = []
    for tree in fixed_trees():
        steps = tree_steps(tree) + ["site"]
        sets = [()] + [(s,) for s in steps]
        pairs = list(itertools.combinations(steps, 2))
        if ctx.quick:
            rng.shuffle(pairs)
            pairs = pairs[:40]
        sets += pairs
        if not ctx.quick:
            sets += list(itertools.combinations(steps, 3))[:600]
        for fs in sets:
            for d in ("apprunner", "run_app"):
                cases.append({"suite": "lifecycle", "driver": d, "tree": tree, "fails": list(fs)})
        # the same failures raised as CancelledError (a teardown doing `task.cancel(); await task`)
        for fs in [(s,) for s in steps if s != "site"] + [p for p in pairs[:10] if "site" not in p]:
            for d in ("apprunner", "run_app"):
                cases.append({"suite": "lifecycle", "driver": d, "tree": tree, "fails": list(fs),
                              "cancels": [x for x in fs if rng.random() < 0.7] or [fs[0]]})
        # run_app told to stop (SIGTERM -> GracefulExit) while context c is still suspended in its startup code
        for c in [int(x[2:]) for x in steps if x.startswith("en")]:
            for extra in ([], [rng.choice([x for x in steps if x.startswith("ex")])]):
                cases.append({"suite": "lifecycle", "driver": "run_app", "tree": tree, "fails": extra, "hang": c})
    for _ in range(600 if ctx.quick else 12000):
        tree = rand_tree(rng, _Ids())
        steps = tree_steps(tree) + ["site"]
        k = rng.choice([0, 1, 1, 1, 2, 2, 3, 4])
        fs = sorted(rng.sample(steps, min(k, len(steps))))
        for d in ("apprunner", "run_app"):
            case = {"suite": "lifecycle", "driver": d, "tree": tree, "fails": fs}
            r = rng.random()
            if r < 0.25 and fs:
                case["cancels"] = [x for x in fs if x != "site" and rng.random() < 0.6]
            elif r < 0.35 and d == "run_app":
                ens = [int(x[2:]) for x in steps if x.startswith("en") and x not in fs]
                if ens:
                    case["hang"] = rng.choice(ens)
            cases.append(case)
    return cases


def check_lifecycle_case(ctx, case, model_out, record=True):
    impl = impl_log(case)
    res = {"impl": impl, "model": model_out, "violates": False, "why": None}
    if record:
        nontriv = any(e.startswith("en") and e.endswith("+") for e in impl.split())
        ctx.case(("lifecycle", impl), nontrivial=nontriv)
        ctx.count(f"lifecycle:driver:{case['driver']}")
        ctx.count(f"lifecycle:failing_steps:{len(case['fails'])}")
        if case.get("cancels"):
            ctx.count("lifecycle:steps_raising_CancelledError", len(case["cancels"]))
        if case.get("hang") is not None:
            ctx.count("lifecycle:signal_while_context_suspended_in_startup")
        for f in case["fails"]:
            ctx.count("lifecycle:fail_kind:" + ("site" if f == "site" else f[:2]))
        ctx.count("lifecycle:setup_raised" if "SR:" in impl else "lifecycle:setup_ok")
        if "CR:" in impl:
            ctx.count("lifecycle:cleanup_raised")
    if model_out is not None:
        cm, ci = canon_for_compare(case, model_out, impl)
        if cm != ci:
            ctx.disagreement("lifecycle", case, model_out, impl)
            res["disagree"] = True
    bad = lifecycle_oracle(case, impl)
    if bad:
        what, diag = bad
        vcase = dict(case, diag=diag, impl_log=impl)
        res.update(violates=True, why=what, diag=vcase["diag"])
        if record:
            ctx.violation(vcase, "lifecycle: " + what + f"; log: {impl}")
    return res


def suite_lifecycle(ctx, exe):
    cases = []
    for p in sorted(glob.glob(os.path.join(fw.VERIF, "corpus", "C20", "*.json"))):
        c = json.load(open(p))
        c = c.get("case", c)
        if c.get("suite") == "lifecycle":
            cases.append({k: c[k] for k in ("suite", "driver", "tree", "fails", "cancels", "hang") if k in c})
            ctx.count("lifecycle:corpus")
    cases += gen_lifecycle_cases(ctx)
    # without a model runner (its build is a broken obligation already) the property oracle still searches
    model = fw.run_model(exe, [model_line(c) for c in cases]) if exe else [None] * len(cases)
    for c, m in zip(cases, model):
        check_lifecycle_case(ctx, c, m)
    for c, m in list(zip(cases, model))[-2:]:
        ctx.sample({"case": c, "model_log": m})
    if exe:
        ctx.traces_validated += len(cases)
    ctx.close_suite("lifecycle", len(cases) if exe else 0)


# --------------------------------------------------------------------------------------------
# suite `shutdown`: graceful shutdown under virtual time
#
# case: {"suite": "shutdown", "t": ms, "s": ms, "off": ms, "conns": [{"phase": idle|new|partial|h|pipe|u,
#        "d": ms|None, "late": ms|None, "k": queued pipelined requests (pipe)}]}
#   d = 0 (h, pipe): the handler waits for a gate that is released in the step that calls cleanup()
#   t = shutdown_timeout, s = how long the on_shutdown receiver sleeps, off = offset of loop.time() at T0,
#   d = handler returns d ms after T0 (h, pipe) / rest of the body is sent d ms after T0 (u); None = never
#   late = the peer sends a fresh request late ms after T0 (if the transport is still open)

BASE_MS = 1_000_000            # VLoop starts at 1000.0 s


def shut_model_phase(c) -> str:
    ph, d = c["phase"], c.get("d")
    if ph in ("idle", "new", "partial"):
        return "idle"
    if ph in ("h", "pipe"):
        return "hinf" if d is None else f"h{d}"
    if ph == "u":
        return "uinf" if d is None else f"u{d}"
    if ph == "r":
        return f"r{d}"
    raise ValueError(ph)


def shut_model_lines(case):
    t, s, a = case["t"], case["s"], BASE_MS + case["off"]
    lines = []
    for c in case["conns"]:
        lines.append(f"SHUT {t} {s} {a} {shut_model_phase(c)}")
        if c.get("late") is not None:
            lines.append(f"LATE {t} {s} {a} {shut_model_phase(c)} {c['late']}")
    lines.append(f"RET {t} {s} {a} " + " ".join(shut_model_phase(c) for c in case["conns"]))
    return lines


def shut_has_ties(case) -> bool:
    """a handler/arrival instant that may coincide with T_sd or a deadline: asyncio's order of two timers due
    at the same instant is not part of the model, so such cases are checked by the oracle only"""
    for c in case["conns"]:
        for k in ("d", "late"):
            v = c.get(k)
            if v is not None and v % 250 == 0:
                return True
    return False


class _Collect(logging.Handler):
    def __init__(self):
        super().__init__()
        self.sink = None

    def emit(self, record):
        if self.sink is not None:
            self.sink.setdefault("server_log", []).append(
                record.getMessage() + (": " + type(record.exc_info[1]).__name__ if record.exc_info and record.exc_info[1] else ""))


_COLLECT = _Collect()


def _quiet_logger(sink):
    """server logger that keeps records (for the evidence) instead of printing tracebacks"""
    lg = logging.getLogger("harness.c20.server")
    lg.propagate = False
    if _COLLECT not in lg.handlers:
        lg.addHandler(_COLLECT)
    _COLLECT.sink = sink
    return lg


def impl_shutdown(case):
    """Run the case on the real server; returns per-connection observables and global ones (ms relative to T0)."""
    from aiohttp import web
    from harness.common.loop import VLoop
    from harness.common.transport import MemTransport
    loop = VLoop()
    asyncio.set_event_loop(loop)
    loop.vtime = (BASE_MS + case["off"]) / 1000.0
    t0 = [None]
    over = [False]          # the observation window is over (harness teardown cancels what is left)
    shutting = [False]      # set when Server.pre_shutdown() is called (or, failing that, when on_shutdown starts)
    gate = asyncio.Event()  # handlers with d == 0 wait for it; released in the step that calls cleanup()
    obs = [{"closed": None, "handler": "none", "late": False, "late_sent": False, "body_sent": False, "queued_started": []}
           for _ in case["conns"]]

    def now():
        return int(round((loop.time() - t0[0]) * 1000)) if t0[0] is not None else -1

    async def handler(request):
        cid = int(request.headers["X-Conn"])
        if request.path == "/late":
            obs[cid]["late"] = True
            return web.Response(text="late")
        if request.path == "/warm" or request.path.startswith("/queued"):
            if request.path.startswith("/queued"):
                # a pipelined request that was parsed and queued behind the one in flight
                obs[cid]["queued_started"].append([request.path, bool(shutting[0]), now()])
            return web.Response(text="ok")
        dur = request.headers.get("X-Dur")
        try:
            if request.headers.get("X-Body") == "late":
                # the whole body has been received already; it is read only after `dur` ms
                await asyncio.sleep(int(dur) / 1000.0)
                await request.read()
            elif request.headers.get("X-Body"):
                await request.read()
            elif dur == "gate":
                await gate.wait()
            elif dur == "inf":
                await asyncio.Event().wait()
            else:
                await asyncio.sleep(int(dur) / 1000.0)
        except asyncio.CancelledError:
            if not over[0]:
                obs[cid]["handler"] = f"cancel@{now()}"
            raise
        obs[cid]["handler"] = f"done@{now()}"
        return web.Response(text="ok")

    app = web.Application()
    app.router.add_route("*", "/{tail:.*}", handler)
    glob_obs = {"on_shutdown_begin": None, "open_at_on_shutdown": [], "returned": None, "open_at_return": []}

    async def on_sd(app):
        shutting[0] = True
        glob_obs["on_shutdown_begin"] = now()
        glob_obs["open_at_on_shutdown"] = [i for i, (p, tr) in enumerate(conns) if not tr.closed]
        if case["s"]:
            await asyncio.sleep(case["s"] / 1000.0)

    app.on_shutdown.append(on_sd)
    conns = []

    def req(cid, path="/", dur="0", body_len=None, body_mode="1"):
        h = f"GET {path} HTTP/1.1\r\nHost: x\r\nX-Conn: {cid}\r\nX-Dur: {dur}\r\n"
        if body_len is not None:
            h += f"X-Body: {body_mode}\r\nContent-Length: {body_len}\r\n"
        return (h + "\r\n").encode()

    try:
        runner = web.AppRunner(app, access_log=None, shutdown_timeout=case["t"] / 1000.0, logger=_quiet_logger(glob_obs))
        loop.run_until_complete(runner.setup())
        _orig_pre = runner.server.pre_shutdown

        def _pre():
            shutting[0] = True
            return _orig_pre()

        runner.server.pre_shutdown = _pre      # harness-side marker of the shutdown instant
        for cid, c in enumerate(case["conns"]):
            proto = runner.server()

            class Tr(MemTransport):
                def close(self, _cid=cid):
                    if not self.closed and not over[0]:
                        obs[_cid]["closed"] = now()
                    super().close()

            tr = Tr(loop, proto)
            proto.connection_made(tr)
            conns.append((proto, tr))
            ph, d = c["phase"], c.get("d")
            dur = "inf" if d is None else ("gate" if d == 0 else str(d))
            if ph == "idle":
                proto.data_received(req(cid, "/warm"))
            elif ph == "partial":
                proto.data_received(req(cid, "/never")[:25])
            elif ph == "h":
                proto.data_received(req(cid, "/", dur))
            elif ph == "pipe":
                # one read delivers the request in flight and k more, which are parsed and queued
                proto.data_received(req(cid, "/", dur) + b"".join(req(cid, f"/queued{j}") for j in range(c.get("k", 1))))
            elif ph == "u":
                proto.data_received(req(cid, "/", "0", body_len=10) + b"12345")
            elif ph == "r":
                proto.data_received(req(cid, "/", dur, body_len=10, body_mode="late") + b"1234567890")
            loop.run_until_idle()
        t0[0] = loop.time()
        for cid, c in enumerate(case["conns"]):
            proto, tr = conns[cid]
            if c["phase"] == "u" and c.get("d") is not None:
                def send_body(proto=proto, tr=tr, cid=cid):
                    if not tr.closed:
                        obs[cid]["body_sent"] = True
                        proto.data_received(b"67890")
                loop.call_at(t0[0] + c["d"] / 1000.0, send_body)
            if c.get("late") is not None:
                def send_late(proto=proto, tr=tr, cid=cid):
                    if not tr.closed:
                        obs[cid]["late_sent"] = True
                        proto.data_received(req(cid, "/late"))
                loop.call_at(t0[0] + c["late"] / 1000.0, send_late)
        async def _shutdown():
            gate.set()          # "same tick": handlers waiting for the gate are woken in the iteration cleanup() starts in
            await runner.cleanup()

        task = loop.create_task(_shutdown())
        horizon = t0[0] + (case["s"] + 3 * max(case["t"], 0)) / 1000.0 + 200.0
        for _ in range(2000):
            loop.run_until_idle()
            if task.done():
                break
            nt = loop.next_timer()
            if nt is None or nt > horizon:
                break
            loop.vtime = max(loop.vtime, nt)
        if task.done():
            task.result()
            glob_obs["returned"] = now()
            glob_obs["open_at_return"] = [i for i, (p, tr) in enumerate(conns) if not tr.closed]
        else:
            for i, c in enumerate(case["conns"]):
                if c["phase"] in ("h", "pipe", "u", "r") and obs[i]["handler"] == "none":
                    obs[i]["handler"] = "stuck"
    finally:
        over[0] = True
        logging.disable(logging.CRITICAL)
        try:
            pending = [x for x in asyncio.all_tasks(loop) if not x.done()]
            for x in pending:
                x.cancel()
            if pending:
                loop.run_until_complete(asyncio.gather(*pending, return_exceptions=True))
            for p, tr in conns:
                tr.protocol = None
        finally:
            logging.disable(logging.NOTSET)
            asyncio.set_event_loop(None)
            loop.close()
    return obs, glob_obs


def shut_impl_strings(case, obs, glob_obs):
    out = []
    for c, o in zip(case["conns"], obs):
        h = o["handler"]
        if c["phase"] in ("idle", "new", "partial"):
            h = "none"
        out.append(f"closed={'never' if o['closed'] is None else o['closed']} handler={h}")
        if c.get("late") is not None:
            out.append("1" if o["late"] else "0")
    out.append("never" if glob_obs["returned"] is None else str(glob_obs["returned"]))
    return out


def shutdown_oracle(case, obs, glob_obs):
    """Property clauses evaluated on the implementation's observables only.  Returns [(what, diag)]."""
    t, s = case["t"], case["s"]
    bad = []
    bound = s + 2 * max(t, 0) + 2000  # twice the timeout after the on_shutdown signal, + rounding of two deadlines
    for i, (c, o) in enumerate(zip(case["conns"], obs)):
        ph, d = c["phase"], c.get("d")
        if o["late"]:
            bad.append((f"connection {i} ({ph}): a request sent {c['late']} ms after shutdown began was dispatched to a handler",
                        {"kind": "late_accepted", "conn": i}))
        after = [q for q in o["queued_started"] if q[1]]
        if after:
            bad.append((f"connection {i} ({ph}): pipelined request(s) {[q[0] for q in after]} that were still queued when shutdown "
                        f"began were handed to a handler afterwards (at {[q[2] for q in after]} ms)",
                        {"kind": "queued_started_after_shutdown", "conn": i, "paths": [q[0] for q in after]}))
        if ph in ("idle", "new", "partial"):
            if glob_obs["on_shutdown_begin"] is not None and i in glob_obs["open_at_on_shutdown"]:
                bad.append((f"connection {i} ({ph}) was idle when shutdown began but its transport was still open when the "
                            f"on_shutdown receivers started (closed at {o['closed']} ms)",
                            {"kind": "idle_open_during_on_shutdown", "conn": i, "closed": o["closed"], "s": s}))
        # (a handler that touches its request body exactly at the deadline races the deadline: strict for r)
        if ph in ("h", "pipe", "r") and d is not None and not o["handler"].startswith("done@") and (
                (t > 0 and (d < s + t or (d == s + t and ph != "r"))) or d <= s):
            bad.append((f"connection {i}: handler needing {d} ms (<= on_shutdown {s} + timeout {t}) did not complete: {o['handler']}",
                        {"kind": "inflight_cut_short", "conn": i, "handler": o["handler"]}))
        if ph == "u" and d is not None and t > 0 and d < s + t and not o["handler"].startswith("done@"):
            bad.append((f"connection {i}: handler waiting for body bytes that the peer sent {d} ms after shutdown began "
                        f"(<= on_shutdown {s} + timeout {t}) did not complete: {o['handler']}",
                        {"kind": "upload_starved", "conn": i, "handler": o["handler"], "body_sent": o["body_sent"]}))
        if ph in ("h", "pipe", "u", "r"):
            h = o["handler"]
            at = int(h.split("@")[1]) if "@" in h else None
            if at is None or at > bound:
                bad.append((f"connection {i}: handler neither completed nor was cancelled within on_shutdown + 2 x timeout "
                            f"(+2 s rounding) = {bound} ms (shutdown_timeout={t} ms): {h}",
                            {"kind": "overdue", "conn": i, "handler": h, "t": t}))
    if glob_obs["returned"] is None:
        bad.append(("runner.cleanup() never returned", {"kind": "cleanup_never_returns", "t": t}))
    else:
        if glob_obs["open_at_return"]:
            bad.append((f"connections {glob_obs['open_at_return']} still open when cleanup() returned",
                        {"kind": "open_after_cleanup", "conns": glob_obs["open_at_return"]}))
        if glob_obs["returned"] > bound:
            bad.append((f"cleanup() returned after {glob_obs['returned']} ms > {bound} ms", {"kind": "cleanup_overdue"}))
    return bad


def gen_shutdown_cases(ctx):
    rng = ctx.rng
    cases = []
    cfgs = [(2000, 0, 0), (2000, 250, 0), (10000, 0, 0), (10000, 4000, 250), (7500, 250, 0), (7500, 4000, 500), (5250, 750, 250)]
    if not ctx.quick:
        cfgs += [(t, s, off) for t in (1000, 5000, 6000, 12500) for s in (0, 500, 3000, 20000) for off in (0, 250, 750)]

    def placements(t, s):
        base = [125, s - 125, s, s + 125, s + t - 125, s + t, s + t + 125, s + t + 875, s + t + 1125, s + 2 * t - 125, s + 2 * t,
                s + 2 * t + 125, s + 2 * t + 1125, s + 2 * t + 2125, s + 3 * t + 125]
        return sorted({d for d in base if d > 0})

    for (t, s, off) in cfgs:
        pl = placements(t, s)
        singles = [{"phase": "idle"}, {"phase": "new"}, {"phase": "partial"}, {"phase": "h", "d": None}, {"phase": "u", "d": None}]
        singles += [{"phase": "h", "d": d} for d in pl]
        singles += [{"phase": "pipe", "d": d, "k": 1 + (j % 3)} for j, d in enumerate(pl[::3])]
        # the request in flight ends between pre_shutdown() and RequestHandler.shutdown() (during the on_shutdown
        # signal), or is woken in the very iteration cleanup() starts in (d = 0), with 1..3 requests queued behind it
        singles += [{"phase": "pipe", "d": d, "k": k} for k in (1, 3) for d in sorted({0, 125, s - 125, s + 125}) if d >= 0]
        singles += [{"phase": "h", "d": 0}]
        # the whole body was received before shutdown; the handler reads it d ms after T0
        singles += [{"phase": "r", "d": d} for d in pl]
        singles += [{"phase": "u", "d": d} for d in (125, s + 125, s + t - 125, s + t + 125) if d > 0]
        for c in singles:
            lates = [None, 125] + ([s - 125] if s > 250 else []) + [s + 125]
            if ctx.quick and c["phase"] not in ("idle", "new", "partial"):
                lates = [None, rng.choice(lates[1:])]
            if c["phase"] in ("u",):
                lates = [None]      # whatever the peer sends next on this connection IS the awaited body
            for late in lates:
                cases.append({"suite": "shutdown", "t": t, "s": s, "off": off, "conns": [dict(c, late=late)]})
    cfgs2 = cfgs + [(0, 0, 0), (0, 250, 0)]
    for _ in range(250 if ctx.quick else 6000):
        t, s, off = rng.choice(cfgs2)
        pl = placements(max(t, 1000), s)
        conns = []
        for _ in range(rng.randint(2, 4)):
            ph = rng.choice(["idle", "new", "partial", "h", "h", "h", "pipe", "u", "r"])
            c = {"phase": ph}
            if ph == "pipe":
                c["k"] = rng.randint(1, 3)
            if ph in ("h", "pipe"):
                c["d"] = rng.choice(pl + [None, 0]) if t > 0 else rng.choice(pl + [0])
                if t <= 0 and rng.random() < 0.3:
                    c["d"] = None
            elif ph == "u":
                c["d"] = rng.choice([125, s + 125, s + max(t, 1000) - 125, None])
            elif ph == "r":
                c["d"] = rng.choice(pl)
            c["late"] = None if ph == "u" else rng.choice([None, None, 125, s + 125, max(125, s - 125)])
            conns.append(c)
        cases.append({"suite": "shutdown", "t": t, "s": s, "off": off, "conns": conns})
    return cases


def check_shutdown_case(ctx, case, model_lines_out, record=True):
    obs, glob_obs = impl_shutdown(case)
    impl = shut_impl_strings(case, obs, glob_obs)
    res = {"impl": impl, "model": model_lines_out, "violates": False, "why": []}
    ties = shut_has_ties(case)
    if record:
        ctx.case(("shutdown", case["t"], case["s"], case["off"], tuple(impl)),
                 nontrivial=any(c["phase"] in ("h", "pipe", "u", "r") for c in case["conns"]))
        ctx.count(f"shutdown:conns:{len(case['conns'])}")
        for c, o in zip(case["conns"], obs):
            ctx.count("shutdown:phase:" + c["phase"])
            ctx.count("shutdown:handler:" + o["handler"].split("@")[0])
        ctx.count("shutdown:oracle_only(ties)" if ties else "shutdown:compared_with_model")
        for m in glob_obs.get("server_log", []):
            ctx.count("shutdown:server_log:" + m[:60])
    if model_lines_out is not None and not ties and model_lines_out != impl:
        ctx.disagreement("shutdown", case, model_lines_out, impl)
        res["disagree"] = True
    for what, diag in shutdown_oracle(case, obs, glob_obs):
        res["violates"] = True
        res["why"].append(what)
        if record:
            ctx.violation(dict(case, diag=diag, impl_obs=impl), "shutdown: " + what)
    return res


def suite_shutdown(ctx, exe):
    cases = []
    for p in sorted(glob.glob(os.path.join(fw.VERIF, "corpus", "C20", "*.json"))):
        c = json.load(open(p))
        c = c.get("case", c)
        if c.get("suite") == "shutdown":
            cases.append({k: c[k] for k in ("suite", "t", "s", "off", "conns")})
            ctx.count("shutdown:corpus")
    cases += gen_shutdown_cases(ctx)
    lines, spans = [], []
    for c in cases:
        ls = shut_model_lines(c)
        spans.append((len(lines), len(lines) + len(ls)))
        lines += ls
    model = fw.run_model(exe, lines) if exe else None
    n_cmp = 0
    for c, (a, b) in zip(cases, spans):
        check_shutdown_case(ctx, c, model[a:b] if model else None)
        n_cmp += 0 if (shut_has_ties(c) or not model) else 1
    ctx.sample({"case": cases[-1], "model": model[spans[-1][0]:spans[-1][1]] if model else None})
    ctx.traces_validated += n_cmp
    ctx.close_suite("shutdown", n_cmp)


def run(ctx):
    ok, exe = build_model()
    ctx.oblige("model-runner-build", "correspondence", ok, "" if ok else exe)
    if not ok:
        exe = None
    suite_lifecycle(ctx, exe)
    suite_shutdown(ctx, exe)


def replay(ctx, case):
    ok, exe = build_model()
    if case.get("suite") == "lifecycle":
        c = {k: case[k] for k in ("suite", "driver", "tree", "fails", "cancels", "hang") if k in case}
        m = fw.run_model(exe, [model_line(c)])[0] if ok else None
        return check_lifecycle_case(ctx, c, m, record=False)
    if case.get("suite") == "shutdown":
        c = {k: case[k] for k in ("suite", "t", "s", "off", "conns")}
        m = fw.run_model(exe, shut_model_lines(c)) if ok else None
        return check_shutdown_case(ctx, c, m, record=False)
    return {"violates": None, "note": "unknown suite"}
