"""C18 — timeouts and cancellation are bounded and leave no residue.

A *history* is a list of external stimuli applied to a real aiohttp.ClientSession (real
TCPConnector: pool, shared DNS lookup, ceil_timeout around connect / sock_connect; real
ResponseHandler sock_read timer; real TimeoutHandle/TimerContext) living on a virtual-time loop
with an in-memory origin.  Time is counted in ticks of 1/16 s (exact in binary floating point).

  ["adv", d]            let d ticks pass (every timer that becomes due fires, in order)
  ["start", t, cfg]     create the task of request t;  cfg = {"total","connect","sock_connect",
                        "sock_read" (ticks or null), "thr" (ceil threshold, ticks), "block" (the peer does not
                        read the request body: the writer task stays alive until "written")}
  ["dns"]               the (single, shared) in-flight DNS lookup answers
  ["conn", t]           t's TCP connection attempt succeeds
  ["tls", t]            (https histories, case["tls"]) t's TLS handshake completes; until then the request is still
                        connecting for the model: sock_connect / connect / total must bound the handshake too
  ["written", t]        the peer drains t's request body (resume_writing)
  ["data", t, kind]     response bytes for t arrive: kind = "part" (inside the current unit: mid-line in the
                        head, mid-chunk in the body), "head" (rest of the head), "big" (body bytes beyond the
                        read buffer high-water mark), "end" (rest of the body)
                        a 4th element {"inject": k} creates the task INSIDE the loop run of the preceding stimulus,
                        just before its k-th busy iteration (a request arriving while another one is processing
                        its cancellation / timeout)
  ["read", t]           the caller of t starts `await resp.read()`
  ["cancel", t]         task.cancel() of the caller of t
After every stimulus the loop runs until nothing is ready (quiescence) and an abstract snapshot of
the whole system is taken and compared with the extracted model (coq/Model/Timeouts.v); the
model-independent property oracle is evaluated on the implementation snapshot.
Two further suites evaluate the oracle only: a stall after every byte offset of the response
(mid-line, mid-chunk) for each timer, and task.cancel() before every single event-loop iteration of
complete exchanges (every point at which the caller's task can be cancelled).
Instrumentation is harness-side only (resolver object, patched aiohappyeyeballs.start_connection,
loop.create_connection override, Connection subclass); /repo is not edited.
"""
from __future__ import annotations

import asyncio
import glob
import json
import math
import os
from unittest import mock

from harness.common import framework as fw

PROP = "C18"
GENERATED = ["TimeoutsGen.v"]
RULE = ("suite histories: stimulus histories (start/dns/conn/written/data/read/cancel/adv) over <= 4 requests sharing "
        "one pool (limit 0/1/2) and one DNS lookup, timeouts total/connect/sock_connect/sock_read below and above the "
        "ceil threshold, start offsets inside the second, generated from one PRNG seeded by VERIF_SEED by looking at "
        "which stimuli the implementation can currently take (plus the corpus); each history runs on the real "
        "ClientSession under virtual time, the abstract snapshot after EVERY stimulus (clock, pool occupancy, open "
        "transports, writer tasks, lookup, armed timer deadlines, per-request outcome and failure time) is compared "
        "with the extracted model, and the oracle (bound, residue, isolation, follow-up request) is evaluated on the "
        "implementation.  suite stall_sweep: the response stalls after every byte offset x timer x below/above the "
        "threshold.  suite cancel_sweep: task.cancel() before every loop iteration of complete exchanges.  suite ws_close: "
        "ws.close() against a silent / chatty peer and cancelled at every iteration.  "
        "Non-trivial = at least one request ended by timeout or cancellation; distinct by hash of the history and "
        "its final implementation snapshot.")
TRUSTED = [
    "translator/gen_timeouts.py (TimeoutHandle.start / ceil_timeout / _reschedule_timeout statement translation; "
    "ClientTimeout.__post_init__; ast shape checks of TimerContext, of the ResponseHandler timer methods and of the "
    "wiring in _request, _connect_and_send_request, BaseConnector.connect, _wrap_create_connection) and "
    "translator/gen_pool.py (capacity formula)",
    "extraction: ExtrOcamlBasic only; ocaml/common/conv.ml + ocaml/C18/driver.ml (event parsing, snapshot printing)",
    "correspondence harness harness/c18.py (virtual-time loop, in-memory transport, scripted resolver / socket connect / "
    "origin): sampled, not proved",
    "modelled, not verified: asyncio tasks, futures, call_at/call_later, asyncio.timeout, task.cancel/uncancel; the HTTP "
    "parser and StreamReader are represented by the four abstract data kinds; time is virtual",
]
ASSUMPTIONS = [
    "One origin (one connection key, one DNS name, one address), limit_per_host unset, no proxy/TLS, traces=[]; idle "
    "pooled connections stay connected (no peer close, keep-alive never expires during a history).",
    "Configured timeouts are non-negative; the peer sends nothing while reading is paused or after a sock_read timeout has "
    "been latched.  The end of the body before the caller reads is generated for Content-Length responses (one segment "
    "with more than 2 x read_bufsize bytes and the end); for chunked responses the chunk parser itself pauses mid-segment, "
    "which is not an event of the model.",
    "Close-delimited responses (Connection: close / HTTP/1.0) never reach their end inside a random history (their end "
    "is the peer's close; the model pools a connection at the end of a body); their end is exercised by the stall sweep "
    "and by the follow-up phase.  Interim 1xx responses are, for the model, data that does not complete the head.",
    "The await points at which cancellation is tried are the event-loop iteration boundaries of the real loop "
    "(instrumentation), not an enumeration proved complete.",
    "Model/implementation agreement is validated on the generated histories only.",
]

TPS = 16                      # ticks per second
T0 = 1000.0                   # VLoop start time (a whole second)
HEAD = b"HTTP/1.1 200 OK\r\nContent-Type: text/plain\r\nTransfer-Encoding: chunked\r\n\r\n"
BODY_CHUNKS = [b"a" * 20, b"b" * 600, b"c" * 20]
READ_BUFSIZE = 64             # StreamReader high-water mark = 128 bytes
TIMER_KINDS = {"TimeoutHandle.__call__": "total", "Timeout._on_timeout": "ctx",
               "ResponseHandler._on_read_timeout": "read"}
TIMEOUT_KINDS = ("total_timeout", "connect_timeout", "sock_read_timeout")


def _chunked(parts):
    return b"".join(b"%x\r\n%s\r\n" % (len(p), p) for p in parts) + b"0\r\n\r\n"


BODY = _chunked(BODY_CHUNKS)
PLAIN = b"".join(BODY_CHUNKS)
FULL = HEAD + BODY
HEAD_CL = b"HTTP/1.1 200 OK\r\nContent-Type: text/plain\r\nContent-Length: %d\r\n\r\n" % len(PLAIN)
FULL_CL = HEAD_CL + PLAIN      # Content-Length framing: a segment can carry > 2*read_bufsize body bytes AND the end


# bodies delimited by the close of the connection: HTTP/1.1 without length / chunking, and an HTTP/1.0 response
HEAD_EOF = b"HTTP/1.1 200 OK\r\nContent-Type: text/plain\r\nConnection: close\r\n\r\n"
HEAD_10 = b"HTTP/1.0 200 OK\r\nContent-Type: text/plain\r\n\r\n"
LAYOUTS = {"chunked": (HEAD, FULL), "cl": (HEAD_CL, FULL_CL), "eof": (HEAD_EOF, HEAD_EOF + PLAIN), "http10": (HEAD_10, HEAD_10 + PLAIN)}
CLOSE_DELIMITED = ("eof", "http10")
INTERIMS = [b"HTTP/1.1 103 Early Hints\r\nLink: </style.css>; rel=preload\r\n\r\n", b"HTTP/1.1 102 Processing\r\n\r\n",
            b"HTTP/1.1 100 Continue\r\n\r\n"]


def full_of(layout):
    return LAYOUTS[layout][1]


def head_end_of(layout):
    return len(LAYOUTS[layout][0])


def build_model():
    # the framework's stamp follows the dependency file, which can lag behind a regenerated Generated/*.v;
    # hash the sources of the runner here as well and force a rebuild when they changed
    import hashlib
    h = hashlib.sha256()
    for rel in ("coq/Generated/TimeoutsGen.v", "coq/Model/Timeouts.v", "coq/Extract/C18.v", "ocaml/C18/driver.ml"):
        try:
            h.update(open(os.path.join(fw.VERIF, rel), "rb").read())
        except FileNotFoundError:
            h.update(b"<missing>")
    own = os.path.join(fw.VERIF, "ocaml", "C18", ".stamp-c18")
    old = open(own).read() if os.path.exists(own) else ""
    if old != h.hexdigest():
        try:
            os.remove(os.path.join(fw.VERIF, "ocaml", "C18", ".stamp"))
        except FileNotFoundError:
            pass
    ok, exe = fw.ocaml_model("C18", ["Model/Timeouts.vo"])
    if ok:
        with open(own, "w") as f:
            f.write(h.hexdigest())
    return ok, exe


# --------------------------------------------------------------------------------------------
# implementation side: one real session, instrumented from outside

class World:
    def __init__(self, limit=0, offset=0, tls=False):
        import aiohttp
        from aiohttp import connector as cmod
        from aiohttp.abc import AbstractResolver
        from harness.common.loop import VLoop
        from harness.common.transport import MemTransport

        w = self

        class Loop(VLoop):
            async def create_connection(self, protocol_factory, *, ssl=None, sock=None, server_hostname=None, **kw):
                if ssl is not None:
                    # the TLS handshake: completes on the "tls" stimulus
                    tid = w.tid_of.get(asyncio.current_task())
                    fut = w.loop.create_future()
                    w.tls_futs[tid] = fut
                    try:
                        await fut
                    finally:
                        if w.tls_futs.get(tid) is fut:
                            del w.tls_futs[tid]
                proto = protocol_factory()
                tr = MemTransport(self, proto)
                proto.connection_made(tr)
                w.transports.append(tr)
                return tr, proto

        class Resolver(AbstractResolver):
            async def resolve(self, host, port=0, family=0):
                w.dns_calls += 1
                fut = w.loop.create_future()
                w.dns_futs.append(fut)
                await fut
                return [{"hostname": host, "host": "10.0.0.1", "port": port, "family": family, "proto": 0, "flags": 0}]

            async def close(self):
                pass

        async def start_connection(addr_infos, **kw):
            tid = w.tid_of.get(asyncio.current_task())
            fut = w.loop.create_future()
            w.conn_futs[tid] = fut
            w.sock_started[tid] = w.tick()
            try:
                await fut
            finally:
                if w.conn_futs.get(tid) is fut:
                    del w.conn_futs[tid]
            return object()

        class Conn(cmod.Connection):
            def __init__(self, connector, key, protocol, loop):
                super().__init__(connector, key, protocol, loop)
                tid = w.tid_of.get(asyncio.current_task())
                if tid is not None and protocol.transport is not None:
                    w.tr_of[tid] = protocol.transport
                    w.proto_of[tid] = protocol
                    w.conn_obj[tid] = self
                    w.last_io[tid] = w.tick()
                    if w.cfg[tid].get("block") and not protocol._paused:
                        protocol.pause_writing()
                        w.wpaused[tid] = True

        self.loop = Loop()
        self.loop.vtime = T0 + offset / TPS
        self.offset = offset
        asyncio.set_event_loop(self.loop)
        self.patches = [
            mock.patch.object(cmod, "aiofastnet", None),
            mock.patch.object(cmod.aiohappyeyeballs, "start_connection", start_connection),
            mock.patch.object(cmod, "monotonic", lambda: w.loop.vtime),
            mock.patch.object(cmod, "Connection", Conn),
        ]
        for p in self.patches:
            p.start()
        self.cfg: dict = {}
        self.tasks: dict = {}
        self.tid_of: dict = {}
        self.transports: list = []
        self.tr_of: dict = {}
        self.proto_of: dict = {}
        self.conn_obj: dict = {}
        self.wpaused: dict = {}
        self.conn_futs: dict = {}
        self.tls_futs: dict = {}
        self.tls = tls
        self.url = ("https" if tls else "http") + "://origin.test/p"
        self.sock_started: dict = {}
        self.dns_futs: list = []
        self.dns_calls = 0
        self.sent: dict = {}          # t -> bytes of the response delivered so far
        self.gate: dict = {}
        self.outcome: dict = {}       # t -> (kind, tick)
        self.head_at: dict = {}
        self.bodies: dict = {}
        self.started_at: dict = {}
        self.last_io: dict = {}       # t -> tick of the last socket activity that (re)starts the sock_read period
        self.cancelled: set = set()
        self.interims: dict = {}
        self.eff_total: dict = {}
        self.limit = limit
        self.iter_hook = None         # called before every loop iteration (cancel sweep)
        self.inject = None            # (k, start stimulus): start that request before the k-th busy iteration
        self.inject_count = 0
        self.iterations = 0

        async def mk():
            conn = aiohttp.TCPConnector(limit=limit, limit_per_host=0, resolver=Resolver(), use_dns_cache=True,
                                        ttl_dns_cache=None, enable_cleanup_closed=False, keepalive_timeout=10 ** 6)
            return conn, aiohttp.ClientSession(connector=conn, read_bufsize=READ_BUFSIZE)
        self.connector, self.session = self.loop.run_until_complete(mk())
        self.base_tasks = set(asyncio.all_tasks(self.loop))

    # -- time
    def tick(self):
        return round((self.loop.vtime - T0) * TPS)

    def settle(self, max_iters=20000):
        loop = self.loop
        old = loop.auto_advance
        loop.auto_advance = False
        try:
            for _ in range(max_iters):
                busy = bool(loop._ready) or bool(loop._scheduled and loop._scheduled[0]._when <= loop.vtime)
                if self.inject is not None and busy:
                    if self.inject_count >= self.inject[0]:
                        st, self.inject = self.inject[1], None
                        self._start(st)           # lands in the ready queue behind what is already scheduled
                    self.inject_count += 1
                if self.iter_hook is not None and busy:
                    self.iter_hook(self.iterations)
                    busy = True
                loop.call_soon(loop.stop)
                loop.run_forever()
                self.iterations += 1
                if not busy and not loop._ready:
                    return
            raise RuntimeError("loop does not quiesce")
        finally:
            loop.auto_advance = old

    def advance(self, d):
        target = self.loop.vtime + d / TPS
        while True:
            nt = self.loop.next_timer()
            if nt is None or nt > target:
                break
            if nt > self.loop.vtime:
                self.loop.vtime = nt
            self.settle()
        self.loop.vtime = target
        self.settle()

    # -- the caller of one request
    async def _client(self, t, cfg):
        import aiohttp

        def sec(x):
            return None if x is None else x / TPS
        try:
            tmo = aiohttp.ClientTimeout(total=sec(cfg.get("total")), connect=sec(cfg.get("connect")),
                                        sock_connect=sec(cfg.get("sock_connect")), sock_read=sec(cfg.get("sock_read")),
                                        ceil_threshold=cfg.get("thr", 5 * TPS) / TPS)
        except Exception as e:  # noqa
            self.outcome[t] = ("error:" + type(e).__name__, self.tick())
            return
        self.eff_total[t] = None if tmo.total is None else round(tmo.total * TPS)
        body = b"x" * 70000 if cfg.get("block") else None
        in_read = False
        resp = None
        try:
            if cfg.get("plain"):
                # no context manager: after a failure inside aiohttp the caller does nothing more, so whatever
                # cleaning up happens is aiohttp's own; a caller cancelled in its own code closes the response
                resp = await self.session.request("POST" if body else "GET", self.url, data=body, timeout=tmo)
                self.head_at[t] = self.tick()
                await self.gate[t].wait()
                in_read = True
                self.bodies[t] = await resp.read()
            else:
                async with self.session.request("POST" if body else "GET", self.url, data=body,
                                                timeout=tmo) as resp:
                    self.head_at[t] = self.tick()
                    await self.gate[t].wait()
                    self.bodies[t] = await resp.read()
            self.outcome[t] = ("ok", self.tick())
        except BaseException as e:  # noqa
            if cfg.get("plain") and resp is not None and not in_read:
                resp.close()
            self.outcome[t] = (classify(e), self.tick())
            if isinstance(e, asyncio.CancelledError):
                raise

    # -- a WebSocket caller: handshake, then (on "ws_close") ws.close()
    async def _ws_client(self, t, cfg):
        """cfg: ws_close / ws_receive (ticks or None) go into timeout=ClientWSTimeout(...) when "use_timeout";
        receive_timeout (ticks) is the deprecated float parameter; "do_receive": call ws.receive() before closing."""
        import aiohttp
        import warnings
        kw = {}
        if cfg.get("use_timeout", True):
            tk = {}
            if cfg.get("ws_close") is not None:
                tk["ws_close"] = cfg["ws_close"] / TPS
            if cfg.get("ws_receive") is not None:
                tk["ws_receive"] = cfg["ws_receive"] / TPS
            kw["timeout"] = aiohttp.ClientWSTimeout(**tk)
        if cfg.get("receive_timeout") is not None:
            kw["receive_timeout"] = cfg["receive_timeout"] / TPS
        self.ws_events = []
        try:
            with warnings.catch_warnings():
                warnings.simplefilter("ignore", DeprecationWarning)
                cm = self.session.ws_connect("http://origin.test/ws", **kw)
            async with cm as ws:
                self.head_at[t] = self.tick()
                if cfg.get("do_receive"):
                    self.ws_events.append(("receive_start", self.tick()))
                    try:
                        msg = await ws.receive()
                        self.ws_events.append(("receive_returned", self.tick(), str(msg.type)))
                    except asyncio.TimeoutError:
                        self.ws_events.append(("receive_timeout", self.tick()))
                await self.gate[t].wait()
                self.ws_close_started = self.tick()
                self.ws_events.append(("close_start", self.tick()))
                ok = await ws.close()
                self.ws_events.append(("close_returned", self.tick()))
                self.ws_result = {"returned": ok, "close_code": ws.close_code, "closed": ws.closed}
            self.outcome[t] = ("ok", self.tick())
        except BaseException as e:  # noqa
            self.outcome[t] = (classify(e), self.tick())
            if isinstance(e, asyncio.CancelledError):
                raise

    def _start(self, st):
        t, cfg = st[1], st[2]
        if t in self.tasks:
            return
        self.cfg[t] = cfg
        self.gate[t] = asyncio.Event()
        self.started_at[t] = self.tick()
        task = self.loop.create_task(self._client(t, cfg))
        self.tasks[t] = task
        self.tid_of[task] = t

    def apply_pair(self, st, nxt):
        """Apply st, starting the request of `nxt` (a start stimulus with {"inject": k}) INSIDE the loop run of st:
        just before its k-th busy iteration, i.e. in the same iteration as / right behind the callbacks st
        triggered (a request arriving while another one is processing its cancellation or timeout)."""
        self.inject, self.inject_count = (nxt[3]["inject"], nxt), 0
        self.apply(st)
        if self.inject is not None:               # the loop went idle earlier: start it now
            self.inject = None
            self.apply(nxt)

    # -- stimuli
    def apply(self, st):
        op = st[0]
        if op == "adv":
            self.advance(st[1])
            return
        if op == "start":
            self._start(st)
        elif op == "dns":
            futs, self.dns_futs = self.dns_futs, []
            for f in futs:
                if not f.done():
                    f.set_result(None)
        elif op == "conn":
            f = self.conn_futs.get(st[1])
            if f is not None and not f.done():
                f.set_result(None)
        elif op == "tls":
            f = self.tls_futs.get(st[1])
            if f is not None and not f.done():
                f.set_result(None)
        elif op == "written":
            t = st[1]
            if self.wpaused.get(t) and t in self.tasks and not self.tasks[t].done():
                self.wpaused[t] = False
                p = self.proto_of[t]
                if p._paused:
                    p.resume_writing()
                    self.last_io[t] = self.tick()
        elif op == "data" and st[2] == "interim":
            # an interim response (100 Continue / 102 Processing / 103 Early Hints) in front of the real one
            t = st[1]
            tr = self.tr_of.get(t)
            if (t in self.tasks and not self.tasks[t].done() and tr is not None and not tr.closed and tr.reading
                    and self.sent.get(t, 0) == 0):
                n = self.interims.get(t, 0)
                self.interims[t] = n + 1
                self.last_io[t] = self.tick()
                tr.protocol.data_received(INTERIMS[n % len(INTERIMS)])
        elif op == "data":
            t, kind = st[1], st[2]
            self.deliver(t, next_cut(self.sent.get(t, 0), kind, self.layout(t)))
        elif op == "raw":                         # second-hop suite: arbitrary response bytes for t's connection
            tr = self.tr_of.get(st[1])
            if tr is not None and not tr.closed and tr.protocol is not None:
                tr.protocol.data_received(st[2].encode("latin-1"))
        elif op == "peer_close":
            tr = self.tr_of.get(st[1])
            if tr is not None and not tr.closed:
                tr.peer_close()
        elif op == "forget_conn":                 # the hop is over: request t no longer owns that connection
            self.tr_of.pop(st[1], None)
            self.proto_of.pop(st[1], None)
        elif op == "bytes":                       # stall sweep: deliver up to an absolute offset
            self.deliver(st[1], st[2])
        elif op == "ws_start":
            t, cfg = st[1], dict(st[2], ws=True)
            self.cfg[t] = cfg
            self.eff_total[t] = 300 * TPS            # the handshake runs under the session's default ClientTimeout
            self.gate[t] = asyncio.Event()
            self.started_at[t] = self.tick()
            task = self.loop.create_task(self._ws_client(t, cfg))
            self.tasks[t] = task
            self.tid_of[task] = t
        elif op == "ws_accept":
            import base64
            import hashlib
            import re
            tr = self.tr_of.get(st[1])
            if tr is not None and not tr.closed:
                m = re.search(rb"Sec-WebSocket-Key: ([^\r]+)\r\n", bytes(tr.buf))
                acc = base64.b64encode(hashlib.sha1(m.group(1) + b"258EAFA5-E914-47DA-95CA-C5AB0DC85B11").digest())
                tr.protocol.data_received(b"HTTP/1.1 101 Switching Protocols\r\nUpgrade: websocket\r\nConnection: upgrade\r\n"
                                          b"Sec-WebSocket-Accept: " + acc + b"\r\n\r\n")
        elif op == "ws_frame":                      # server frame: text "hi" / close 1000
            tr = self.tr_of.get(st[1])
            if tr is not None and not tr.closed and tr.protocol is not None:
                tr.protocol.data_received(b"\x81\x02hi" if st[2] == "text" else b"\x88\x02\x03\xe8")
        elif op == "ws_close":
            self.gate[st[1]].set()
        elif op == "read":
            t = st[1]
            if t in self.gate and not self.gate[t].is_set():
                self.gate[t].set()
                if t in self.tasks and not self.tasks[t].done():
                    self.last_io_on_resume(t)
        elif op == "cancel":
            t = st[1]
            if t in self.tasks and not self.tasks[t].done():
                self.cancelled.add(t)
                self.tasks[t].cancel()
        else:
            raise ValueError(op)
        self.settle()

    def layout(self, t):
        return self.cfg.get(t, {}).get("layout", "chunked")

    def complete(self, t):
        return self.sent.get(t, 0) >= len(full_of(self.layout(t)))

    def last_io_on_resume(self, t):
        tr = self.tr_of.get(t)
        if tr is not None and not tr.reading:
            self.last_io[t] = self.tick()

    def deliver(self, t, new):
        tr = self.tr_of.get(t)
        if t not in self.tasks or self.tasks[t].done():
            return
        if tr is not None and not tr.closed and tr.reading and tr.protocol is not None:
            pos = self.sent.get(t, 0)
            if new > pos:
                self.sent[t] = new
                self.last_io[t] = self.tick()
                full = full_of(self.layout(t))
                tr.protocol.data_received(full[pos:new])
                if new >= len(full) and self.layout(t) in CLOSE_DELIMITED:
                    tr.peer_close()          # the end of such a body IS the close of the connection

    # -- observation
    def bg_tasks(self):
        callers = set(self.tasks.values())
        return [x for x in asyncio.all_tasks(self.loop)
                if not x.done() and x not in self.base_tasks and x not in callers]

    def writer_owner(self, task):
        fr = getattr(task.get_coro(), "cr_frame", None)
        conn = fr.f_locals.get("conn") if fr is not None else None
        for t, c in self.conn_obj.items():
            if c is conn:
                return t
        return None

    def snapshot(self):
        c = self.connector
        timers = []
        for h in self.loop._scheduled:
            if h._cancelled:
                continue
            cb = getattr(h._callback, "__qualname__", repr(h._callback))
            if cb not in TIMER_KINDS:
                continue
            timers.append([round((h._when - T0) * TPS, 6), TIMER_KINDS[cb]])
        bg = self.bg_tasks()
        names = [(getattr(x.get_coro(), "__qualname__", "?"), x) for x in bg]
        writers = [x for n, x in names if "_write_bytes" in n]
        return {
            "now": self.tick(),
            "acq": len(c._acquired),
            "idle": sum(len(v) for v in c._conns.values()),
            "wait": sum(len(v) for v in c._waiters.values()),
            "open": sum(1 for tr in self.transports if not tr.closed),
            "created": len(self.transports),
            "writers": len(writers),
            "writer_owners": sorted(str(self.writer_owner(x)) for x in writers),
            "lookup": sum(1 for n, _ in names if "_resolve_host_with_throttle" in n),
            "other_bg": sorted(n for n, _ in names if "_write_bytes" not in n and "_resolve_host_with_throttle" not in n),
            "cached": int(("origin.test", 443 if self.tls else 80) in c._cached_hosts),
            "timers": sorted(timers),
            "out": {str(t): list(v) for t, v in sorted(self.outcome.items())},
            "live": sorted(t for t, task in self.tasks.items() if not task.done()),
            "loop_exceptions": [str(x.get("message")) for x in self.loop.exceptions],
        }

    def close(self):
        try:
            for task in list(self.tasks.values()):
                if not task.done():
                    task.cancel()
            for f in self.dns_futs:
                if not f.done():
                    f.cancel()
            self.iter_hook = None
            self.settle()
            self.loop.run_until_complete(self.session.close())
            self.settle()
            left = [x for x in asyncio.all_tasks(self.loop) if not x.done()]
            still_open = [tr for tr in self.transports if not tr.closed]
            return {"tasks_left": [getattr(x.get_coro(), "__qualname__", "?") for x in left],
                    "open_after_close": len(still_open),
                    "loop_exceptions": [str(x.get("message")) for x in self.loop.exceptions]}
        finally:
            for p in reversed(self.patches):
                p.stop()
            asyncio.set_event_loop(None)
            self.loop.close()


def classify(e) -> str:
    import aiohttp
    if isinstance(e, asyncio.CancelledError):
        return "cancelled"
    if isinstance(e, aiohttp.ConnectionTimeoutError):
        return "connect_timeout"
    if isinstance(e, aiohttp.SocketTimeoutError):
        return "sock_read_timeout"
    if isinstance(e, asyncio.TimeoutError):
        return "total_timeout"
    return "error:" + type(e).__name__


# cut points of the response stream: head lines, chunk boundaries
_HEAD_END = len(HEAD)
_FULL = len(FULL)


def _body_marks():
    """(start of chunk-size line, start of chunk data, end of chunk data) in the full stream"""
    o = _HEAD_END
    marks = []
    for p in BODY_CHUNKS:
        szline = len(b"%x\r\n" % len(p))
        marks.append((o, o + szline, o + szline + len(p)))
        o += szline + len(p) + 2
    return marks


_MARKS = _body_marks()


def next_cut(pos, kind, layout="chunked"):
    """Next offset to deliver up to, starting at pos."""
    if layout != "chunked":
        he, full = head_end_of(layout), len(full_of(layout))
        if kind == "part":
            if pos < he:
                return min(pos + 7, he - 3)
            return min(pos + 5, full - 4) if pos < full - 4 else pos
        if kind == "head":
            return he if pos < he else pos
        if kind == "big":
            return full - 10 if he <= pos < he + 400 else pos
        if kind == "end":
            return full if pos >= he else pos
        raise ValueError(kind)
    if kind == "part":
        if pos < _HEAD_END:
            return min(pos + 7, _HEAD_END - 3)       # stays inside the head (mid-line)
        for (o, d0, d1) in _MARKS:
            if pos < d1 - 4:
                return min(max(pos, d0) + 5, d1 - 4)  # into the middle of the current chunk
        return pos
    if kind == "head":
        return _HEAD_END if pos < _HEAD_END else pos
    if kind == "big":
        o, d0, d1 = _MARKS[1]
        return d1 - 10 if _HEAD_END <= pos < d0 else pos
    if kind == "end":
        return _FULL if pos >= _HEAD_END else pos
    raise ValueError(kind)


# --------------------------------------------------------------------------------------------
# model side

def _o(x):
    return "_" if x is None else str(int(x))


def ev_word(st, tls=False):
    op = st[0]
    if tls and op == "conn":
        return "A.0"               # TCP connected, TLS handshake pending: the model's connect phase goes on
    if op == "tls":
        return f"C.{st[1]}" if tls else "A.0"   # the connection is established when the handshake completes
    if op == "adv":
        return f"A.{st[1]}"
    if op == "start":
        c = st[2]
        return "S.%d.%s.%s.%s.%s.%d.%d" % (st[1], _o(c.get("total")), _o(c.get("connect")), _o(c.get("sock_connect")),
                                            _o(c.get("sock_read")), c.get("thr", 5 * TPS), 1 if c.get("block") else 0)
    if op == "dns":
        return "D"
    if op == "conn":
        return f"C.{st[1]}"
    if op == "written":
        return f"W.{st[1]}"
    if op == "data":
        # an interim response is, for the model, data that does not complete the head
        return f"X.{st[1]}.{ {'part': 'p', 'head': 'h', 'big': 'b', 'end': 'e', 'interim': 'p'}[st[2]] }"
    if op == "read":
        return f"R.{st[1]}"
    if op == "cancel":
        return f"K.{st[1]}"
    raise ValueError(op)


def model_line(case):
    return "RUN %d %d %s" % (TPS, case["limit"], " ".join([f"A.{case.get('offset', 0)}"] + [ev_word(s, case.get("tls", False)) for s in case["history"]]))


def parse_snap(txt, offset):
    d = dict(kv.split("=", 1) for kv in txt.split())
    tm = [] if d["timers"] == "-" else [[int(x.split(":")[0]) - offset, x.split(":")[1]] for x in d["timers"].split(",")]
    out = {}
    if d["out"] != "-":
        for x in d["out"].split(","):
            f = x.split(":")
            out[f[0]] = [f[1]] if len(f) == 2 else [f[1], int(f[2]) - offset]
    return {"now": int(d["now"]) - offset, "acq": int(d["acq"]), "idle": int(d["idle"]), "wait": int(d["wait"]),
            "open": int(d["open"]), "created": int(d["created"]), "writers": int(d["writers"]), "lookup": int(d["lookup"]),
            "cached": int(d["cached"]), "timers": sorted(tm), "out": out,
            "live": [] if d["live"] == "-" else sorted(int(x) for x in d["live"].split(",")), "pcs": d["pcs"]}


def impl_canon(s, offset):
    """The part of an implementation snapshot the model predicts (ticks relative to the history start)."""
    out = {}
    for t, (k, at) in s["out"].items():
        out[t] = ["ok"] if k == "ok" else [k, at - offset]
    return {"now": s["now"] - offset, "acq": s["acq"], "idle": s["idle"], "wait": s["wait"], "open": s["open"],
            "created": s["created"], "writers": s["writers"], "lookup": s["lookup"], "cached": s["cached"],
            "timers": sorted([int(round(a)) - offset if abs(a - round(a)) < 1e-9 else a - offset, k] for a, k in s["timers"]),
            "out": out, "live": s["live"]}


def diff_snap(m, i):
    return [k for k in i if m.get(k) != i[k]]


# --------------------------------------------------------------------------------------------
# property oracle on the implementation (model-independent)

def ceil_tick(x):
    return int(math.ceil(x / TPS)) * TPS


class Oracle:
    """Evaluated after every stimulus on the implementation snapshot + harness-side bookkeeping."""

    def __init__(self, w: World):
        self.w = w
        self.bound: dict = {}        # t -> (deadline tick, which) computed at the previous snapshot
        self.problems: list = []

    def applicable_bounds(self, t, snap):
        """Deadlines by which request t must have failed if nothing more happens (documented rule: now+timeout,
        rounded up to a whole second when the timeout is >= ceil_threshold)."""
        w = self.w
        cfg = w.cfg[t]
        thr = cfg.get("thr", 5 * TPS)

        def rule(start, T):
            return ceil_tick(start + T) if T >= thr else start + T
        out = []
        has_conn = t in w.tr_of
        in_body_idle = t in w.head_at and not w.gate[t].is_set()
        if in_body_idle:
            return out                                   # the caller is not awaiting aiohttp
        T = w.eff_total.get(t)
        if T:
            out.append((rule(w.started_at[t], T), "total"))
        if not has_conn:
            if cfg.get("connect"):
                out.append((rule(w.started_at[t], cfg["connect"]), "connect"))
            if (t in w.conn_futs or t in w.tls_futs) and cfg.get("sock_connect"):   # TCP connect + TLS handshake
                out.append((rule(w.sock_started[t], cfg["sock_connect"]), "sock_connect"))
        else:
            tr = w.tr_of[t]
            writer_alive = str(t) in snap["writer_owners"]
            if cfg.get("sock_read") and not writer_alive and tr.reading and t in w.last_io:
                out.append((rule(w.last_io[t], cfg["sock_read"]), "sock_read"))
        return out

    def check(self, snap, st):
        w, P = self.w, self.problems
        now = snap["now"]
        live = set(snap["live"])
        # ---- a request's own event must leave the connection of every other request alone (C18_bystander_untouched)
        reading_now = {t: (w.tr_of[t].reading, id(w.tr_of[t])) for t in live
                       if t in w.tr_of and not w.tr_of[t].closed and not w.complete(t)}    # t still owns its connection
        if st and st[0] == "read":
            for t2, (rd, ident) in reading_now.items():
                before = getattr(self, "prev_reading", {}).get(t2)
                if t2 != st[1] and before == (False, ident) and rd and not w.gate[t2].is_set():
                    P.append(f"the read of request {st[1]} resumed reading on the connection that now belongs to request {t2} "
                             f"(paused: its buffer is above the high-water mark) and re-armed its sock_read timer")
        self.prev_reading = reading_now
        # ---- bound: a request whose caller is awaiting must not outlive an applicable deadline
        for t in sorted(live):
            bs = self.applicable_bounds(t, snap)
            if bs:
                b = min(bs)
                self.bound[t] = b
                if now > b[0]:
                    P.append(f"request {t} is still pending at tick {now}, after its {b[1]} bound (tick {b[0]})")
            else:
                self.bound.pop(t, None)
        for t, (kind, at) in w.outcome.items():
            t = int(t)
            if getattr(self, "_seen", None) is None:
                self._seen = set()
            if t in self._seen:
                continue
            self._seen.add(t)
            cfg = w.cfg[t]
            if kind in TIMEOUT_KINDS:
                b = self.bound.get(t)
                if b is not None and at > b[0]:
                    P.append(f"request {t} failed with {kind} at tick {at}, later than its {b[1]} bound (tick {b[0]})")
                # ---- isolation: a timeout error needs a configured timeout of that kind that has elapsed
                T = {"total_timeout": w.eff_total.get(t),
                     "connect_timeout": min([x for x in (cfg.get("connect"), cfg.get("sock_connect")) if x] or [None]) if (cfg.get("connect") or cfg.get("sock_connect")) else None,
                     "sock_read_timeout": cfg.get("sock_read")}[kind]
                if not T:
                    P.append(f"request {t} failed with {kind} although no such timeout is configured")
                elif at < w.started_at[t] + T:
                    P.append(f"request {t} failed with {kind} at tick {at}, before the timeout ({T} ticks from {w.started_at[t]}) could have elapsed")
            elif kind == "cancelled":
                if t not in w.cancelled:
                    P.append(f"request {t} was cancelled although nobody cancelled it")
            elif kind != "ok":
                P.append(f"request {t} failed with {kind} (no peer error was injected)")
            elif not cfg.get("ws") and "ws_close" not in cfg and w.bodies.get(t) != PLAIN:
                P.append(f"request {t} completed with a wrong body ({len(w.bodies.get(t) or b'')} bytes)")
        # ---- residue
        c = w.connector
        for t, (kind, at) in w.outcome.items():
            if kind == "ok":
                continue
            tr = w.tr_of.get(t)
            # when the whole response had arrived before the failure the connection was released at EOF: reuse is fine
            if tr is not None and not w.complete(t):
                if any(p.transport is tr for dq in c._conns.values() for p, _ in dq):
                    P.append(f"the connection of failed request {t} ({kind}) is back in the pool")
                elif not tr.closed:
                    P.append(f"the connection of failed request {t} ({kind}) is still open")
                if any(getattr(p, "transport", None) is tr for p in c._acquired):
                    P.append(f"the connection of failed request {t} ({kind}) still occupies a pool slot")
            if str(t) in snap["writer_owners"]:
                P.append(f"the body writer task of failed request {t} ({kind}) is still running")
        for dq in c._conns.values():
            for proto, _ in dq:
                h = getattr(proto, "_read_timeout_handle", None)
                if h is not None and not h.cancelled():
                    P.append(f"a sock_read timer (due at tick {round((h.when() - T0) * TPS)}) is armed on a connection that is idle in the pool")
                if proto.exception() is not None:
                    P.append(f"an idle pooled connection carries {type(proto.exception()).__name__}: the next request reusing it fails at once")
        for t, paused_w in w.wpaused.items():
            tr = w.tr_of.get(t)
            if paused_w and tr is not None and any(p.transport is tr for dq in c._conns.values() for p, _ in dq):
                P.append(f"the connection of request {t} is in the pool although its request body was never completely sent")
        if snap["acq"] > len(live):
            P.append(f"{snap['acq']} pool slots occupied by {len(live)} pending requests")
        if snap["wait"] > len(live):
            P.append(f"{snap['wait']} queued waiters for {len(live)} pending requests")
        if snap["writers"] > len(live):
            P.append(f"{snap['writers']} writer tasks alive for {len(live)} pending requests")
        if not live and snap["timers"]:
            P.append(f"timers left armed with no pending request: {snap['timers']}")
        if snap["other_bg"]:
            P.append(f"unexpected background tasks: {snap['other_bg']}")
        if snap["loop_exceptions"]:
            P.append(f"event loop reported: {snap['loop_exceptions'][:2]}")

    def finish(self):
        """Cancel what is left, then a follow-up request on the same session must succeed."""
        w, P = self.w, self.problems
        try:
            self._finish()
        except BaseException:
            w.close()
            raise

    def _finish(self):
        w, P = self.w, self.problems
        for t in list(w.tasks):
            if not w.tasks[t].done():
                w.apply(["cancel", t])
                self.check(w.snapshot(), ["cancel", t])
        f = 1000
        cfg = {"total": 60 * TPS, "connect": None, "sock_connect": None, "sock_read": None, "thr": 5 * TPS}
        w.apply(["start", f, cfg])
        serve_all(w)
        snap = w.snapshot()
        if w.outcome.get(f, ("pending",))[0] != "ok":
            P.append(f"follow-up request on the same session did not complete: {w.outcome.get(f)}; snapshot {brief(snap)}")
        self.check(snap, ["follow-up"])
        if snap["acq"] or snap["wait"] or snap["writers"] or snap["timers"]:
            P.append(f"residue after all requests ended: {brief(snap)}")
        if snap["open"] != snap["idle"]:
            P.append(f"{snap['open']} transports open but {snap['idle']} pooled after all requests ended")
        fin = w.close()
        if fin["tasks_left"] or fin["open_after_close"] or fin["loop_exceptions"]:
            P.append(f"after session.close(): {fin}")


def serve_all(w, skip=()):
    """Give every pending request (except `skip`) whatever it is waiting for until it completes."""
    for _ in range(12):
        live = [t for t, task in w.tasks.items() if not task.done() and t not in skip]
        if not live:
            return
        if w.dns_futs:
            w.apply(["dns"])
        for t in live:
            if t in w.conn_futs:
                w.apply(["conn", t])
            if t in w.tls_futs:
                w.apply(["tls", t])
            if w.wpaused.get(t):
                w.apply(["written", t])
            if t in w.tr_of and t not in w.head_at:
                w.apply(["data", t, "head"])
            if t in w.head_at and not w.gate[t].is_set():
                w.apply(["read", t])
            if t in w.head_at and w.gate[t].is_set():
                w.apply(["data", t, "end"])


def brief(s):
    return {k: s[k] for k in ("now", "acq", "idle", "wait", "open", "writers", "lookup", "timers", "out", "live")}


# --------------------------------------------------------------------------------------------
# running one history on the implementation

def is_injected(st):
    return st[0] == "start" and len(st) > 3 and isinstance(st[3], dict) and st[3].get("inject") is not None


def run_impl(case, follow_up=True):
    """-> (list of canonical snapshots, oracle problems)"""
    w = World(limit=case["limit"], offset=case.get("offset", 0), tls=case.get("tls", False))
    orc = Oracle(w)
    snaps = []
    closed = False
    try:
        hist = case["history"]
        i = 0
        while i < len(hist):
            st = hist[i]
            nxt = hist[i + 1] if i + 1 < len(hist) else None
            if nxt is not None and is_injected(nxt):
                w.apply_pair(st, nxt)
                snaps.append(None)                # the model applies the two stimuli one after the other
                i += 1
            else:
                w.apply(st)
            s = w.snapshot()
            orc.check(s, st)
            snaps.append(impl_canon(s, w.offset))
            i += 1
        if follow_up:
            closed = True
            orc.finish()
    finally:
        if not closed:
            w.close()
    return snaps, orc.problems


# --------------------------------------------------------------------------------------------
# history generator (looks at what the implementation can currently take)

TIMEOUT_CHOICES = [None, None, 6, 20, 32, 78, 80, 82, 100, 130]


def gen_cfg(rng):
    thr = rng.choice([80, 80, 80, 32])
    kind = rng.random()
    cfg = {"total": None, "connect": None, "sock_connect": None, "sock_read": None, "thr": thr, "block": rng.random() < 0.25,
           "plain": rng.random() < 0.4, "layout": rng.choice(["chunked", "cl", "chunked", "cl", "eof", "http10"])}
    if kind < 0.15:
        pass
    elif kind < 0.75:
        cfg[rng.choice(["total", "connect", "sock_connect", "sock_read"])] = rng.choice(TIMEOUT_CHOICES[2:])
    else:
        for k in ("total", "connect", "sock_connect", "sock_read"):
            cfg[k] = rng.choice(TIMEOUT_CHOICES)
    return cfg


def gen_history(rng, nreq, limit, offset, steps, tls=False):
    """Drives a scratch World to know which stimuli make sense; returns the history."""
    w = World(limit=limit, offset=offset, tls=tls)
    hist = []
    started = 0
    parts: dict = {}
    big: set = set()
    try:
        def do(st, gap=False):
            nonlocal started
            hist.append(st)
            if gap and limit == 0 and started < nreq and rng.random() < 0.45:
                # a new request arrives in the very loop iterations in which st's cancellation / timeout is processed
                # (only without a pool limit: with one, the newcomer may legitimately take the freed slot before the
                # woken waiter runs, an interleaving below the model's granularity)
                nxt = ["start", started, gen_cfg(rng), {"inject": rng.choice([0, 0, 1, 1, 2, 3])}]
                started += 1
                hist.append(nxt)
                w.apply_pair(st, nxt)
            else:
                w.apply(st)
        for _ in range(steps):
            opts = []
            live = [t for t, task in w.tasks.items() if not task.done()]
            if started < nreq:
                opts += [("start",)] * (3 if not live else 1)
            if w.dns_futs:
                opts += [("dns",)] * 2
            for t in live:
                if t in w.conn_futs:
                    opts += [("conn", t)] * 2
                if t in w.tls_futs:
                    opts += [("tls", t)] * 2
                tr = w.tr_of.get(t)
                if tr is not None and not tr.closed and w.proto_of[t].exception() is not None:
                    # a sock_read timeout is latched: the model excludes further peer data (see ASSUMPTIONS)
                    if t in w.head_at and not w.gate[t].is_set():
                        opts += [("read", t)] * 2
                    if w.wpaused.get(t):
                        opts.append(("written", t))
                elif tr is not None and not tr.closed:
                    if w.wpaused.get(t):
                        opts.append(("written", t))
                    if t not in w.head_at:
                        if w.sent.get(t, 0) == 0 and w.interims.get(t, 0) < 2 and tr.reading:
                            opts.append(("data", t, "interim"))
                        if parts.get((t, "h"), 0) < 6:
                            opts.append(("data", t, "part"))
                        opts += [("data", t, "head")] * 2
                    else:
                        reading = w.gate[t].is_set()
                        if not reading:
                            opts += [("read", t)] * 2
                        if tr.reading:
                            lim = 3 if t not in big else 6
                            pos, lay = w.sent.get(t, 0), w.layout(t)
                            if parts.get((t, "b"), 0) < lim and next_cut(pos, "part", lay) > pos:
                                opts.append(("data", t, "part"))
                            if t not in big and parts.get((t, "b"), 0) <= 3 and next_cut(pos, "big", lay) > pos:
                                opts.append(("data", t, "big"))
                            if lay in CLOSE_DELIMITED:
                                pass         # ends only by the peer's close: left to the stall sweep and to finish()
                            elif reading:
                                opts += [("data", t, "end")] * 2
                            elif lay == "cl":
                                # the rest of the body (> 2 x read_bufsize) and its end in one segment while the
                                # caller is idle: paused and resumed inside feed_eof, connection released at once.
                                # (chunked: the chunk parser itself pauses mid-segment and the end is only reached
                                # when the caller reads - not an event of the model)
                                opts.append(("data", t, "end"))
                if rng.random() < 0.25:
                    opts.append(("cancel", t))
            opts += [("adv",)] * max(2, len(opts) // 3)
            o = rng.choice(opts)
            if o[0] == "start":
                do(["start", started, gen_cfg(rng)])
                started += 1
            elif o[0] == "adv":
                r = rng.random()
                nt = [x for x, _ in w.snapshot()["timers"]]
                now = w.tick()
                exact = False
                if nt and r < 0.45:
                    tgt = min(nt)
                    j = rng.choice([-1, 0, 0, 1])
                    d = max(0, int(round(tgt)) - now + j)
                    exact = j == 0 and d == int(round(tgt)) - now
                elif r < 0.8:
                    d = rng.choice([1, 1, 2, 3, 5, 8])
                else:
                    d = rng.choice([16, 33, 64, 160])
                do(["adv", d], gap=exact)        # lands exactly on the earliest deadline: the timer fires in this run
            elif o[0] == "data":
                t, k = o[1], o[2]
                if k == "part":
                    key = (t, "h" if t not in w.head_at else "b")
                    parts[key] = parts.get(key, 0) + 1
                if k == "big":
                    big.add(t)
                do(["data", t, k])
            else:
                do(list(o), gap=o[0] == "cancel")
    finally:
        w.close()
    return hist


# --------------------------------------------------------------------------------------------
# suites

def check_case(ctx, exe, case, suite):
    """Run one history on model and implementation; returns the implementation's final snapshot."""
    m_txt = fw.run_model(exe, [model_line(case)])[0]
    return compare_case(ctx, case, suite, m_txt)


def compare_case(ctx, case, suite, m_txt):
    off = case.get("offset", 0)
    snaps, problems = run_impl(case)
    m_parts = m_txt.split(" | ")[1:] if m_txt is not None else []   # drop the snapshot of the leading offset advance
    first_bad = None
    for i, s in enumerate(snaps if (m_txt is not None and not case.get("oracle_only")) else []):
        if s is None:
            continue
        if i >= len(m_parts) or m_parts[i].startswith(("STUCK", "EXN", "BADREQ")):
            first_bad = (i, m_parts[i] if i < len(m_parts) else "<missing>", s)
            break
        m = parse_snap(m_parts[i], off)
        d = diff_snap(m, s)
        if d:
            first_bad = (i, {k: m[k] for k in d} | {"pcs": m["pcs"]}, {k: s[k] for k in d})
            break
    if first_bad is not None:
        i, mo, io = first_bad
        ctx.disagreement(suite, {"suite": suite, "limit": case["limit"], "offset": off, "tls": case.get("tls", False),
                                 "history": case["history"][: i + 1]}, mo, io)
    ended = [v[0] for v in (snaps[-1]["out"].values() if snaps and snaps[-1] else [])]
    nontrivial = any(k != "ok" for k in ended)
    ctx.case((json.dumps(case, sort_keys=True), json.dumps(snaps[-1] if snaps else None, sort_keys=True)), nontrivial=nontrivial)
    for k in ended:
        ctx.count("outcome:" + k)
    for st in case["history"]:
        ctx.count("stimulus:" + st[0] + (":" + st[2] if st[0] == "data" else ""))
    for p in problems[:3]:
        ctx.violation(dict(case, suite=suite), p)
    ctx.traces_validated += 1
    return snaps, problems


def lookup_gap_cases():
    """The request that started the shared DNS lookup is cancelled / times out (connect, total; rounded or not)
    and a new request to the same host arrives before the k-th loop iteration of that processing, with or
    without an earlier joiner of the lookup.  The newcomer (and the joiner) must be served."""
    def cfg(**kw):
        c = {"total": None, "connect": None, "sock_connect": None, "sock_read": None, "thr": 80, "block": False, "plain": False}
        c.update(kw)
        return c
    out = []
    for mode, ca, T in (("cancel", cfg(total=300), None), ("connect", cfg(connect=20), 20), ("connect", cfg(connect=100), 100),
                        ("total", cfg(total=20), 20), ("total", cfg(total=90), 90)):
        for off in (0, 5):
            for k in (0, 1, 2, 3, 4):
                for joiner in (False, True):
                    h = [["start", 0, ca]]
                    if joiner:
                        h.append(["start", 2, cfg(total=600)])
                    if mode == "cancel":
                        h += [["adv", 3], ["cancel", 0]]
                    else:
                        d = off + T
                        if T > 80 or (mode == "total" and T >= 80):
                            d = ceil_tick(d)
                        h.append(["adv", d - off])
                    h.append(["start", 1, cfg(total=600), {"inject": k}])
                    h += [["adv", 1], ["dns"], ["conn", 1], ["data", 1, "head"], ["read", 1], ["data", 1, "end"]]
                    if joiner:
                        h += [["conn", 2], ["data", 2, "head"], ["read", 2], ["data", 2, "end"]]
                    out.append({"suite": "histories", "limit": 0, "offset": off, "history": h, "systematic": "lookup_gap"})
    return out


def systematic_cases():
    """Deterministic histories run on every check (beside the corpus and the random ones)."""
    def cfg(**kw):
        c = {"total": None, "connect": None, "sock_connect": None, "sock_read": None, "thr": 80, "block": False, "plain": False}
        c.update(kw)
        return c
    out = []
    # a whole body larger than the read buffer arrives in ONE segment together with its end (reading is paused and
    # resumed inside feed_eof), keep-alive; the pooled connection then idles longer than sock_read and is reused
    for layout in ("cl", "chunked"):
        for pre in ([], [["data", 0, "part"]], [["data", 0, "big"]]):
            for idle in (19, 21, 45):
                for plain in (False, True):
                    h = [["start", 0, cfg(sock_read=20, total=600, layout=layout, plain=plain)], ["dns"], ["conn", 0], ["tls", 0], ["adv", 2],
                         ["data", 0, "head"], ["read", 0]] + pre + [["data", 0, "end"], ["adv", idle],
                         ["start", 1, cfg(sock_read=20, layout=layout)], ["adv", 1], ["data", 1, "head"], ["read", 1], ["data", 1, "end"],
                         ["adv", 30], ["start", 2, cfg(total=40, layout=layout)], ["data", 2, "head"], ["read", 2], ["data", 2, "end"]]
                    out.append({"suite": "histories", "limit": 1, "offset": 3, "history": h, "systematic": "pooled_timer"})
                    if layout == "cl" and not pre:
                        # the same, but the body and its end arrive while the caller has not started to read
                        h2 = [["data", 0, "end"], ["adv", 2], ["read", 0]] if idle != 21 else [["data", 0, "end"]]
                        h2 = h[:6] + h2 + [x for x in h[8:] if x != ["read", 0]]
                        h2 = h2 + ([["read", 0]] if idle == 21 else [])
                        out.append({"suite": "histories", "limit": 1, "offset": 3, "history": h2, "systematic": "pooled_timer_idle_end"})
    # https: the peer accepts the TCP connection and stalls in the TLS handshake; sock_connect / connect / total bound it
    for which, T in (("sock_connect", 20), ("sock_connect", 100), ("connect", 32), ("total", 38)):
        for tcp_delay in (1, 7):
            h = [["start", 0, cfg(**{which: T})], ["adv", 1], ["dns"], ["adv", tcp_delay], ["conn", 0], ["adv", 200],
                 ["start", 1, cfg(total=600)], ["conn", 1], ["adv", 3], ["tls", 1], ["data", 1, "head"], ["read", 1], ["data", 1, "end"]]
            out.append({"suite": "histories", "limit": 1, "offset": 5, "history": h, "tls": True, "systematic": "tls_stall"})
    return out


def suite_histories(ctx, exe):
    rng = ctx.rng
    cases = []
    for path in sorted(glob.glob(os.path.join(fw.VERIF, "corpus", "C18", "*.json"))):
        c = json.load(open(path))
        c = c.get("case", c)
        if c.get("suite", "histories") == "histories":
            cases.append(c)
    cases += lookup_gap_cases()
    cases += systematic_cases()
    n = 0 if os.environ.get("C18_CORPUS_ONLY") else (2500 if ctx.quick else 30000)
    for _ in range(n):
        limit = rng.choice([0, 0, 1, 1, 2])
        nreq = rng.choice([1, 1, 2, 3, 4])
        offset = rng.choice([0, 0, 2, 5, 8, 13, 15])
        steps = rng.randint(6, 16 + 12 * nreq)
        tls = rng.random() < 0.2
        hist = gen_history(rng, nreq, limit, offset, steps, tls)
        cases.append({"suite": "histories", "limit": limit, "offset": offset, "history": hist, "tls": tls})
    lines = [model_line(c) for c in cases]
    answers = fw.run_model(exe, lines) if exe is not None else [None] * len(cases)
    ran = 0
    for c, m_txt in zip(cases, answers):
        compare_case(ctx, c, "histories", m_txt)
        ran += 1
        ctx.count(f"limit:{c['limit']}")
        ctx.count(f"requests:{sum(1 for s in c['history'] if s[0] == 'start')}")
    if cases:
        ctx.sample({"suite": "histories", "case": cases[-1], "model": (answers[-1] or "<no model runner>")[:600]})
    ctx.close_suite("histories", ran)


def stall_case(offset_bytes, which, T, start_off, reuse, layout="chunked"):
    """History: a complete first exchange (when reuse), then a request whose response stalls after offset_bytes."""
    cfg = {"total": None, "connect": None, "sock_connect": None, "sock_read": None, "thr": 80, "block": False, "layout": layout}
    cfg[which] = T
    _HEAD_END = head_end_of(layout)
    h = []
    t = 0
    if reuse:
        ok = {"total": 600, "connect": None, "sock_connect": None, "sock_read": None, "thr": 80, "block": False}
        h += [["start", 0, ok], ["dns"], ["conn", 0], ["data", 0, "head"], ["read", 0], ["data", 0, "end"], ["adv", 3]]
        t = 1
    h += [["start", t, cfg]]
    if not reuse:
        h += [["adv", 1], ["dns"], ["adv", 1], ["conn", t]]
    h += [["adv", 3]]
    if offset_bytes > 0:
        h += [["bytes", t, min(offset_bytes, _HEAD_END)]]
    if offset_bytes >= _HEAD_END:
        h += [["adv", 1], ["read", t], ["adv", 2]]
        if offset_bytes > _HEAD_END:
            h += [["bytes", t, offset_bytes]]
    h += [["adv", 400]]
    return {"suite": "stall_sweep", "limit": 1, "offset": start_off, "history": h, "victim": t, "which": which, "T": T,
            "layout": layout}


def run_stall(case):
    """-> (observable, problems).  Expected failure time is recomputed here from the documented rule."""
    w = World(limit=case["limit"], offset=case["offset"])
    orc = Oracle(w)
    t = case["victim"]
    closed = False
    try:
        for st in case["history"]:
            w.apply(st)
            orc.check(w.snapshot(), st)
        out = w.outcome.get(t)
        thr, T, which = 80, case["T"], case["which"]
        if which == "total":
            exp = bound = ceil_tick(w.started_at[t] + T) if T >= thr else w.started_at[t] + T
            kind = "total_timeout"
        else:
            exp = w.last_io[t] + T                       # call_later: not rounded
            bound = ceil_tick(exp) if T >= thr else exp  # what the documentation allows
            kind = "sock_read_timeout"
        obs = {"outcome": list(out) if out else None, "expected": [kind, exp]}
        if out is None:
            orc.problems.append(f"request {t} never failed although the peer stalled and {which}={T} ticks is configured")
        elif out[0] != kind or out[1] > bound:
            orc.problems.append(f"request {t}: expected {kind} no later than tick {bound}, got {out}")
        elif out[1] != exp:
            obs["early"] = True
        closed = True
        orc.finish()
        return obs, orc.problems
    finally:
        if not closed:
            w.close()


def suite_stall_sweep(ctx):
    rng = ctx.rng
    offs = list(range(0, _FULL))            # every byte offset; never the complete response
    key = set([0, 1, _HEAD_END - 3, _HEAD_END - 1, _HEAD_END, _HEAD_END + 1, _HEAD_END + 4, _HEAD_END + 5, _MARKS[1][0],
               _MARKS[1][1], _MARKS[1][1] + 1, _MARKS[1][2], _MARKS[1][2] + 1, _MARKS[2][1], _FULL - 5, _FULL - 1])
    combos = [("sock_read", 20), ("total", 38), ("total", 90), ("sock_read", 96)]
    ran = 0
    obs = None
    for li, layout in enumerate(LAYOUTS):
        he, full = head_end_of(layout), len(full_of(layout))
        lkey = key if layout == "chunked" else {0, 1, he - 3, he - 1, he, he + 1, he + 130, full - 5, full - 1}
        for o in range(0, full):               # every byte offset; never the complete response
            if ctx.quick and o not in lkey:
                todo = [combos[(o + ctx.seed + li) % 4]]
            else:
                todo = combos
            for which, T in todo:
                case = stall_case(o, which, T, rng.choice([0, 3, 8, 15]), reuse=(o % 3 == 1), layout=layout)
                obs, problems = run_stall(case)
                ran += 1
                ctx.case((layout, o, which, T, json.dumps(obs, sort_keys=True)), nontrivial=obs["outcome"] is not None and obs["outcome"][0] != "ok")
                ctx.count("stall:" + layout + ":" + ("head" if o < he else "body") + ":" + which)
                if obs.get("early"):
                    ctx.disagreement("stall_sweep", case, f"failure exactly at {obs['expected']}", obs["outcome"])
                for p in problems[:3]:
                    ctx.violation(case, p)
    ctx.sample({"suite": "stall_sweep", "layouts": list(LAYOUTS), "last": obs})
    ctx.close_suite("stall_sweep", ran)


CANCEL_BASES = [
    # one request, every phase, body upload blocked for a while
    {"limit": 0, "offset": 3, "victim": 0, "history": [
        ["start", 0, {"total": 130, "connect": 100, "sock_connect": 40, "sock_read": 40, "thr": 80, "block": True}],
        ["adv", 1], ["dns"], ["adv", 1], ["conn", 0], ["adv", 1], ["written", 0], ["adv", 1], ["data", 0, "part"],
        ["data", 0, "head"], ["adv", 1], ["read", 0], ["data", 0, "part"], ["data", 0, "big"], ["adv", 1], ["data", 0, "end"]]},
    # pool of one: holder 0, victim 1 queues, bystander 2 queues behind it; shared lookup started by 0
    {"limit": 1, "offset": 0, "victim": 1, "history": [
        ["start", 0, {"total": 200, "connect": None, "sock_connect": None, "sock_read": None, "thr": 80}],
        ["start", 1, {"total": 200, "connect": 100, "sock_connect": None, "sock_read": 60, "thr": 80}],
        ["start", 2, {"total": 200, "connect": None, "sock_connect": None, "sock_read": None, "thr": 80}],
        ["adv", 1], ["dns"], ["conn", 0], ["data", 0, "head"], ["read", 0], ["adv", 1], ["data", 0, "end"],
        ["adv", 1], ["data", 1, "head"], ["read", 1], ["data", 1, "end"], ["adv", 1],
        ["data", 2, "head"], ["read", 2], ["data", 2, "end"]]},
    # three requests share one in-flight lookup; the victim started it
    {"limit": 0, "offset": 8, "victim": 0, "history": [
        ["start", 0, {"total": 90, "connect": None, "sock_connect": None, "sock_read": None, "thr": 80}],
        ["start", 1, {"total": 200, "connect": None, "sock_connect": None, "sock_read": None, "thr": 80}],
        ["start", 2, {"total": 200, "connect": None, "sock_connect": None, "sock_read": None, "thr": 80}],
        ["adv", 1], ["dns"], ["conn", 0], ["conn", 1], ["conn", 2], ["data", 0, "head"], ["data", 1, "head"], ["data", 2, "head"],
        ["read", 0], ["read", 1], ["read", 2], ["data", 0, "end"], ["data", 1, "end"], ["data", 2, "end"]]},
    # the victim joined a lookup started by somebody else, pool of two
    {"limit": 2, "offset": 5, "victim": 1, "history": [
        ["start", 0, {"total": 200, "connect": None, "sock_connect": None, "sock_read": None, "thr": 80}],
        ["start", 1, {"total": 100, "connect": 64, "sock_connect": 32, "sock_read": 32, "thr": 80, "block": True}],
        ["start", 2, {"total": 200, "connect": None, "sock_connect": None, "sock_read": None, "thr": 80}],
        ["adv", 1], ["dns"], ["conn", 1], ["conn", 0], ["written", 1], ["data", 1, "head"], ["data", 0, "head"], ["read", 1],
        ["data", 1, "big"], ["read", 0], ["data", 1, "end"], ["data", 0, "end"], ["conn", 2], ["data", 2, "head"],
        ["read", 2], ["data", 2, "end"]]},
]


def _plain_variant(base):
    """The same exchange with a victim that does not use `async with`."""
    b = json.loads(json.dumps(base))
    for st in b["history"]:
        if st[0] == "start" and st[1] == b["victim"]:
            st[2]["plain"] = True
    return b


CANCEL_BASES += [_plain_variant(CANCEL_BASES[0]), _plain_variant(CANCEL_BASES[3])]


def run_cancel(base, k):
    """Replay base, calling task.cancel() on the victim just before loop iteration k (counted from the first
    stimulus).  -> (did the cancel land, observable, problems)"""
    w = World(limit=base["limit"], offset=base["offset"])
    orc = Oracle(w)
    v = base["victim"]
    landed = {"at": None}
    start_iter = w.iterations

    def hook(i):
        if landed["at"] is None and i - start_iter >= k and v in w.tasks:
            if not w.tasks[v].done():
                landed["at"] = w.tick()
                w.cancelled.add(v)
                w.tasks[v].cancel()
            else:
                landed["at"] = -1
    w.iter_hook = hook
    closed = False
    try:
        for st in base["history"]:
            w.apply(st)
            orc.check(w.snapshot(), st)
        total_iters = w.iterations - start_iter
        w.iter_hook = None
        serve_all(w, skip=(v,) if landed["at"] is None else ())
        obs = {"victim": list(w.outcome.get(v, ("pending",))), "others": {str(t): w.outcome.get(t, ("pending",))[0] for t in w.tasks if t != v}}
        # bystanders were served completely by the script: they must all have completed
        for t in w.tasks:
            if t != v and w.outcome.get(t, ("pending",))[0] != "ok":
                orc.problems.append(f"bystander request {t} ended as {w.outcome.get(t)} after request {v} was cancelled at iteration {k}")
        closed = True
        orc.finish()
        return landed["at"], total_iters, obs, orc.problems
    finally:
        if not closed:
            w.close()


def suite_cancel_sweep(ctx):
    ran = 0
    for bi, base in enumerate(CANCEL_BASES):
        k = 0
        while True:
            at, total, obs, problems = run_cancel(base, k)
            if at is None or at == -1:
                break
            ran += 1
            ctx.case((bi, k, json.dumps(obs, sort_keys=True)), nontrivial=obs["victim"][0] == "cancelled")
            ctx.count(f"cancel_sweep:base{bi}")
            ctx.count("cancel_sweep:victim:" + obs["victim"][0])
            for p in problems[:3]:
                ctx.violation({"suite": "cancel_sweep", "base": bi, "k": k}, p)
            k += 1
        ctx.count(f"cancel_sweep:iterations:base{bi}", k)
    ctx.sample({"suite": "cancel_sweep", "bases": len(CANCEL_BASES), "last": obs})
    ctx.close_suite("cancel_sweep", ran)


WS_BASE = [["ws_start", 0, {"ws_close": 40}], ["dns"], ["conn", 0], ["adv", 1], ["ws_accept", 0], ["adv", 2], ["ws_close", 0], ["adv", 200]]


def run_ws_close(T, offset, peer, cancel_k=None):
    """WebSocket close handshake: the peer never answers (stall), keeps sending text frames but no close frame, or
    the caller is cancelled before loop iteration cancel_k (counted from the close request)."""
    w = World(limit=1, offset=offset)
    problems = []
    landed = {"at": None}
    closed = False
    try:
        hist = [["ws_start", 0, {"ws_close": T}], ["dns"], ["conn", 0], ["adv", 1], ["ws_accept", 0], ["adv", 2]]
        for st in hist:
            w.apply(st)
        if 0 not in w.head_at:
            problems.append(f"WebSocket handshake did not complete: {w.outcome.get(0)}")
        if cancel_k is not None:
            start_iter = w.iterations

            def hook(i):
                if landed["at"] is None and i - start_iter >= cancel_k and not w.tasks[0].done():
                    landed["at"] = w.tick()
                    w.cancelled.add(0)
                    w.tasks[0].cancel()
            w.iter_hook = hook
        w.apply(["ws_close", 0])
        t_close = w.tick()
        t_last = t_close                         # one deadline for the whole close handshake (fix 7b896a4)
        if peer == "text":
            # a peer that keeps sending data frames, but never a close frame, must not extend the wait
            for _ in range((T + 40) // 3):
                w.apply(["adv", 3])
                w.apply(["ws_frame", 0, "text"])
        else:
            w.apply(["adv", T + 40])
        w.iter_hook = None
        snap = w.snapshot()
        out = w.outcome.get(0)
        obs = {"outcome": list(out) if out else None, "result": getattr(w, "ws_result", None), "cancel_at": landed["at"]}
        tr = w.tr_of.get(0)
        if cancel_k is None or landed["at"] is None:
            if out is None or out[0] != "ok":
                problems.append(f"ws.close() did not return although ws_close={T} ticks elapsed: {out}")
            elif out[1] > t_last + T:
                problems.append(f"ws.close() returned at tick {out[1]}, later than the ws_close bound (tick {t_last + T})")
            elif out[1] != t_last + T:
                obs["early"] = True
            if getattr(w, "ws_result", None) and w.ws_result["close_code"] != 1006:
                problems.append(f"close code {w.ws_result['close_code']} after a close handshake that timed out (1006 expected)")
        else:
            if out is None or out[0] != "cancelled":
                problems.append(f"cancelled ws.close() ended as {out}")
        if tr is None or not tr.closed:
            problems.append("the WebSocket transport is still open after close() timed out / was cancelled")
        if snap["acq"] or snap["idle"] or snap["timers"] or snap["other_bg"] or snap["writers"] or snap["loop_exceptions"]:
            problems.append(f"residue after WebSocket close: {brief(snap)} {snap['other_bg']} {snap['loop_exceptions']}")
        orc = Oracle(w)
        closed = True
        orc.finish()
        problems += orc.problems
        return obs, problems
    finally:
        if not closed:
            w.close()


def second_hop_cases():
    """The total (and sock_connect) timeout must also bound the SECOND hop of a request: after a followed redirect
    to another origin, or after the automatic retry of an idempotent request whose reused connection died, the peer
    stalls while hop 2 resolves / connects."""
    out = []
    redirect = "HTTP/1.1 302 Found\r\nLocation: http://other.test/next\r\nContent-Length: 0\r\n\r\n"
    for which, T in (("total", 38), ("total", 90), ("sock_connect", 20)):
        for off in (0, 5):
            for stall in ("dns", "connect"):
                if which == "sock_connect" and stall == "dns":
                    continue
                cfg = {"total": None, "connect": None, "sock_connect": None, "sock_read": None, "thr": 80, "block": False}
                cfg[which] = T
                h = [["start", 0, cfg], ["adv", 1], ["dns"], ["conn", 0], ["adv", 2], ["raw", 0, redirect], ["forget_conn", 0], ["adv", 1]]
                if stall == "connect":
                    h += [["dns"], ["adv", 1]]
                h += [["adv", 200]]
                out.append({"suite": "second_hop", "mode": "redirect", "limit": 0, "offset": off, "victim": 0, "which": which, "T": T,
                            "stall": stall, "history": h})
            ok = {"total": 600, "connect": None, "sock_connect": None, "sock_read": None, "thr": 80, "block": False}
            cfg = {"total": None, "connect": None, "sock_connect": None, "sock_read": None, "thr": 80, "block": False}
            cfg[which] = T
            h = [["start", 0, ok], ["dns"], ["conn", 0], ["data", 0, "head"], ["read", 0], ["data", 0, "end"], ["adv", 3],
                 ["start", 1, cfg], ["adv", 2], ["peer_close", 1], ["forget_conn", 1], ["adv", 200]]
            out.append({"suite": "second_hop", "mode": "retry", "limit": 0, "offset": off, "victim": 1, "which": which, "T": T,
                        "stall": "connect", "history": h})
    return out


def run_second_hop(case):
    w = World(limit=case["limit"], offset=case["offset"])
    orc = Oracle(w)
    v = case["victim"]
    closed = False
    try:
        for st in case["history"]:
            w.apply(st)
            if st[0] not in ("raw", "forget_conn"):
                orc.check(w.snapshot(), st)
        out = w.outcome.get(v)
        kind = "total_timeout" if case["which"] == "total" else "connect_timeout"
        if case["which"] == "total":
            T = case["T"]
            bound = ceil_tick(w.started_at[v] + T) if T >= 80 else w.started_at[v] + T
        else:
            bound = w.sock_started.get(v, 0) + case["T"]
        obs = {"outcome": list(out) if out else None, "expected": [kind, bound], "second_attempt": v in w.sock_started or bool(w.dns_calls > 1)}
        if out is None:
            orc.problems.append(f"request {v} never failed although hop 2 ({case['mode']}) stalls in {case['stall']} and "
                                f"{case['which']}={case['T']} ticks is configured")
        elif out[0] != kind or out[1] > bound:
            orc.problems.append(f"request {v}: expected {kind} no later than tick {bound} in hop 2 ({case['mode']}), got {out}")
        closed = True
        orc.finish()
        return obs, orc.problems
    finally:
        if not closed:
            w.close()


def suite_second_hop(ctx):
    ran = 0
    obs = None
    for case in second_hop_cases():
        obs, problems = run_second_hop(case)
        ran += 1
        ctx.case(("second_hop", case["mode"], case["which"], case["T"], case["stall"], case["offset"], json.dumps(obs, sort_keys=True)),
                 nontrivial=True)
        ctx.count("second_hop:" + case["mode"] + ":" + case["stall"])
        for p in problems[:3]:
            ctx.violation(case, p)
    ctx.sample({"suite": "second_hop", "last": obs})
    ctx.close_suite("second_hop", ran)


WS_DEFAULT_CLOSE = 10 * TPS         # client_ws.DEFAULT_WS_CLIENT_TIMEOUT.ws_close


def ws_matrix():
    """How the timeouts of a WebSocket can be spelled x where the peer stalls.  -> (cfg, phase, close bound,
    receive bound)"""
    out = []
    for name, cfg, cb, rb in (
            ("timeout(ws_close)", {"use_timeout": True, "ws_close": 40}, 40, None),
            ("timeout(ws_close,ws_receive)", {"use_timeout": True, "ws_close": 40, "ws_receive": 24}, 40, 24),
            ("receive_timeout", {"use_timeout": False, "receive_timeout": 24}, WS_DEFAULT_CLOSE, 24),
            ("timeout(ws_close)+receive_timeout", {"use_timeout": True, "ws_close": 40, "receive_timeout": 24}, 40, 24),
            ("timeout(ws_close,ws_receive)+receive_timeout", {"use_timeout": True, "ws_close": 56, "ws_receive": 90, "receive_timeout": 24}, 56, 24),
            ("neither", {"use_timeout": False}, WS_DEFAULT_CLOSE, None)):
        for phase in ("close", "receive", "handshake"):
            if phase == "receive" and rb is None:
                continue
            out.append((name, cfg, phase, cb, rb))
    return out


def run_ws_matrix(name, cfg, phase, close_bound, recv_bound, offset=3):
    w = World(limit=1, offset=offset)
    problems = []
    closed = False
    try:
        c = dict(cfg, do_receive=(phase == "receive"))
        for st in (["ws_start", 0, c], ["dns"], ["conn", 0], ["adv", 1]):
            w.apply(st)
        if phase == "handshake":
            # the peer never answers the upgrade request: bounded by the session's total timeout (default 5 min)
            w.apply(["adv", 300 * TPS + TPS])
            out = w.outcome.get(0)
            if out is None or out[0] != "total_timeout" or out[1] > ceil_tick(w.started_at[0] + 300 * TPS):
                problems.append(f"[{name}] WebSocket handshake against a silent peer: expected the session total timeout, got {out}")
        else:
            w.apply(["ws_accept", 0])
            w.apply(["adv", 2])
            if phase == "receive":
                w.apply(["adv", recv_bound + 8])
                ev = dict((e[0], e[1]) for e in w.ws_events)
                if "receive_timeout" not in ev:
                    problems.append(f"[{name}] ws.receive() against a silent peer did not time out after {recv_bound} ticks: {w.ws_events}")
                elif ev["receive_timeout"] > ev["receive_start"] + recv_bound:
                    problems.append(f"[{name}] ws.receive() timed out at tick {ev['receive_timeout']}, later than {ev['receive_start']} + {recv_bound}")
            w.apply(["ws_close", 0])
            w.apply(["adv", close_bound + 40])
            ev = dict((e[0], e[1]) for e in w.ws_events)
            if "close_returned" not in ev:
                problems.append(f"[{name}] ws.close() against a peer that never answers the close frame did not return within "
                                f"{close_bound} ticks (the configured / default ws_close): {w.ws_events}")
            elif ev["close_returned"] > ev["close_start"] + close_bound:
                problems.append(f"[{name}] ws.close() returned at tick {ev['close_returned']}, later than {ev['close_start']} + {close_bound}")
        snap = w.snapshot()
        tr = w.tr_of.get(0)
        if tr is not None and not tr.closed:
            problems.append(f"[{name}] the WebSocket transport is still open after the {phase} stall")
        if snap["acq"] or snap["idle"] or snap["timers"] or snap["other_bg"] or snap["writers"] or snap["loop_exceptions"]:
            problems.append(f"[{name}] residue after the {phase} stall: {brief(snap)} {snap['other_bg']} {snap['loop_exceptions']}")
        orc = Oracle(w)
        closed = True
        orc.finish()
        problems += orc.problems
        return {"events": getattr(w, "ws_events", None), "outcome": w.outcome.get(0)}, problems
    finally:
        if not closed:
            w.close()


def suite_ws_close(ctx):
    ran = 0
    obs = None
    for name, cfg, phase, cb, rb in ws_matrix():
        obs, problems = run_ws_matrix(name, cfg, phase, cb, rb)
        ran += 1
        ctx.case(("ws-matrix", name, phase, json.dumps(obs, sort_keys=True, default=str)), nontrivial=True)
        ctx.count("ws_matrix:" + phase)
        for p in problems[:3]:
            ctx.violation({"suite": "ws_matrix", "name": name, "phase": phase}, p)
    for path in sorted(glob.glob(os.path.join(fw.VERIF, "corpus", "C18", "*.json"))):
        c = json.load(open(path))
        c = c.get("case", c)
        if c.get("suite") == "ws_close":
            obs, problems = run_ws_close(c["T"], c["offset"], c["peer"], c.get("cancel_k"))
            ran += 1
            ctx.case(("ws-corpus", os.path.basename(path), json.dumps(obs, sort_keys=True, default=str)), nontrivial=True)
            for p in problems[:3]:
                ctx.violation({k: c[k] for k in ("suite", "T", "offset", "peer", "cancel_k")}, p)
    for T in (6, 40, 80, 96):
        for off in (0, 5, 15):
            for peer in ("silent", "text"):
                obs, problems = run_ws_close(T, off, peer)
                ran += 1
                ctx.case(("ws", T, off, peer, json.dumps(obs, sort_keys=True, default=str)), nontrivial=True)
                ctx.count("ws_close:" + peer)
                if obs.get("early"):
                    ctx.disagreement("ws_close", {"suite": "ws_close", "T": T, "offset": off, "peer": peer}, "returns exactly at the bound", obs["outcome"])
                for p in problems[:3]:
                    ctx.violation({"suite": "ws_close", "T": T, "offset": off, "peer": peer, "cancel_k": None}, p)
    k = 0
    while True:
        obs, problems = run_ws_close(40, 3, "silent", cancel_k=k)
        if obs["cancel_at"] is None:
            break
        ran += 1
        ctx.case(("ws-cancel", k, json.dumps(obs, sort_keys=True, default=str)), nontrivial=True)
        ctx.count("ws_close:cancel")
        for p in problems[:3]:
            ctx.violation({"suite": "ws_close", "T": 40, "offset": 3, "peer": "silent", "cancel_k": k}, p)
        k += 1
    ctx.sample({"suite": "ws_close", "last": obs})
    ctx.close_suite("ws_close", ran)


def suite_formulas(ctx, exe):
    """The generated rounding formulas against the real helpers on a grid (function correspondence)."""
    import aiohttp
    from aiohttp import helpers
    from harness.common.loop import VLoop
    loop = VLoop()
    asyncio.set_event_loop(loop)
    try:
        reqs, exp = [], []
        grid_T = [1, 2, 15, 16, 17, 31, 32, 33, 79, 80, 81, 96, 100, 160]
        for now in (0, 1, 7, 15, 16, 17, 100, 111):
            for T in grid_T:
                for thr in (32, 80):
                    loop.vtime = T0 + now / TPS
                    th = helpers.TimeoutHandle(loop, T / TPS, ceil_threshold=thr / TPS)
                    h = th.start()
                    reqs.append(f"WHEN total {TPS} {now} {T} {thr}")
                    exp.append(str(round((h.when() - T0) * TPS)))
                    h.cancel()

                    async def ct():
                        cm = helpers.ceil_timeout(T / TPS, thr / TPS)
                        return cm.when()
                    wh = loop.run_until_complete(ct())
                    loop.vtime = T0 + now / TPS
                    reqs.append(f"WHEN ctx {TPS} {now} {T} {thr}")
                    exp.append(str(round((wh - T0) * TPS)))
        for a in (None, 10, 80):
            for b in (None, 0, 20, 100):
                for c in (None, 30, 120):
                    for d in (None, 5, 90):
                        try:
                            tm = aiohttp.ClientTimeout(total=a, connect=b, sock_read=c, sock_connect=d)
                            e = "_" if tm.total is None else str(int(tm.total))
                        except ValueError:
                            continue
                        reqs.append(f"EFF {_o(a)} {_o(b)} {_o(c)} {_o(d)}")
                        exp.append(e)
        for v, e_total, e_ctx, e_read in ((None, 0, 0, 0), (0, 0, 0, 0), (5, 1, 1, 1)):
            th = helpers.TimeoutHandle(loop, v)
            reqs += [f"EN total {_o(v)}", f"EN ctx {_o(v)}", f"EN read {_o(v)}"]

            async def en():
                return helpers.ceil_timeout(v).when() is not None
            exp += [str(int(th.start() is not None)), str(int(loop.run_until_complete(en()))), str(int(bool(v)))]
        got = fw.run_model(exe, reqs)
        for r, g, e in zip(reqs, got, exp):
            ctx.case((r, g), nontrivial=True)
            if g != e:
                ctx.disagreement("formulas", {"suite": "formulas", "request": r}, g, e)
        ctx.sample({"suite": "formulas", "request": reqs[0], "model": got[0], "impl": exp[0]})
        ctx.close_suite("formulas", len(reqs))
    finally:
        asyncio.set_event_loop(None)
        loop.close()


def run(ctx):
    ok, exe = build_model()
    ctx.oblige("model-runner-build", "correspondence", ok, "" if ok else exe)
    if not ok:
        # the translator or the model no longer builds: keep searching for a concrete failing input with the
        # previously built runner (if any) and with the model-independent oracle
        exe = os.path.join(fw.VERIF, "bin", "modelrun_C18")
        if os.path.exists(exe):
            ctx.notes.append("model runner not rebuilt; using the previously built bin/modelrun_C18 for the search")
        else:
            exe = None
    if exe is not None:
        suite_formulas(ctx, exe)
    suite_histories(ctx, exe)
    suite_stall_sweep(ctx)
    suite_cancel_sweep(ctx)
    suite_second_hop(ctx)
    suite_ws_close(ctx)


def replay(ctx, case):
    suite = case.get("suite", "histories")
    if suite == "histories":
        ok, exe = build_model()
        m_txt = fw.run_model(exe, [model_line(case)])[0] if ok else "<model build failed>"
        snaps, problems = run_impl(case)
        return {"violates": bool(problems), "why": problems[:5], "impl": snaps[-1] if snaps else None,
                "model": m_txt.split(" | ")[-1]}
    if suite == "stall_sweep":
        obs, problems = run_stall(case)
        return {"violates": bool(problems), "why": problems[:5], "impl": obs}
    if suite == "cancel_sweep":
        at, total, obs, problems = run_cancel(CANCEL_BASES[case["base"]], case["k"])
        return {"violates": bool(problems), "why": problems[:5], "impl": obs, "cancel_landed_at_tick": at}
    if suite == "second_hop":
        obs, problems = run_second_hop(case)
        return {"violates": bool(problems), "why": problems[:5], "impl": obs}
    if suite == "ws_matrix":
        for name, cfg, phase, cb, rb in ws_matrix():
            if name == case["name"] and phase == case["phase"]:
                obs, problems = run_ws_matrix(name, cfg, phase, cb, rb)
                return {"violates": bool(problems), "why": problems[:5], "impl": obs}
        return {"violates": None, "note": "unknown ws_matrix entry"}
    if suite == "ws_close":
        obs, problems = run_ws_close(case["T"], case["offset"], case["peer"], case.get("cancel_k"))
        return {"violates": bool(problems), "why": problems[:5], "impl": obs}
    return {"violates": None, "note": "unknown suite"}


SIGNATURES: dict = {}
