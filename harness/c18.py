"""C18 — timeouts and cancellation are bounded and leave no residue.

A *history* is a list of external stimuli applied to a real aiohttp.ClientSession (real
TCPConnector: pool, shared DNS lookup, ceil_timeout around connect / sock_connect; real
ResponseHandler sock_read timer; real TimeoutHandle/TimerContext) living on a virtual-time loop
with an in-memory origin.  Time is counted in ticks of 1/16 s (exact in binary floating point);
timeouts and start offsets are multiples of 2 ticks and stimuli happen at odd ticks, so a
stimulus never ties with a timer.

  ["adv", d]            let d ticks pass (every timer that becomes due fires, in order)
  ["start", t, cfg]     create the task of request t;  cfg = {"total","connect","sock_connect",
                        "sock_read" (ticks or null), "thr" (ceil threshold, ticks), "block" (the peer does not
                        read the request body: the writer task stays alive until "written")}
  ["dns"]               the (single, shared) in-flight DNS lookup answers
  ["conn", t]           t's TCP connection attempt succeeds
  ["written", t]        the peer drains t's request body (resume_writing)
  ["data", t, kind]     response bytes for t arrive: kind = "part" (inside the current unit: mid-line in the
                        head, mid-chunk in the body), "head" (rest of the head), "big" (body bytes beyond the
                        read buffer high-water mark), "end" (rest of the body)
  ["read", t]           the caller of t starts `await resp.read()`
  ["cancel", t]         task.cancel() of the caller of t
After every stimulus the loop runs until nothing is ready (quiescence) and an abstract snapshot of
the whole system is taken and compared with the extracted model (coq/Model/Timeouts.v); the
model-independent property oracle is evaluated on the implementation snapshot.
Instrumentation is harness-side only (resolver object, patched aiohappyeyeballs.start_connection,
loop.create_connection override); /repo is not edited.
"""
from __future__ import annotations

import asyncio
import json
import os
import glob
from unittest import mock

from harness.common import framework as fw

PROP = "C18"
GENERATED = ["TimeoutsGen.v"]
TPS = 16                      # ticks per second
T0 = 1000.0                   # VLoop start time (whole second)
HEAD = b"HTTP/1.1 200 OK\r\nContent-Type: text/plain\r\nTransfer-Encoding: chunked\r\n\r\n"
BODY_CHUNKS = [b"a" * 20, b"b" * 600, b"c" * 20]
READ_BUFSIZE = 64             # StreamReader high-water mark = 128 bytes


TIMER_KINDS = {"TimeoutHandle.__call__": "total", "Timeout._on_timeout": "ctx",
               "ResponseHandler._on_read_timeout": "read"}


def _chunked(parts):
    return b"".join(b"%x\r\n%s\r\n" % (len(p), p) for p in parts) + b"0\r\n\r\n"


BODY = _chunked(BODY_CHUNKS)
PLAIN = b"".join(BODY_CHUNKS)


# --------------------------------------------------------------------------------------------
# implementation side: one real session, instrumented from outside

class World:
    def __init__(self, limit=0, offset=0):
        import aiohttp
        from aiohttp import connector as cmod
        from aiohttp.abc import AbstractResolver
        from harness.common.loop import VLoop
        from harness.common.transport import MemTransport

        w = self

        class Loop(VLoop):
            async def create_connection(self, protocol_factory, *, ssl=None, sock=None, server_hostname=None, **kw):
                proto = protocol_factory()
                tr = MemTransport(self, proto)
                tid = sock.tid
                tr.tid = tid
                proto.connection_made(tr)
                w.transports.append(tr)
                w.tr_of[tid] = tr
                w.proto_of[tid] = proto
                if w.cfg[tid].get("block"):
                    proto.pause_writing()
                    w.wpaused[tid] = True
                return tr, proto

        class Resolver(AbstractResolver):
            async def resolve(self, host, port=0, family=0):
                w.dns_calls += 1
                fut = w.loop.create_future()
                w.dns_futs.append(fut)
                await fut
                return [{"hostname": host, "host": "10.0.0.1", "port": port, "family": family, "proto": 0, "flags": 0}]

            async def close(self):
                pass

        async def start_connection(addr_infos, **kw):
            tid = w.tid_of.get(asyncio.current_task())
            fut = w.loop.create_future()
            w.conn_futs[tid] = fut
            try:
                await fut
            finally:
                if w.conn_futs.get(tid) is fut:
                    del w.conn_futs[tid]

            class Sock:
                pass
            s = Sock()
            s.tid = tid
            return s

        class Conn(cmod.Connection):
            def __init__(self, connector, key, protocol, loop):
                super().__init__(connector, key, protocol, loop)
                tid = w.tid_of.get(asyncio.current_task())
                if tid is not None and protocol.transport is not None:
                    w.tr_of[tid] = protocol.transport
                    w.proto_of[tid] = protocol

        self.loop = Loop()
        self.loop.vtime = T0 + offset / TPS
        asyncio.set_event_loop(self.loop)
        self.patches = [
            mock.patch.object(cmod, "aiofastnet", None),
            mock.patch.object(cmod.aiohappyeyeballs, "start_connection", start_connection),
            mock.patch.object(cmod, "monotonic", lambda: w.loop.vtime),
            mock.patch.object(cmod, "Connection", Conn),
        ]
        for p in self.patches:
            p.start()
        self.cfg: dict = {}
        self.tasks: dict = {}
        self.tid_of: dict = {}
        self.transports: list = []
        self.tr_of: dict = {}
        self.proto_of: dict = {}
        self.wpaused: dict = {}
        self.conn_futs: dict = {}
        self.dns_futs: list = []
        self.dns_calls = 0
        self.sent: dict = {}          # t -> bytes of the response delivered so far
        self.gate: dict = {}
        self.outcome: dict = {}       # t -> (kind, tick)
        self.head_at: dict = {}
        self.bodies: dict = {}
        self.limit = limit

        async def mk():
            conn = aiohttp.TCPConnector(limit=limit, limit_per_host=0, resolver=Resolver(), use_dns_cache=True,
                                        ttl_dns_cache=None, enable_cleanup_closed=False, keepalive_timeout=10 ** 6)
            return conn, aiohttp.ClientSession(connector=conn, read_bufsize=READ_BUFSIZE)
        self.connector, self.session = self.loop.run_until_complete(mk())
        self.base_tasks = set(asyncio.all_tasks(self.loop))

    # -- time
    def tick(self):
        return round((self.loop.vtime - T0) * TPS)

    def settle(self):
        if not self.loop.run_until_idle():
            raise RuntimeError("loop does not quiesce")

    def advance(self, d):
        target = self.loop.vtime + d / TPS
        while True:
            nt = self.loop.next_timer()
            if nt is None or nt > target:
                break
            if nt > self.loop.vtime:
                self.loop.vtime = nt
            self.settle()
        self.loop.vtime = target
        self.settle()

    # -- the caller of one request
    async def _client(self, t, cfg):
        import aiohttp

        def sec(x):
            return None if x is None else x / TPS
        tmo = aiohttp.ClientTimeout(total=sec(cfg.get("total")), connect=sec(cfg.get("connect")),
                                    sock_connect=sec(cfg.get("sock_connect")), sock_read=sec(cfg.get("sock_read")),
                                    ceil_threshold=cfg.get("thr", 5 * TPS) / TPS)
        self.effective_total = tmo.total
        body = b"x" * 70000 if cfg.get("block") else None
        try:
            async with self.session.request("POST" if body else "GET", "http://origin.test/p", data=body,
                                            timeout=tmo) as resp:
                self.head_at[t] = self.tick()
                await self.gate[t].wait()
                self.bodies[t] = await resp.read()
            self.outcome[t] = ("ok", self.tick())
        except BaseException as e:  # noqa
            self.outcome[t] = (classify(e), self.tick())
            if isinstance(e, asyncio.CancelledError):
                raise

    # -- stimuli
    def apply(self, st):
        op = st[0]
        if op == "adv":
            self.advance(st[1])
            return
        if op == "start":
            t, cfg = st[1], st[2]
            self.cfg[t] = cfg
            self.gate[t] = asyncio.Event()
            task = self.loop.create_task(self._client(t, cfg))
            self.tasks[t] = task
            self.tid_of[task] = t
        elif op == "dns":
            futs, self.dns_futs = self.dns_futs, []
            for f in futs:
                if not f.done():
                    f.set_result(None)
        elif op == "conn":
            f = self.conn_futs.get(st[1])
            if f is not None and not f.done():
                f.set_result(None)
        elif op == "written":
            t = st[1]
            if self.wpaused.get(t):
                self.wpaused[t] = False
                p = self.proto_of[t]
                if p._paused:
                    p.resume_writing()
        elif op == "data":
            t, kind = st[1], st[2]
            tr = self.tr_of.get(t)
            if tr is not None and not tr.closed and tr.reading:
                full = HEAD + BODY
                pos = self.sent.get(t, 0)
                new = next_cut(pos, kind)
                if new > pos:
                    self.sent[t] = new
                    tr.protocol.data_received(full[pos:new])
        elif op == "read":
            self.gate[st[1]].set()
        elif op == "cancel":
            self.tasks[st[1]].cancel()
        else:
            raise ValueError(op)
        self.settle()

    # -- observation
    def snapshot(self):
        c = self.connector
        timers = []
        for h in self.loop._scheduled:
            if h._cancelled:
                continue
            cb = getattr(h._callback, "__qualname__", repr(h._callback))
            if cb not in TIMER_KINDS:
                continue
            timers.append((round((h._when - T0) * TPS, 6), cb))
        live = [x for x in asyncio.all_tasks(self.loop) if not x.done() and x not in self.base_tasks]
        callers = set(self.tasks.values())
        bg = [x for x in live if x not in callers]
        bgnames = sorted(getattr(x.get_coro(), "__qualname__", "?") for x in bg)
        idle = sum(len(v) for v in c._conns.values())
        return {
            "now": self.tick(),
            "acquired": len(c._acquired),
            "idle": idle,
            "waiters": sum(len(v) for v in c._waiters.values()),
            "open": sum(1 for tr in self.transports if not tr.closed),
            "created": len(self.transports),
            "writers": sum(1 for n in bgnames if "_write_bytes" in n),
            "lookups": sum(1 for n in bgnames if "_resolve_host_with_throttle" in n),
            "other_bg": [n for n in bgnames if "_write_bytes" not in n and "_resolve_host_with_throttle" not in n],
            "dns_cached": int(("origin.test", 80) in c._cached_hosts),
            "timers": sorted(timers),
            "outcome": {str(t): list(v) for t, v in sorted(self.outcome.items())},
            "live": sorted(t for t, task in self.tasks.items() if not task.done()),
            "loop_exceptions": len(self.loop.exceptions),
        }

    def close(self):
        try:
            for task in list(self.tasks.values()):
                if not task.done():
                    task.cancel()
            for f in self.dns_futs:
                if not f.done():
                    f.cancel()
            self.settle()
            self.loop.run_until_complete(self.session.close())
            self.settle()
        finally:
            for p in reversed(self.patches):
                p.stop()
            asyncio.set_event_loop(None)
            self.loop.close()


def classify(e) -> str:
    import aiohttp
    if isinstance(e, asyncio.CancelledError):
        return "cancelled"
    if isinstance(e, aiohttp.ConnectionTimeoutError):
        return "connect_timeout"
    if isinstance(e, aiohttp.SocketTimeoutError):
        return "sock_read_timeout"
    if isinstance(e, asyncio.TimeoutError):
        return "total_timeout"
    return "error:" + type(e).__name__


# cut points of the response stream: head lines, chunk boundaries
_HEAD_END = len(HEAD)
_FULL = len(HEAD) + len(BODY)


def _body_marks():
    """offsets (in the full stream) of: middle of chunk 1, middle of the big chunk 2, end"""
    o = _HEAD_END
    marks = []
    for p in BODY_CHUNKS:
        szline = len(b"%x\r\n" % len(p))
        marks.append((o, o + szline, o + szline + len(p)))
        o += szline + len(p) + 2
    return marks


_MARKS = _body_marks()


def next_cut(pos, kind):
    """Next offset to deliver up to, starting at pos."""
    if kind == "part":
        if pos < _HEAD_END:
            # stay strictly inside the head: a few bytes, never completing it (mid-line)
            return min(pos + 7, _HEAD_END - 3)
        # inside the body: advance into the middle of the current chunk (mid-chunk), never completing the body
        for (o, d0, d1) in _MARKS:
            if pos < d1 - 4:
                return min(max(pos, d0) + 5, d1 - 4)
        return pos
    if kind == "head":
        return _HEAD_END if pos < _HEAD_END else pos
    if kind == "big":
        # deliver up to 10 bytes before the end of the big chunk (>= 2*READ_BUFSIZE new bytes)
        o, d0, d1 = _MARKS[1]
        return d1 - 10 if _HEAD_END <= pos < d0 else pos
    if kind == "end":
        return _FULL if pos >= _HEAD_END else pos
    raise ValueError(kind)
