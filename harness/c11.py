"""C11 — WebSocket codec round trip.

Model side : extracted Coq: Model/WsCodec.v (WebSocketWriter.send_frame / _write_websocket_frame / _get_compressor /
             close, masking) composed with Model/Ws.v (C12's model of WebSocketReader), both instantiated with the toy
             paired codec of Model/WsCodec.v.
Impl side  : the real aiohttp._websocket.writer.WebSocketWriter -> in-memory transport -> bytes (cut at chosen
             places) -> the real aiohttp._websocket.reader_py.WebSocketReader + WebSocketDataQueue;
             suite `codec`: the same toy codec plugged in through compression_utils.set_zlib_backend, writer bytes,
             path taken, reader messages and status compared with the model;
             suite `zlib`: real zlib, property oracle only (+ sampled codec laws);
             suite `concurrent`: several sender tasks, a harness-controlled executor and cancellations on the
             virtual-time loop, property oracle + validation against the sender LTS of Model/WsSend.v.
The property oracle never looks at the model: messages the writer accepted == messages the reader delivered.
"""
from __future__ import annotations

import asyncio
import glob
import json
import os
import struct
import subprocess
import zlib as _real_zlib
from unittest import mock

from harness.common import framework as fw

PROP = "C11"
GENERATED = ["WsCodecGen.v", "WsGen.v"]
RULE = ("operation sequences (text/binary/ping/pong/close, sends after close; the same application bytearray sent "
        "several times as bytearray / memoryview and rewritten in between) x (mask, negotiated wbits 0/9..15, "
        "notakeover, per-message compress override) x payload sizes {0,1,2, 124..127, 16383..16385, 65534..65537, "
        "random small, 100 KiB..3 MiB} x segmentations (one shot, byte-at-a-time, random cuts, cuts inside every header) "
        "x peer limits (max_msg_size 0 / len+1 / len, decode_text); concurrent: 2-4 sender tasks x executor completion "
        "order x cancellations, and scripts acting several times per loop iteration (gather of big+small compressed sends, "
        "cancel-then-send; 270-600 KB uncompressed messages against a write-pausing transport with a concurrent sender or a "
        "cancellation); queue: consumer tasks with receives cancelled in the iteration a frame arrives, and read flow "
        "control (queue limits 1..200, messages of 2 x limit and more, protocol stub honouring pause/resume). Non-trivial = at least one message was delivered; distinct by hash of "
        "(config, operations, segmentation / history, observable).")
TRUSTED = [
    "translator/gen_wscodec.py (header length switch, bits, struct layouts, send_frame branch tests, RSV1, flush mode, "
    "_get_compressor and _websocket_mask_python shapes) and translator/gen_ws.py (reader tests, C12)",
    "extraction: ExtrOcamlBasic only; ocaml/common/conv.ml + ocaml/C11/driver.ml (hex / decimal I/O)",
    "correspondence harness harness/c11.py: sampled, not proved; mock BaseProtocol (_paused=False, _reading_paused=False), "
    "in-memory transport that is never closing",
    "codec: zlib compressobj / ZLibDecompressor are Section variables of the theorems with the pairing laws as premises "
    "(fresh compressor pairs with any decompressor state; paired contexts stay paired across a message; Z_FULL_FLUSH "
    "makes the compressor history-free; flush output ends with 00 00 ff ff); the toy instance satisfies them by proof and "
    "is run on both sides through set_zlib_backend; real zlib is checked against the laws by sampling only",
    "concurrency: the lock / shield discipline is a labelled transition system (Model/WsSend.v) whose traces are "
    "validated against the real asyncio.Lock / shield / eager Task on the generated histories; real thread executors "
    "are replaced by a harness-controlled one (job runs either at submission or at completion)",
    "modelled, not verified: struct.pack, bytes.translate, bytearray slicing, CPython str.encode/bytes.decode; the "
    "Cython mask/reader are out of scope (AIOHTTP_NO_EXTENSIONS=1)",
]
ASSUMPTIONS = [
    "The Python writer, mask function and reader are used (AIOHTTP_NO_EXTENSIONS=1); 64-bit CPython.",
    "Messages are RFC 6455 well formed (control payload <= 125 bytes, close code from the reader's table, valid UTF-8 "
    "text when the peer decodes text) and within the peer's max_msg_size: the writer does not validate these.",
    "The transport is not closing while messages are sent.",
    "Model/implementation agreement is validated on the generated cases only.",
]

TRAIL = b"\x00\x00\xff\xff"
OP_TEXT, OP_BINARY, OP_CLOSE, OP_PING, OP_PONG = 1, 2, 8, 9, 10
CLOSE_CODES = [1000, 1001, 1002, 1003, 1007, 1008, 1009, 1010, 1011, 1012, 1013, 1014]   # 1006 is reserved: never on the wire


# ------------------------------------------------------------------------------------------------
# which sends are compressed; the one override family that still breaks the round trip (nothing negotiated)

def is_compressed(cfg, op):
    return op[0] == "S" and op[1] < 8 and bool(op[2] or cfg["compress"])


def _sig_override_unnegotiated(case, params):
    if case.get("kind") != "roundtrip" or case["cfg"]["compress"]:
        return False
    fb = case.get("first_bad_op")
    return fb is not None and case["ops"][fb][0] == "S" and bool(case["ops"][fb][2]) and case.get("status") == "X:1002"


SIGNATURES = {"override_unnegotiated": _sig_override_unnegotiated}


def build_model():
    work = getattr(fw, "WORK", fw.VERIF)
    if work != fw.VERIF:
        # isolated work directory of a run against another source tree: ocaml/C11/.stamp is copied from /verif while
        # bin/modelrun_C11 may be left over from an earlier run there -> never trust the copied stamp
        try:
            os.remove(os.path.join(work, "ocaml", "C11", ".stamp"))
        except OSError:
            pass
    return fw.ocaml_model("C11", ["Model/WsCodec.vo", "Model/WsSend.vo", "Model/WsQueue.vo"])


def run_model(exe, lines, timeout=1800):
    """As fw.run_model, with an unlimited stack (the extracted list functions are not tail recursive)."""
    p = subprocess.run(["bash", "-c", "ulimit -s unlimited 2>/dev/null; exec " + exe], input="\n".join(lines) + "\n",
                       stdout=subprocess.PIPE, stderr=subprocess.PIPE, text=True, timeout=timeout)
    if p.returncode != 0:
        raise RuntimeError(f"model driver failed rc={p.returncode}: {p.stderr[-2000:]}")
    out = p.stdout.split("\n")
    if out and out[-1] == "":
        out.pop()
    if len(out) != len(lines):
        raise RuntimeError(f"model driver answered {len(out)} lines for {len(lines)} requests")
    return out


def run_model_parallel(exe, lines, workers=4):
    """Same answers as run_model; the request list is dealt round-robin to a few driver processes."""
    from concurrent.futures import ThreadPoolExecutor
    if len(lines) < 40:
        return run_model(exe, lines)
    parts = [lines[i::workers] for i in range(workers)]
    with ThreadPoolExecutor(workers) as ex:
        outs = list(ex.map(lambda p: run_model(exe, p) if p else [], parts))
    res = [None] * len(lines)
    for i, o in enumerate(outs):
        res[i::workers] = o
    return res


# ------------------------------------------------------------------------------------------------
# toy paired codec (mirror of Model/WsCodec.v toy_comp / toy_decomp2), pluggable as a zlib backend

class ToyError(Exception):
    pass


def _mixb(m: bytes) -> int:
    a = 7
    for b in m:
        a = (a * 33 + b) & 255
    return a


def _mix(k: int, m: bytes) -> int:
    return (k * 31 + _mixb(m) + 1) % 256


_XOR = [bytes(i ^ k for i in range(256)) for k in range(256)]


class ToyC:
    def __init__(self, wbits):
        self.key = None
        self.w = abs(wbits)
        self.buf = bytearray()

    def compress(self, data):
        self.buf += bytes(data)
        return b""

    def flush(self, mode=4):
        m = bytes(self.buf)
        self.buf = bytearray()
        if self.key is None:
            body, k2 = b"\x00" + m, _mix(0, m)
        else:
            body, k2 = b"\x01" + m.translate(_XOR[self.key]), _mix(self.key, m)
        self.key = None if mode == ToyBackend.Z_FULL_FLUSH else (k2 if len(m) <= 2 ** self.w else None)
        return body + TRAIL


class ToyD:
    def __init__(self):
        self.key = 0
        self.unconsumed_tail = b""
        self.unused_data = b""
        self.eof = False

    def decompress(self, data, max_length=0):
        data = bytes(data)
        if len(data) < 5 or data[-4:] != TRAIL or data[0] not in (0, 1):
            raise ToyError("corrupt toy stream")
        z = data[1:-4]
        if data[0] == 0:
            m, self.key = z, _mix(0, z)
        else:
            m = z.translate(_XOR[self.key])
            self.key = _mix(self.key, m)
        return m

    def flush(self, *a):
        return b""


class ToyBackend:
    __name__ = "toy-paired"
    MAX_WBITS = 15
    Z_FULL_FLUSH = 3
    Z_SYNC_FLUSH = 2
    Z_BEST_SPEED = 1
    Z_FINISH = 4
    error = ToyError

    @staticmethod
    def compressobj(level=-1, method=8, wbits=15, memLevel=8, strategy=0, zdict=None):
        return ToyC(wbits)

    @staticmethod
    def decompressobj(wbits=15, zdict=b""):
        return ToyD()


class _Backend:
    def __init__(self, name):
        self.name = name

    def __enter__(self):
        from aiohttp import compression_utils as cu
        self.cu = cu
        self.old = cu.ZLibBackend._zlib_backend
        if self.name == "toy":
            cu.set_zlib_backend(ToyBackend)

    def __exit__(self, *a):
        self.cu.set_zlib_backend(self.old)


# ------------------------------------------------------------------------------------------------
# implementation side

class Tr:
    """In-memory transport: what WebSocketWriter uses of asyncio.Transport."""

    def __init__(self):
        self.buf = bytearray()
        self.marks = []
        self.high = None        # write flow control: above this many unsent bytes the protocol is told to pause writing
        self.unsent = 0
        self.on_pause = None

    def write(self, d):
        self.buf += bytes(d)
        if self.high is not None:
            self.unsent += len(d)
            if self.unsent > self.high and self.on_pause is not None:
                self.on_pause()

    def is_closing(self):
        return False


class _Rnd:
    def __init__(self):
        self.next = 0

    def getrandbits(self, k):
        return self.next & ((1 << k) - 1)


def _mk_proto():
    proto = mock.Mock()
    proto._paused = False
    proto._reading_paused = False

    async def _drain():
        return None
    proto._drain_helper = _drain
    return proto


def make_writer(cfg, tr, rnd, limit=2 ** 62):
    from aiohttp._websocket.writer import WebSocketWriter
    w = WebSocketWriter(_mk_proto(), tr, use_mask=bool(cfg["mask"]), compress=cfg["compress"],
                        notakeover=bool(cfg["notakeover"]), random=rnd, limit=limit)
    return w


def parse_frames(buf: bytes):
    """Independent frame splitter for writer output: [(first_byte, masked, payload_len)]."""
    out, i = [], 0
    while i < len(buf):
        b0, b1 = buf[i], buf[i + 1]
        n = b1 & 0x7F
        i += 2
        if n == 126:
            n = struct.unpack("!H", buf[i:i + 2])[0]
            i += 2
        elif n == 127:
            n = struct.unpack("!Q", buf[i:i + 8])[0]
            i += 8
        if b1 & 0x80:
            i += 4
        out.append((b0, bool(b1 & 0x80), n))
        i += n
    return out


def decode_wire(buf: bytes):
    """Independent decoder of a whole transport stream: ([(opcode, rsv1, payload)], complete) — `complete` is False
    when the stream ends inside a frame."""
    out, i, n_all = [], 0, len(buf)
    while i < n_all:
        if n_all - i < 2:
            return out, False
        b0, b1 = buf[i], buf[i + 1]
        n = b1 & 0x7F
        i += 2
        if n == 126:
            if n_all - i < 2:
                return out, False
            n = struct.unpack("!H", buf[i:i + 2])[0]
            i += 2
        elif n == 127:
            if n_all - i < 8:
                return out, False
            n = struct.unpack("!Q", buf[i:i + 8])[0]
            i += 8
        key = None
        if b1 & 0x80:
            if n_all - i < 4:
                return out, False
            key = buf[i:i + 4]
            i += 4
        if n_all - i < n:
            return out, False
        p = bytes(buf[i:i + n])
        if key is not None:
            p = bytes(x ^ key[k & 3] for k, x in enumerate(p)) if n < 4096 else _unmask_big(p, key)
        out.append((b0 & 0x0F, bool(b0 & 0x40), p, b0))
        i += n
    return out, True


def _unmask_big(p: bytes, key: bytes) -> bytes:
    a = bytearray(p)
    for k in range(4):
        a[k::4] = a[k::4].translate(_XOR[key[k]])
    return bytes(a)


def inline_executor(loop):
    loop._c11_exec_calls = 0

    def rie(executor, fn, *args):
        loop._c11_exec_calls += 1
        fut = loop.create_future()
        try:
            fut.set_result(fn(*args))
        except BaseException as e:  # noqa
            fut.set_exception(e)
        return fut
    loop.run_in_executor = rie


def canon_msg(m):
    from aiohttp._websocket.models import WSMsgType
    t = m.type
    if t == WSMsgType.TEXT:
        return ["T", (m.data.encode("utf-8", "surrogatepass") if isinstance(m.data, str) else bytes(m.data)).hex()]
    if t == WSMsgType.BINARY:
        return ["B", bytes(m.data).hex()]
    if t == WSMsgType.PING:
        return ["PI", bytes(m.data).hex()]
    if t == WSMsgType.PONG:
        return ["PO", bytes(m.data).hex()]
    if t == WSMsgType.CLOSE:
        return ["C", int(m.data), (m.extra or "").encode("utf-8", "surrogatepass").hex()]
    return ["?", repr(m)]


def impl_read(loop, rc, compress, segs):
    from aiohttp._websocket.reader_py import WebSocketReader, WebSocketDataQueue
    from aiohttp._websocket.models import WebSocketError
    q = WebSocketDataQueue(_mk_proto(), 2 ** 62, loop=loop)
    r = WebSocketReader(q, rc["max"], bool(compress), bool(rc["decode_text"]))
    for s in segs:
        r.feed_data(s)
    msgs = [canon_msg(m) for m in q._buffer]
    exc = r._exc
    if exc is None:
        status = "LIVE"
    elif isinstance(exc, WebSocketError):
        status = f"X:{int(exc.code)}"
    else:
        status = "X:codec"
    return msgs, status


def cut(wire: bytes, cuts):
    segs, pos = [], 0
    for n in cuts:
        segs.append(wire[pos:pos + n])
        pos += n
    segs.append(wire[pos:])
    return segs


def impl_run(loop, case):
    """Real writer -> bytes -> real reader for one sequential case."""
    cfg, rc, ops = case["cfg"], case["rc"], case["ops"]
    tr, rnd, log = Tr(), _Rnd(), []
    tags, wlens, refusals = [], [], []

    bufs = [bytearray.fromhex(h) for h in case.get("bufs", [])]     # the application's own mutable buffers
    modified, ops_eff = [], []

    async def go():
        w = make_writer(cfg, tr, rnd)
        for idx, op in enumerate(ops):
            mark, ex0 = len(tr.buf), getattr(loop, "_c11_exec_calls", 0)
            held = None
            try:
                if op[0] == "S":
                    rnd.next = op[3]
                    if len(op) > 5 and op[5]:
                        # the payload is one of the application's buffers, handed over as it is (bytearray, or a
                        # memoryview over it); `snap` is what the application supplied at the time of this send
                        bi, kind, newhex = op[5]
                        if newhex is not None:
                            bufs[bi][:] = bytes.fromhex(newhex)
                        snap = bytes(bufs[bi])
                        held = (bi, snap)
                        ops_eff.append(op[:4] + [snap.hex(), op[5]])
                        obj = bufs[bi] if kind == "bytearray" else memoryview(bufs[bi])
                        await w.send_frame(obj, op[1], op[2] or None)
                    else:
                        ops_eff.append(op)
                        await w.send_frame(bytes.fromhex(op[4]), op[1], op[2] or None)
                else:
                    ops_eff.append(op)
                    rnd.next = op[2]
                    await w.close(op[1], bytes.fromhex(op[3]))
            except Exception as e:  # noqa
                tags.append("R")
                refusals.append(type(e).__name__)
                continue
            finally:
                if held is not None and bytes(bufs[held[0]]) != held[1]:
                    modified.append(idx)
            # what happened, read off the transport: plain / compressed frame; was the executor used
            try:
                frames = parse_frames(bytes(tr.buf[mark:]))
            except Exception:  # noqa
                frames = []
            if len(frames) != 1:
                tags.append("?")
                wlens.append(-1)
                continue
            rsv1 = bool(frames[0][0] & 0x40)
            used_exec = getattr(loop, "_c11_exec_calls", 0) > ex0
            tags.append("P" if not rsv1 else ("A" if used_exec else "S"))
            wlens.append(frames[0][2])
    with _Backend(case.get("backend", "toy")):
        loop.run_until_complete(go())
        wire = bytes(tr.buf)
        msgs, status = impl_read(loop, rc, cfg["compress"], cut(wire, case.get("cuts", [])))
    return {"wire": wire, "tags": "".join(tags), "wlens": wlens, "msgs": msgs, "status": status, "refusals": refusals,
            "modified": modified, "ops_eff": ops_eff}


# ------------------------------------------------------------------------------------------------
# property predicate (independent of the model)

def utf8_ok(b: bytes) -> bool:
    try:
        b.decode("utf-8")
        return True
    except UnicodeDecodeError:
        return False


def op_wf(rc, op) -> bool:
    if op[0] == "S":
        _, opcode, override, _, hx = op[:5]
        p = bytes.fromhex(hx)
        if opcode in (OP_TEXT, OP_BINARY):
            if override and not (9 <= override <= 15):
                return False
            return not (opcode == OP_TEXT and rc["decode_text"] and not utf8_ok(p))
        if opcode in (OP_PING, OP_PONG):
            return len(p) <= 125
        return False
    _, code, _, hx = op
    r = bytes.fromhex(hx)
    bad = code > 4999 or (code < 3000 and code not in CLOSE_CODES)
    return code < 65536 and not bad and utf8_ok(r) and len(r) <= 123


def fits(rc, op, wlen) -> bool:
    if op[0] == "S" and op[1] in (OP_TEXT, OP_BINARY) and rc["max"]:
        return wlen <= rc["max"] and len(op[4]) // 2 <= rc["max"]      # max_msg_size is the largest size accepted
    return True


def expected(op):
    if op[0] == "S":
        return [{OP_TEXT: "T", OP_BINARY: "B", OP_PING: "PI", OP_PONG: "PO"}[op[1]], op[4]]
    return ["C", op[1], op[3]]


def judge(case, r):
    """None if the case is outside the property's domain or the round trip holds; else (what, extra)."""
    ops, rc = (r.get("ops_eff") or case["ops"]), case["rc"]
    acc = [i for i, t in enumerate(r["tags"]) if t != "R"]
    if r.get("modified"):
        i = r["modified"][0]
        exp_ = [expected(ops[k]) for k in acc if op_wf(rc, ops[k])] if all(op_wf(rc, ops[k]) for k in acc) else None
        same = None if exp_ is None else sum(1 for a, b in zip(exp_, r["msgs"]) if a == b)
        return (f"send_frame changed the application's own payload buffer (operation {i}, "
                f"{ops[i][5][1] if len(ops[i]) > 5 else '?'} of {len(ops[i][4]) // 2} bytes): the buffer no longer holds what was sent"
                + ("" if exp_ is None else f"; {same}/{len(exp_)} messages arrived with the payload supplied at send time"),
                {"first_bad_op": i, "status": r["status"], "first_bad": None, "tags": r["tags"], "buffer_modified": True})
    closing = False
    for i, op in enumerate(ops):
        if r["tags"][i] == "R" and op_wf(rc, op) and not (closing and op[0] == "S" and not (op[1] & 8)):
            return (f"the writer refused a well-formed message (operation {i}: {r['refusals'][:1]})",
                    {"first_bad_op": i, "status": r["status"], "first_bad": None, "tags": r["tags"]})
        if op[0] == "C":
            closing = True
    if not all(op_wf(rc, ops[i]) for i in acc):
        return None
    if not all(fits(rc, ops[i], wl) for i, wl in zip(acc, r["wlens"])):
        return None
    exp = [expected(ops[i]) for i in acc]
    got = r["msgs"]
    if got == exp and r["status"] == "LIVE":
        return None
    fb = next((k for k in range(min(len(exp), len(got))) if exp[k] != got[k]), min(len(exp), len(got)))
    fbo = acc[fb] if fb < len(acc) else None

    def short(m):
        return None if m is None else [x if not isinstance(x, str) or len(x) <= 40 else x[:40] + f"..({len(x) // 2}B)" for x in m]
    what = (f"round trip broken at accepted message {fb} (operation {fbo}): sent {short(exp[fb]) if fb < len(exp) else None}, "
            f"received {short(got[fb]) if fb < len(got) else None}; {len(got)}/{len(exp)} messages delivered, reader status {r['status']}")
    return what, {"first_bad": fb, "first_bad_op": fbo, "status": r["status"], "tags": r["tags"]}


def shrink(loop, case, budget=120):
    """Greedy reduction of a violating sequential case (same verdict class: still a violation)."""
    def bad(c):
        try:
            return judge(c, impl_run(loop, c)) is not None
        except Exception:  # noqa
            return False
    cur = json.loads(json.dumps(case))
    n = 0
    changed = True
    while changed and n < budget:
        changed = False
        for i in range(len(cur["ops"]) - 1, -1, -1):
            if len(cur["ops"]) <= 1 or n >= budget:
                break
            c = json.loads(json.dumps(cur))
            del c["ops"][i]
            n += 1
            if bad(c):
                cur, changed = c, True
        if cur.get("cuts") and n < budget:
            c = json.loads(json.dumps(cur))
            c["cuts"] = []
            n += 1
            if bad(c):
                cur, changed = c, True
        for i, op in enumerate(cur["ops"]):
            if len(op) > 5:
                continue
            k = 4 if op[0] == "S" else 3
            ln = len(op[k]) // 2
            for new in (0, 1, ln // 2, ln - 1):
                if n >= budget or new >= ln or new < 0:
                    continue
                c = json.loads(json.dumps(cur))
                c["ops"][i][k] = op[k][:2 * new]
                n += 1
                if bad(c):
                    cur, changed = c, True
                    break
    return cur


# ------------------------------------------------------------------------------------------------
# generators

def boundary_sizes():
    return [0, 1, 2, 3, 4, 5, 124, 125, 126, 127, 128, 255, 256, 16383, 16384, 16385, 65534, 65535, 65536, 65537]


def rand_text(rng, n):
    out = bytearray()
    alphabet = ["a", "b", " ", "é", "€", "\U0001F600", "z", "0"]
    while len(out) < n:
        out += rng.choice(alphabet).encode()
    out = bytes(out[:n])
    while not utf8_ok(out):
        out = out[:-1]
    return out + b"x" * (n - len(out))


def rand_payload(rng, n, pool, text=False):
    if text:
        return rand_text(rng, n)
    r = rng.random()
    if r < 0.35 and pool:
        out = bytearray()
        while len(out) < n:
            out += rng.choice(pool)
        return bytes(out[:n])
    if r < 0.5:
        return bytes([rng.randrange(256)]) * n
    return rng.randbytes(n)


def gen_size(rng, big=False):
    r = rng.random()
    if r < 0.45:
        return rng.randrange(0, 40)
    if r < 0.7:
        return rng.choice(boundary_sizes()[:12])
    if r < 0.8:
        return rng.randrange(100, 400)
    if big:
        return rng.choice(boundary_sizes()[12:])
    return rng.randrange(0, 200)


def gen_ops(rng, cfg, rc, nops, pool, allow_big, p_override=0.12, p_bad=0.03):
    ops = []
    nbig = 0
    for _ in range(nops):
        r = rng.random()
        rbits = rng.choice([0, 1, 0xFFFFFFFF, 0x80000000, rng.getrandbits(32), rng.getrandbits(32)])
        if r < 0.68:
            opcode = rng.choice([OP_TEXT, OP_BINARY])
            n = gen_size(rng, big=allow_big and nbig < 2)
            if n > 1000:
                nbig += 1
            p = rand_payload(rng, n, pool, text=(opcode == OP_TEXT and (rc["decode_text"] or rng.random() < 0.5)))
            if opcode == OP_TEXT and rng.random() < p_bad:
                p = p + b"\xff"
            if n and rng.random() < 0.3:
                pool.append(p[:64])
            ov = rng.choice([9, 10, 12, 15, 15, 15]) if rng.random() < p_override else 0
            ops.append(["S", opcode, ov, rbits, p.hex()])
        elif r < 0.86:
            n = rng.choice([0, 1, 2, 5, 124, 125, rng.randrange(0, 126)])
            if rng.random() < p_bad:
                n = rng.choice([126, 127, 200])
            ops.append(["S", rng.choice([OP_PING, OP_PONG]), 0, rbits, rng.randbytes(n).hex()])
        elif r < 0.93:
            code = rng.choice([1000, 1000, 1001, 1011, 3000, 4999, 1014])
            if rng.random() < p_bad * 3:
                code = rng.choice([0, 999, 1004, 1005, 1006, 2999, 5000, 65535, 65536, 70000])
            reason = rng.choice([b"", b"bye", "né".encode(), b"r" * 123])
            if rng.random() < p_bad:
                reason = rng.choice([b"\xff", b"r" * 124])
            ops.append(["C", code, rbits, reason.hex()])
            if rng.random() < 0.6:
                break
        else:
            # a data frame with the same content as an earlier one (history reuse)
            prev = [o for o in ops if o[0] == "S" and o[1] in (OP_TEXT, OP_BINARY)]
            if prev:
                o = list(rng.choice(prev))
                o[3] = rbits
                ops.append(o)
    return ops


def gen_cfg(rng, want_compress=None):
    comp = rng.choice([0, 0, 15, 15, 15, 9, 10, 11, 12, 13, 14]) if want_compress is None else want_compress
    return {"mask": rng.randrange(2), "compress": comp, "notakeover": rng.randrange(2) if comp else 0}


def gen_rc(rng, ops=None):
    return {"max": 0, "decode_text": rng.randrange(2)}


def gen_cuts(rng, total, mode=None):
    mode = mode or rng.choice(["one", "one", "rand", "rand", "bytes", "heads"])
    if mode == "one" or total == 0:
        return []
    if mode == "bytes" and total <= 600:
        return [1] * total
    if mode == "heads":
        return [rng.randrange(1, 4) for _ in range(min(total // 2, 12))]
    cuts, left = [], total
    for _ in range(rng.randrange(1, 9)):
        if left <= 0:
            break
        n = rng.randrange(0, min(left, rng.choice([3, 20, 200, 70000])) + 1)
        cuts.append(n)
        left -= n
    return cuts


def mandatory_cases(rng):
    """Every boundary size x (mask) x (plain / shared compression / per-message override) x (text, binary)."""
    cases = []
    for n in boundary_sizes():
        for mask in (0, 1):
            for mode in ("plain", "shared", "override", "notakeover"):
                cfg = {"mask": mask, "compress": 0 if mode == "plain" else 15, "notakeover": 1 if mode == "notakeover" else 0}
                ov = 12 if mode == "override" else 0
                opcode = OP_BINARY if (n + mask) % 2 else OP_TEXT
                p = rand_text(rng, n) if opcode == OP_TEXT else rng.randbytes(n)
                rb = rng.getrandbits(32)
                ops = [["S", opcode, ov, rb, p.hex()], ["S", OP_PING, 0, rb ^ 0x5A5A5A5A, b"k".hex()]]
                if n < 1000:
                    ops.append(["S", opcode, ov, rb, p.hex()])
                cases.append({"cfg": cfg, "rc": {"max": 0, "decode_text": 1}, "ops": ops, "cuts": []})
    for n in (0, 1, 124, 125):
        for mask in (0, 1):
            for opcode in (OP_PING, OP_PONG):
                cases.append({"cfg": {"mask": mask, "compress": 15, "notakeover": 0}, "rc": {"max": 0, "decode_text": 1},
                              "ops": [["S", opcode, 0, 0xDEADBEEF, rng.randbytes(n).hex()]], "cuts": []})
    # the peer's size limit: exact fit is refused by the reader (C12's finding), one below passes
    for n in (1, 10, 126, 300):
        for d in (0, 1, 2):
            cases.append({"cfg": {"mask": 1, "compress": 0, "notakeover": 0}, "rc": {"max": n + d, "decode_text": 0},
                          "ops": [["S", OP_BINARY, 0, 7, rng.randbytes(n).hex()]], "cuts": []})
    # close, then what a closing writer still accepts
    cases.append({"cfg": {"mask": 0, "compress": 15, "notakeover": 0}, "rc": {"max": 0, "decode_text": 1},
                  "ops": [["S", OP_TEXT, 0, 0, b"hi".hex()], ["C", 1000, 0, b"bye".hex()], ["S", OP_TEXT, 0, 0, b"late".hex()],
                          ["S", OP_PING, 0, 0, b"p".hex()], ["C", 1001, 0, b"".hex()]], "cuts": []})
    return cases


def buffer_cases(rng, n, backend):
    """The application keeps mutable buffers (bytearray) and sends the SAME object several times — as it is or through
    a memoryview — possibly rewriting it between sends.  Each send must deliver what the buffer held at that moment and
    must leave the buffer alone."""
    cases = []
    sizes = [1, 2, 5, 125, 126, 127, 300, 4096, 16384, 16385, 65536, 70000]
    for k in range(n):
        mask = 0 if k % 7 == 6 else 1
        mode = ["plain", "shared", "override", "notakeover"][k % 4]
        cfg = {"mask": mask, "compress": 0 if mode == "plain" else rng.choice([15, 15, 9, 12]),
               "notakeover": 1 if mode == "notakeover" else 0}
        nb = rng.randrange(1, 3)
        cur = [rng.randbytes(rng.choice(sizes[:8] if k % 5 else sizes)) for _ in range(nb)]
        bufs = [b.hex() for b in cur]
        ops = []
        for j in range(rng.randrange(2, 6)):
            bi = rng.randrange(nb)
            newhex = None
            if j and rng.random() < 0.2:
                cur[bi] = rng.randbytes(len(cur[bi]))        # the application rewrites its buffer (same length)
                newhex = cur[bi].hex()
            kind = rng.choice(["bytearray", "bytearray", "memoryview"])
            ov = 12 if (mode == "override" and j == 0) else 0
            ops.append(["S", OP_BINARY, ov, rng.getrandbits(32), cur[bi].hex(), [bi, kind, newhex]])
            if rng.random() < 0.15:
                ops.append(["S", OP_PING, 0, rng.getrandbits(32), b"p".hex()])
        wire_len = sum(len(o[4]) // 2 + 14 for o in ops)
        cases.append({"cfg": cfg, "rc": {"max": 0, "decode_text": 0}, "ops": ops, "bufs": bufs,
                      "cuts": gen_cuts(rng, wire_len) if k % 2 else [], "backend": backend})
    return cases


# ------------------------------------------------------------------------------------------------
# suite `codec`: toy codec on both sides; writer bytes / path / reader messages compared with the model

def model_line(case):
    cfg, rc = case["cfg"], case["rc"]
    parts = ["RT", str(cfg["mask"]), str(cfg["compress"]), str(cfg["notakeover"]), str(rc["max"]), str(rc["decode_text"]),
             ",".join(map(str, case.get("cuts", []))) or "-"]
    for op in case["ops"]:
        if op[0] == "S":
            parts.append(f"S:{op[1]}:{op[2]}:{op[3]}:{op[4] or '-'}")
        else:
            parts.append(f"C:{op[1]}:{op[2]}:{op[3] or '-'}")
    return " ".join(parts)


def parse_model(line):
    d = {}
    for f in line.split(";"):
        k, _, v = f.partition(":")
        d[k] = v
    msgs = []
    if d.get("M", "-") != "-":
        for m in d["M"].split(","):
            x = m.split(":")
            if x[0] == "C":
                msgs.append(["C", int(x[1]), "" if x[2] == "-" else x[2]])
            else:
                msgs.append([x[0], "" if x[1] == "-" else x[1]])
    d["msgs"] = msgs
    d["wire"] = fw.unhex(d.get("W", "-"))
    return d


def check_case(ctx, loop, case, mline, suite):
    """One sequential case: implementation run, comparison with the model answer (if any), property oracle."""
    try:
        r = impl_run(loop, case)
    except Exception as e:  # noqa
        ctx.disagreement(suite, _small(case), mline[:200] if mline else None, f"harness/impl exception {e!r}")
        return None
    nontriv = bool(r["msgs"])
    ctx.case((json.dumps(case, sort_keys=True), r["wire"], json.dumps(r["msgs"]), r["status"]), nontrivial=nontriv)
    for t in r["tags"]:
        ctx.count(f"path:{t}")
    if case.get("bufs"):
        ctx.count("resent-buffer-sends", sum(1 for o in case["ops"] if len(o) > 5))
    ctx.count(f"status:{r['status']}")
    ctx.count("cuts:" + ("one" if not case.get("cuts") else "many"))
    if mline is not None:
        m = parse_model(mline)
        if m["wire"] != r["wire"] or m.get("T") != r["tags"]:
            ctx.disagreement(suite + ":writer", _small(case), {"tags": m.get("T"), "wire": m["wire"].hex()[:300]},
                             {"tags": r["tags"], "wire": r["wire"].hex()[:300]})
        elif m["msgs"] != r["msgs"] or m.get("R") != r["status"]:
            ctx.disagreement(suite + ":reader", _small(case), {"status": m.get("R"), "msgs": str(m["msgs"])[:300]},
                             {"status": r["status"], "msgs": str(r["msgs"])[:300]})
        # the validity predicates of the model against the harness's independent ones
        acc = [i for i, t in enumerate(r["tags"]) if t != "R"]
        pyv = "".join("1" if op_wf(case["rc"], op) else "0" for op in case["ops"])
        pyf = "1" if all(fits(case["rc"], case["ops"][i], wl) for i, wl in zip(acc, r["wlens"])) else "0"
        pyo = "0" if (not case["cfg"]["compress"] and any(is_compressed(case["cfg"], o) for o in case["ops"])) else "1"
        if m.get("V") != pyv or (m.get("T") == r["tags"] and m.get("F") != pyf) or m.get("O") != pyo:
            ctx.disagreement(suite + ":validity", _small(case), {"V": m.get("V"), "F": m.get("F"), "O": m.get("O")},
                             {"V": pyv, "F": pyf, "O": pyo})
    v = judge(case, r)
    if v is not None:
        what, extra = v
        c = dict(case, kind="roundtrip", suite=suite, **extra)
        if _matches_known(ctx, c):
            ctx.violation(c, what)
        else:
            small = shrink(loop, case)
            r2 = impl_run(loop, small)
            v2 = judge(small, r2)
            if v2 is None:
                small, v2 = case, v
            c2 = dict(small, kind="roundtrip", suite=suite, **v2[1])
            ctx.violation(c2, v2[0])
    return r


def _matches_known(ctx, c):
    for k in ctx.known:
        if not str(k.get("status", "")).startswith("open"):
            continue
        sig = k.get("signature") or {}
        pred = SIGNATURES.get(sig.get("kind"))
        try:
            if pred and pred(c, sig.get("params") or {}):
                return True
        except Exception:  # noqa
            pass
    return False


def _small(case):
    c = json.loads(json.dumps(case))
    for op in c.get("ops", []):
        k = 4 if op[0] == "S" else 3
        if len(op[k]) > 200:
            op[k] = op[k][:200] + f"...({len(op[k]) // 2} bytes)"
    return c


def suite_codec(ctx, exe, loop):
    rng = ctx.rng
    cases = []
    for c in mandatory_cases(rng):
        wire_len = sum(len(o[4 if o[0] == "S" else 3]) // 2 + 14 for o in c["ops"])
        if wire_len < 2000:
            cases.append(dict(c, backend="toy"))
        cases.append(dict(c, backend="toy", cuts=gen_cuts(rng, wire_len, "rand")))
    nrand = 1500 if ctx.quick else 40000
    for i in range(nrand):
        cfg = gen_cfg(rng)
        rc = gen_rc(rng)
        pool = []
        ops = gen_ops(rng, cfg, rc, rng.randrange(1, 9), pool, allow_big=(i % 25 == 0))
        if rng.random() < 0.12:
            data = [len(o[4]) // 2 for o in ops if o[0] == "S" and o[1] in (OP_TEXT, OP_BINARY)]
            if data:
                rc["max"] = max(data) + rng.choice([0, 1, 1, 2, 5, 4096])
        wire_len = sum(len(o[4 if o[0] == "S" else 3]) // 2 + 14 for o in ops)
        cases.append({"cfg": cfg, "rc": rc, "ops": ops, "cuts": gen_cuts(rng, wire_len), "backend": "toy"})
    cases += buffer_cases(rng, 140 if ctx.quick else 3000, "toy")
    if not ctx.quick:
        for n in (1 << 20, 3 << 20):
            for mask in (0, 1):
                p = rng.randbytes(n)
                cases.append({"cfg": {"mask": mask, "compress": 15, "notakeover": 0}, "rc": {"max": 0, "decode_text": 0},
                              "ops": [["S", OP_BINARY, 0, rng.getrandbits(32), p.hex()], ["S", OP_BINARY, 0, 5, p[: n // 2].hex()]],
                              "cuts": [1000, 7, 70000], "backend": "toy"})
    import time
    t1 = time.time()
    lines = [model_line(c) for c in cases]
    if exe is None:
        # no model runner (broken translator / proof build): the property oracle still runs on the implementation
        model = [None] * len(cases)
        cases = [c for c in cases if sum(len(o[4 if o[0] == "S" else 3]) for o in c["ops"]) < 400000]
        model = [None] * len(cases)
    else:
        model = run_model_parallel(exe, lines)
    ctx.notes.append(f"codec: model answered {len(lines)} cases in {time.time() - t1:.1f}s")
    for c, ml in zip(cases, model):
        if ml is not None and ml.startswith(("EXN", "BADREQ")):
            ctx.disagreement("codec:writer", _small(c), ml[:200], "model runner failed")
            continue
        check_case(ctx, loop, c, ml, "codec")
    ctx.sample({"suite": "codec", "case": _small(cases[len(cases) // 2]), "model": (model[len(cases) // 2] or "")[:300]})
    if exe is not None:
        ctx.close_suite("codec:writer", len(cases))
        ctx.close_suite("codec:reader", len(cases))
        ctx.close_suite("codec:validity", len(cases))


# ------------------------------------------------------------------------------------------------
# suite `zlib`: the real codec; property oracle + the codec laws the theorems assume, sampled

def zlib_laws(ctx, rng):
    """Pairing laws assumed of (compressobj(level=1, wbits=-w), decompressobj(wbits=-15)) — on samples."""
    bad = []
    n = 0
    for _ in range(150 if ctx.quick else 3000):
        w = rng.randrange(9, 16)
        full = rng.randrange(2)
        c = _real_zlib.compressobj(level=_real_zlib.Z_BEST_SPEED, wbits=-w)
        d = _real_zlib.decompressobj(wbits=-15)
        pool = [rng.randbytes(rng.randrange(1, 300)) for _ in range(3)]
        for step in range(rng.randrange(1, 7)):
            if rng.random() < 0.25:
                # a fresh compressor (per-message override) against the used decompressor
                c2 = _real_zlib.compressobj(level=_real_zlib.Z_BEST_SPEED, wbits=-rng.randrange(9, 16))
                m = rand_payload(rng, gen_size(rng, True), pool)
                z = c2.compress(m) + c2.flush(_real_zlib.Z_SYNC_FLUSH)
                if not z.endswith(TRAIL) or d.decompress(z) != m:
                    bad.append(("fresh-pairs-with-any", w, len(m)))
                n += 1
                if not full:
                    # after it the old compressor is NOT assumed paired: restart both
                    c = _real_zlib.compressobj(level=_real_zlib.Z_BEST_SPEED, wbits=-w)
                continue
            m = rand_payload(rng, gen_size(rng, True), pool)
            z = c.compress(m) + c.flush(_real_zlib.Z_FULL_FLUSH if full else _real_zlib.Z_SYNC_FLUSH)
            n += 1
            if not z.endswith(TRAIL):
                bad.append(("flush-ends-with-trailer", w, len(m)))
            cap = rng.choice([0, len(m) + 1, len(m) + 1000])
            out = d.decompress(d.unconsumed_tail + z, cap)
            if out != m or d.unconsumed_tail:
                bad.append(("paired-step", w, len(m), cap))
    ctx.count("zlib-law-samples", n)
    ctx.oblige("codec-laws:zlib-sampled", "correspondence", not bad, f"{len(bad)} law violations, first {bad[:3]}" if bad else "")


def suite_zlib(ctx, loop):
    rng = ctx.rng
    zlib_laws(ctx, rng)
    cases = []
    for c in mandatory_cases(rng):
        if c["cfg"]["compress"]:
            cases.append(dict(c, backend="zlib", cfg=dict(c["cfg"], compress=rng.randrange(9, 16))))
    nrand = 1000 if ctx.quick else 30000
    for i in range(nrand):
        cfg = gen_cfg(rng, want_compress=rng.randrange(9, 16))
        rc = gen_rc(rng)
        pool = [rng.randbytes(rng.randrange(8, 200)) for _ in range(3)]
        ops = gen_ops(rng, cfg, rc, rng.randrange(1, 10), pool, allow_big=(i % 20 == 0))
        wire_len = sum(len(o[4 if o[0] == "S" else 3]) // 2 + 14 for o in ops)
        cases.append({"cfg": cfg, "rc": rc, "ops": ops, "cuts": gen_cuts(rng, wire_len // 2), "backend": "zlib"})
    cases += buffer_cases(rng, 80 if ctx.quick else 2000, "zlib")
    # multi-megabyte messages (sync / executor path, masked / unmasked, with and without history)
    for n in ((1 << 20) + 17, 3 << 20) if ctx.quick else ((1 << 20) + 17, 3 << 20, 8 << 20):
        for mask in (0, 1):
            blk = rng.randbytes(1 << 15)
            p = (blk * (n // len(blk) + 1))[:n] if mask else rng.randbytes(n)
            cases.append({"cfg": {"mask": mask, "compress": rng.choice([0, 9, 15]), "notakeover": rng.randrange(2)},
                          "rc": {"max": 0, "decode_text": 0},
                          "ops": [["S", OP_BINARY, 0, 1, b"head".hex()], ["S", OP_BINARY, 0, rng.getrandbits(32), p.hex()],
                                  ["S", OP_PING, 0, 9, b"".hex()], ["S", OP_BINARY, 0, 3, p[: 70000].hex()]],
                          "cuts": [1, 1, 1, 5, 65536, 100000], "backend": "zlib"})
    for c in cases:
        r = check_case(ctx, loop, c, None, "zlib")
        if r is not None:
            ctx.count("zlib:maxlen:" + str(max([0] + [len(o[4]) // 2 for o in c["ops"] if o[0] == "S"]).bit_length()))
    ctx.sample({"suite": "zlib", "case": _small(cases[len(cases) // 3])})
    ctx.oblige("oracle:zlib-roundtrip-ran", "correspondence", len(cases) > 0, "")
    ctx.count("suite:zlib", len(cases))


# ------------------------------------------------------------------------------------------------
# suite `concurrent`: sender tasks x controlled executor x cancellations

class _TraceBackend:
    """Wraps the active zlib backend: logs every compress() call on a compressor object with its owner task."""

    def __init__(self, inner, log, owner):
        self._inner, self._log, self._owner = inner, log, owner
        for k in ("MAX_WBITS", "Z_FULL_FLUSH", "Z_SYNC_FLUSH", "Z_BEST_SPEED", "Z_FINISH"):
            setattr(self, k, getattr(inner, k))
        self.__name__ = "traced-" + getattr(inner, "__name__", "zlib")
        self.error = getattr(inner, "error", Exception)

    def compressobj(self, *a, **k):
        obj, log, owner = self._inner.compressobj(*a, **k), self._log, self._owner

        class C:
            def compress(self_, data):
                log.append(("cbegin", owner(), bytes(data)))
                return obj.compress(data)

            def flush(self_, *aa):
                log.append(("cend", owner()))
                return obj.flush(*aa)
        return C()

    def decompressobj(self, *a, **k):
        return self._inner.decompressobj(*a, **k)

    def __getattr__(self, name):
        return getattr(self._inner, name)


def run_history(case):
    """Execute one concurrent history on the real writer.  case = {cfg, rc, backend, senders: [[op,...],...],
    steps: [["spawn", i] | ["exec", k, eager01] | ["cancel", i]], cuts}.  Returns the observable, including the
    abstract event trace (lock acquire/release, compress, frame write) for the sender LTS."""
    from harness.common.loop import VLoop
    from aiohttp import compression_utils as cu
    cfg, rc = case["cfg"], case["rc"]
    loop = VLoop()
    asyncio.set_event_loop(loop)
    tr, rnd = Tr(), _Rnd()
    jobs = []           # pending executor jobs: [future, fn, args, owner task]
    done = {}           # (sender, k) -> "ok" | "cancelled" | "refused"
    log = []            # raw trace
    called = []         # (sender, k) in the order send_frame was called
    job_owner = [None]

    def owner():
        t = asyncio.current_task(loop) if loop.is_running() else None
        return t if t is not None else job_owner[0]

    eager = bool(case.get("eager"))   # the worker thread starts the job at once; its result arrives at the `exec` step

    def rie(executor, fn, *args):
        fut = loop.create_future()
        j = [fut, fn, args, asyncio.current_task(loop), None]
        if eager:
            j[4] = (fn(*args),)
        if "script" in case:
            loop.call_soon(run_job, j)          # the worker thread finishes by itself, one loop iteration later
        else:
            jobs.append(j)
        return fut
    loop.run_in_executor = rie

    def run_job(j, deliver=True):
        fut, fn, args, own, pre = j
        if pre is not None:
            res = pre[0]
        else:
            job_owner[0] = own
            try:
                res = fn(*args)
            finally:
                job_owner[0] = None
        if deliver and not fut.done():
            fut.set_result(res)

    class TLock(asyncio.Lock):
        async def acquire(self_):
            log.append(("enq", asyncio.current_task(loop)))          # the lock is requested ...
            r = await super().acquire()
            log.append(("acq", asyncio.current_task(loop)))          # ... and obtained
            return r

        def release(self_):
            log.append(("rel", owner()))
            return super().release()

    counter = [0]

    class Rnd:
        def getrandbits(self_, k):
            counter[0] += 1
            self_.last = (counter[0] * 2654435761) & 0xFFFFFFFF
            return self_.last
    rnd = Rnd()
    rnd.last = 0
    tasks = {}
    try:
        with _Backend(case.get("backend", "zlib")):
            inner_backend = cu.ZLibBackend._zlib_backend
            cu.set_zlib_backend(_TraceBackend(inner_backend, log, owner))
            w = make_writer(cfg, tr, rnd, limit=case.get("limit", 2 ** 62))
            drain_waiters = []
            if case.get("highwater"):
                # a transport with write flow control: above `highwater` unsent bytes the protocol is paused; the bytes
                # leave a little later (virtual time), which resumes the protocol and wakes _drain_helper() callers
                proto = w.protocol
                tr.high = case["highwater"]

                def drained():
                    tr.unsent = 0
                    proto._paused = False
                    for f in drain_waiters[:]:
                        if not f.done():
                            f.set_result(None)
                    del drain_waiters[:]

                def on_pause():
                    if not proto._paused:
                        proto._paused = True
                        loop.call_later(0.01, drained)
                tr.on_pause = on_pause

                async def drain_helper():
                    if not proto._paused:
                        return
                    f = loop.create_future()
                    drain_waiters.append(f)
                    await f
                proto._drain_helper = drain_helper
            if isinstance(getattr(w, "_send_lock", None), asyncio.Lock):
                w._send_lock = TLock()
            o_wf = getattr(w, "_write_websocket_frame", None)
            if o_wf is not None:
                def wf(message, opcode, rsv):
                    r = o_wf(message, opcode, rsv)
                    log.append(("write", owner(), opcode, rsv, rnd.last if cfg["mask"] else 0, bytes(message)))
                    return r
                w._write_websocket_frame = wf

            async def sender(i):
                for k, op in enumerate(case["senders"][i]):
                    try:
                        called.append((i, k))
                        log.append(("call", (i, k), bytes.fromhex(op[4])))
                        await w.send_frame(bytes.fromhex(op[4]), op[1], op[2] or None)
                        done[(i, k)] = "ok"
                    except asyncio.CancelledError:
                        done[(i, k)] = "cancelled"
                        raise
                    except Exception:  # noqa
                        done[(i, k)] = "refused"

            def settle():
                loop.run_until_idle()

            async def director():
                """The application: it starts, awaits, gathers and cancels sends WITHOUT letting the loop run in between
                (only `yield` gives one loop iteration away)."""
                for st in case["script"]:
                    if st[0] == "start":
                        tasks[st[1]] = asyncio.ensure_future(sender(st[1]))
                    elif st[0] == "yield":
                        await asyncio.sleep(0)
                    elif st[0] == "cancel":
                        t = tasks.get(st[1])
                        if t is not None:
                            t.cancel()
                    elif st[0] == "send":
                        await sender(st[1])
                    elif st[0] == "gather":
                        await asyncio.gather(*(sender(i) for i in st[1]), return_exceptions=True)
            if "script" in case:
                loop.run_until_complete(director())
                settle()
                for _ in range(50):         # let the transport drain and everything that waits for it finish
                    if not drain_waiters and not getattr(w.protocol, "_paused", False):
                        break
                    loop.run_until_complete(asyncio.sleep(0.02))
                    settle()

            for st in case.get("steps", []):
                if st[0] == "spawn":
                    tasks[st[1]] = loop.create_task(sender(st[1]))
                    settle()
                elif st[0] == "exec":
                    if jobs:
                        j = jobs.pop(min(st[1], len(jobs) - 1))
                        if j[0].cancelled():
                            if st[2]:
                                run_job(j, deliver=False)   # the thread was already running: the work happens, the result is dropped
                        else:
                            run_job(j)
                        settle()
                elif st[0] == "cancel":
                    t = tasks.get(st[1])
                    if t is not None and not t.done():
                        t.cancel()
                        settle()
            # drain: finish every outstanding job, let everything complete
            for _ in range(200):
                if not jobs:
                    break
                j = jobs.pop(0)
                run_job(j, deliver=not j[0].cancelled())
                settle()
            settle()
            stuck = [i for i, t in tasks.items() if not t.done()]
            for t in tasks.values():
                if not t.done():
                    t.cancel()
            settle()
            for t in tasks.values():
                if t.done() and not t.cancelled():
                    t.exception()
            wire = bytes(tr.buf)
            cu.set_zlib_backend(inner_backend)
            msgs, status = impl_read(loop, rc, cfg["compress"], cut(wire, case.get("cuts", [])))
            lk = getattr(w, "_send_lock", None)
            locked = bool(lk.locked()) if lk is not None else False
    finally:
        asyncio.set_event_loop(None)
        loop.close()
    return {"wire": wire, "msgs": msgs, "status": status, "done": {f"{i}.{k}": v for (i, k), v in done.items()},
            "stuck": stuck, "locked": locked, "log": log, "traced": o_wf is not None, "called": [list(x) for x in called]}


def lts_events(case, r):
    """Raw log -> the event list of Model/WsSend.v (driver text, command FIFO).  Operations are recognised by their
    payload (unique per history); the mask bits of a compressed frame are those its later write drew.  A lock request is
    attributed to the oldest send_frame call that has not requested the lock yet (in the code as it is, the request
    happens inside the call).  A waiter that never obtained the lock (cancelled) is dropped with its call."""
    by_payload = {}
    for ops in case["senders"]:
        for op in ops:
            by_payload[bytes.fromhex(op[4])] = op
    tid = {}

    def t(x):
        return tid.setdefault(id(x), len(tid) + 1)

    def optxt(op, rbits):
        return f"S:{op[1]}:{op[2]}:{rbits}:{op[4] or '-'}"
    log = r["log"]

    def mask_of(i, task):
        nxt = next((x for x in log[i + 1:] if x[0] == "write" and x[1] is task and x[3]), None)
        return nxt[4] if nxt else 0
    evs, pending = [], []
    for i, e in enumerate(log):
        if e[0] == "call":
            op = by_payload.get(e[2])
            if op is not None and is_compressed(case["cfg"], op):
                pending.append(op)
        elif e[0] == "enq":
            if not pending:
                return None, "the send lock was requested outside any send_frame call of a compressed message"
            op = pending.pop(0)
            nxt = next((x for x in log[i + 1:] if x[1] is e[1] and x[0] in ("acq", "enq")), None)
            if nxt is not None and nxt[0] == "acq":
                evs.append(f"E/{t(e[1])}/{optxt(op, mask_of(i, e[1]))}")
        elif e[0] == "acq":
            evs.append(f"A/{t(e[1])}")
        elif e[0] == "rel":
            evs.append(f"R/{t(e[1])}")
        elif e[0] == "cbegin":
            op = by_payload.get(e[2])
            if op is None:
                return None, f"compress() of a payload that is no sender's message ({len(e[2])} bytes)"
            evs.append(f"K/{t(e[1])}/{optxt(op, mask_of(i, e[1]))}")
        elif e[0] == "write":
            if e[3]:
                evs.append(f"W/{t(e[1])}")
            else:
                op = by_payload.get(e[5])
                if op is None:
                    return None, "uncompressed frame whose payload is no sender's message"
                evs.append(f"P/{optxt(op, e[4])}")
    return evs, None


def judge_history(case, r):
    """The property on a concurrent history: the reader delivers, unharmed and without error, exactly one copy of
    every message whose send completed, at most one copy of a message whose sender was cancelled, nothing else,
    and each sender's messages in the order it sent them."""
    frames, complete = decode_wire(r["wire"])
    if not complete:
        return (f"the transport stream ends inside a frame ({len(frames)} complete frames, {len(r['wire'])} bytes): a frame was "
                f"left half written")
    plain = {}
    for ops in case["senders"]:
        for op in ops:
            plain[(op[1], op[4])] = True
    for k, (opcode, rsv1, payload, b0) in enumerate(frames):
        if b0 & 0x30 or not (b0 & 0x80) or (not rsv1 and (opcode, payload.hex()) not in plain):
            return (f"frame {k} on the wire (first byte {b0:#x}, {len(payload)} payload bytes) is no submitted message: frames of "
                    f"different senders are interleaved on the transport")
    if r["status"] != "LIVE":
        return f"the reader failed with {r['status']} after {len(r['msgs'])} messages"
    if r["stuck"]:
        return f"sender tasks {r['stuck']} never finished"
    if r["locked"]:
        return "the send lock is still held after every sender finished"
    want = {}
    for i, ops in enumerate(case["senders"]):
        for k, op in enumerate(ops):
            want[json.dumps(expected(op))] = (i, k)
    seen = []
    for m in r["msgs"]:
        key = json.dumps(m)
        if key not in want:
            return f"a message that was never sent was delivered: {str(m)[:120]}"
        if want[key] in seen:
            return f"message {want[key]} was delivered twice"
        seen.append(want[key])
    for (i, k) in want.values():
        st = r["done"].get(f"{i}.{k}")
        if st == "ok" and (i, k) not in seen:
            return f"message {(i, k)} was sent (send_frame returned) but never delivered"
        if st is None and (i, k) in seen:
            return f"message {(i, k)} was delivered although its send never started"
    for i in range(len(case["senders"])):
        ks = [k for (j, k) in seen if j == i]
        if ks != sorted(ks):
            return f"sender {i}'s messages were delivered out of order: {ks}"
    # submission order: send_frame requests the (fair) lock before it returns control, so compressed messages arrive in
    # the order send_frame was called; uncompressed frames are written inside the call (they may overtake a compressed
    # message still being deflated, not each other)
    pos = {tuple(x): n for n, x in enumerate(r.get("called", []))}
    for grp in (True, False):
        sub = [x for x in seen if x in pos and is_compressed(case["cfg"], case["senders"][x[0]][x[1]]) == grp]
        ps = [pos[x] for x in sub]
        if ps != sorted(ps):
            bad = next(n for n in range(1, len(ps)) if ps[n] < ps[n - 1])
            return (f"{'compressed' if grp else 'uncompressed'} messages were delivered out of submission order: "
                    f"message {sub[bad]} (send_frame call #{ps[bad]}) arrived after {sub[bad - 1]} (call #{ps[bad - 1]})")
    return None


def gen_history(rng, backend):
    cfg = {"mask": rng.randrange(2), "compress": rng.choice([15, 15, 9, 12]), "notakeover": rng.choice([0, 0, 1])}
    nsend = rng.randrange(2, 5)
    common = rng.randbytes(600)
    senders = []
    uid = 0
    for i in range(nsend):
        ops = []
        for k in range(rng.randrange(1, 4)):
            uid += 1
            r = rng.random()
            tagb = b"<%04d>" % uid
            if r < 0.35:
                n = rng.choice([16385, 16385, 16500, 20000])        # executor path
            elif r < 0.85:
                n = rng.choice([0, 10, 300, 16384])                # in-loop path
            else:
                ops.append(["S", rng.choice([OP_PING, OP_PONG]), 0, rng.getrandbits(32), tagb.hex()])
                continue
            body = (common * (n // len(common) + 1))[:n]
            # a per-message `compress=` override on some sends: its private compressor must not let another
            # sender's frame overtake it (the shared compressor is reset when the override message starts)
            ov = rng.choice([15, 15, 12, 9]) if rng.random() < 0.25 else 0
            ops.append(["S", OP_BINARY, ov, rng.getrandbits(32), (tagb + body).hex()])
        senders.append(ops)
    steps = []
    order = list(range(nsend))
    rng.shuffle(order)
    pending = list(order)
    for _ in range(rng.randrange(nsend, nsend * 5)):
        r = rng.random()
        if pending and r < 0.45:
            steps.append(["spawn", pending.pop(0)])
        elif r < 0.8:
            steps.append(["exec", rng.randrange(3), rng.randrange(2)])
        else:
            steps.append(["cancel", rng.randrange(nsend)])
    for i in pending:
        steps.append(["spawn", i])
    return {"kind": "concurrent", "suite": "concurrent", "backend": backend, "cfg": cfg, "rc": {"max": 0, "decode_text": 0},
            "senders": senders, "steps": steps, "cuts": gen_cuts(rng, 4000), "eager": rng.randrange(2)}


def gen_script(rng, backend, i):
    """Schedules in which the application does several things within ONE loop iteration: gather of big and small
    compressed sends, cancel of a big send followed at once by another send, random mixes."""
    cfg = {"mask": rng.randrange(2), "compress": rng.choice([15, 15, 9, 12]), "notakeover": rng.choice([0, 0, 1])}
    common = rng.randbytes(500)
    uid = [0]

    def op(kind):
        uid[0] += 1
        tagb = b"<%04d>" % uid[0]
        if kind == "ping":
            return ["S", OP_PING, 0, 0, tagb.hex()]
        n = rng.choice([16385, 16400, 17000]) if kind == "big" else rng.choice([0, 5, 300, 16384 - 6])
        ov = rng.choice([15, 15, 12, 9]) if i % 4 != 3 and rng.random() < 0.25 else 0
        return ["S", OP_BINARY, ov, 0, (tagb + (common * (n // len(common) + 1))[:n]).hex()]
    mode = i % 4
    if mode == 3:
        # server side, nothing negotiated: a message far above the transport's high-water mark, so that writing is
        # paused while (or right after) it is handed over; another sender runs, or the big sender is cancelled, meanwhile
        cfg = {"mask": 0, "compress": 0, "notakeover": 0}
        uid[0] += 1
        big = ["S", OP_BINARY, 0, 0, (b"<%04d>" % uid[0] + rng.randbytes(64) * (rng.choice([270000, 300000, 600000]) // 64)).hex()]
        senders = [[big], [op("small")], [op("ping")], [op("small")]]
        v = rng.randrange(4)
        if v == 0:
            script = [["start", 0], ["yield"], ["send", 1], ["send", 2]]
        elif v == 1:
            script = [["start", 0], ["yield"], ["cancel", 0], ["yield"], ["send", 1], ["send", 3]]
        elif v == 2:
            script = [["gather", [0, 1, 2, 3]]]
        else:
            script = [["start", 0], ["yield"], ["start", 1], ["yield"], ["cancel", 0], ["send", 2]]
        return {"kind": "concurrent", "suite": "concurrent", "backend": "toy", "cfg": cfg, "rc": {"max": 0, "decode_text": 0},
                "senders": senders, "script": script, "cuts": gen_cuts(rng, 4000), "eager": 0,
                "highwater": rng.choice([65536, 65536, 1000]), "limit": 65536}
    if mode == 0:      # asyncio.gather(send(big), send(small), ...)
        kinds = [rng.choice(["big", "small", "small", "ping"]) for _ in range(rng.randrange(2, 6))]
        kinds[0] = "big"
        senders = [[op(k)] for k in kinds]
        script = [["gather", list(range(len(senders)))]]
    elif mode == 1:    # a big send is cancelled mid-send, the canceller sends right away
        senders = [[op("big")], [op(rng.choice(["small", "small", "big"]))], [op("small")]]
        script = [["start", 0]] + [["yield"]] * rng.randrange(0, 3) + [["cancel", 0], ["send", 1], ["send", 2]]
    else:
        ns = rng.randrange(3, 6)
        senders = [[op(rng.choice(["big", "small", "small", "ping"])) for _ in range(rng.randrange(1, 3))] for _ in range(ns)]
        script, free = [], list(range(ns))
        started = []
        while free:
            r = rng.random()
            if r < 0.35:
                j = free.pop(0)
                script.append(["start", j])
                started.append(j)
            elif r < 0.5:
                j = free.pop(0)
                script.append(["send", j])
            elif r < 0.65 and len(free) >= 2:
                k = rng.randrange(2, len(free) + 1)
                script.append(["gather", free[:k]])
                free = free[k:]
            elif r < 0.8:
                script.append(["yield"])
            elif started:
                script.append(["cancel", rng.choice(started)])
    return {"kind": "concurrent", "suite": "concurrent", "backend": backend, "cfg": cfg, "rc": {"max": 0, "decode_text": 0},
            "senders": senders, "script": script, "cuts": gen_cuts(rng, 4000), "eager": rng.randrange(2)}


def shrink_history(case, budget=60):
    def bad(c):
        try:
            return judge_history(c, run_history(c)) is not None
        except Exception:  # noqa
            return False
    cur = json.loads(json.dumps(case))
    n = 0
    changed = True
    while changed and n < budget:
        changed = False
        key = "script" if "script" in cur else "steps"
        for i in range(len(cur[key]) - 1, -1, -1):
            if n >= budget:
                break
            c = json.loads(json.dumps(cur))
            del c[key][i]
            n += 1
            if c[key] and bad(c):
                cur, changed = c, True
        for i in range(len(cur["senders"])):
            for k in range(len(cur["senders"][i]) - 1, -1, -1):
                if n >= budget or len(cur["senders"][i]) <= 1:
                    break
                c = json.loads(json.dumps(cur))
                del c["senders"][i][k]
                n += 1
                if bad(c):
                    cur, changed = c, True
    return cur


def suite_concurrent(ctx, exe):
    rng = ctx.rng
    n = 200 if ctx.quick else 6000
    ran = 0
    lts_lines, lts_cases = [], []
    for i in range(n + n // 2):
        case = gen_history(rng, "zlib" if i % 3 else "toy") if i < n else gen_script(rng, "zlib" if i % 3 else "toy", i)
        try:
            r = run_history(case)
        except Exception as e:  # noqa
            ctx.disagreement("concurrent", _small_h(case), None, f"harness exception {e!r}")
            continue
        ran += 1
        ctx.case((json.dumps(case, sort_keys=True), r["wire"], r["status"]), nontrivial=bool(r["msgs"]))
        if exe is not None and r["traced"] and not case.get("highwater"):
            evs, why = lts_events(case, r)
            if evs is None:
                ctx.disagreement("concurrent", _small_h(case), "trace not expressible in the sender LTS", why)
            else:
                lts_lines.append(" ".join(["FIFO", str(case["cfg"]["mask"]), str(case["cfg"]["compress"]), str(case["cfg"]["notakeover"])] + evs))
                lts_cases.append((case, r, evs))
        ctx.count(f"concurrent:senders:{len(case['senders'])}")
        for v in r["done"].values():
            ctx.count(f"concurrent:send:{v}")
        bad = judge_history(case, r)
        if bad:
            small = shrink_history(case)
            b2 = judge_history(small, run_history(small))
            if not b2:
                small, b2 = case, bad
            ctx.violation(small, "concurrent senders: " + b2)
    # trace validation: the observed lock / compress / write events must be a trace of the sender LTS, end with the
    # lock free, and (toy codec) give the model the very bytes the implementation wrote
    if lts_lines:
        answers = run_model_parallel(exe, lts_lines)
        for (case, r, evs), ans in zip(lts_cases, answers):
            f = dict(x.split(":", 1) for x in ans.split(";") if ":" in x)
            ok = ans.startswith("OK") and f.get("H") == "none" and f.get("Q") == "0" and f.get("C") == "none"
            if ok and case["backend"] == "toy" and fw.unhex(f.get("W", "-")) != r["wire"]:
                ok = False
            if ok:
                ctx.traces_validated += 1
                ctx.count("concurrent:events", len(evs))
            else:
                ctx.disagreement("concurrent", _small_h(case), ans[:200], {"events": [e[:40] for e in evs][:60], "wire": r["wire"].hex()[:200]})
    ctx.sample({"suite": "concurrent", "case": _small_h(gen_history(rng, "zlib"))})
    ctx.close_suite("concurrent", ran)


def _small_h(case):
    c = json.loads(json.dumps(case))
    for s in c["senders"]:
        for op in s:
            if len(op[4]) > 120:
                op[4] = op[4][:120] + f"...({len(op[4]) // 2} bytes)"
    return c


# ------------------------------------------------------------------------------------------------
# suite `queue`: reader -> WebSocketDataQueue -> read() with cancelled receives

def run_queue(case):
    """case = {cfg, rc, ops, backend, script}; script steps: ["read"] start a consumer (ws.receive()) if none is
    outstanding, ["feed", part] feed the next frame (part 0: whole, 1: first half, 2: rest of a started frame),
    ["cancel"] cancel the outstanding consumer (its timeout fired), ["yield"] give one loop iteration away.  Steps
    between two yields happen in ONE loop iteration.  Afterwards the rest is fed, eof, and the queue is drained."""
    from harness.common.loop import VLoop
    from aiohttp._websocket.reader_py import WebSocketReader, WebSocketDataQueue
    cfg, rc = case["cfg"], case["rc"]
    loop = VLoop()
    asyncio.set_event_loop(loop)
    inline_executor(loop)
    log, got, flowlog = [], [], []
    try:
        with _Backend(case.get("backend", "toy")):
            tr, rnd = Tr(), _Rnd()
            frames = []

            async def write_all():
                w = make_writer(cfg, tr, rnd)
                for op in case["ops"]:
                    mark = len(tr.buf)
                    rnd.next = op[3] if op[0] == "S" else op[2]
                    if op[0] == "S":
                        await w.send_frame(bytes.fromhex(op[4]), op[1], op[2] or None)
                    else:
                        await w.close(op[1], bytes.fromhex(op[3]))
                    frames.append(bytes(tr.buf[mark:]))
            loop.run_until_complete(write_all())
            # a protocol that honours read flow control: pause_reading() / resume_reading() flip _reading_paused, and a
            # paused transport delivers nothing (the harness holds the frames back until reading is resumed)
            proto = _mk_proto()
            flow = {"pauses": 0, "resumes": 0}

            def pause_reading():
                proto._reading_paused = True
                flow["pauses"] += 1

            def resume_reading():
                proto._reading_paused = False
                flow["resumes"] += 1
            proto.pause_reading = pause_reading
            proto.resume_reading = resume_reading
            q = WebSocketDataQueue(proto, case.get("qlimit", 2 ** 62), loop=loop)
            rd = WebSocketReader(q, rc["max"], bool(cfg["compress"]), bool(rc["decode_text"]))
            o_feed = q.feed_data

            def feed(m):
                log.append("F/" + json.dumps(canon_msg(m)).encode().hex())
                flowlog.append(f"F:{int(m.size)}")
                return o_feed(m)
            q.feed_data = feed

            async def consume():
                log.append("R")
                try:
                    m = await q.read()
                except asyncio.CancelledError:
                    log.append("X")
                    raise
                except Exception:  # noqa   EofStream / reader error: the read ended without a message
                    log.append("X")
                    return
                log.append("T")
                flowlog.append("P")
                got.append(canon_msg(m))

            state = {"task": None, "next": 0, "half": None}

            def feed_step(part):
                if proto._reading_paused:
                    return                       # the transport is paused: nothing arrives
                if state["half"] is not None:
                    rd.feed_data(state["half"])
                    state["half"] = None
                    return
                if state["next"] >= len(frames):
                    return
                f = frames[state["next"]]
                state["next"] += 1
                if part == 1 and len(f) > 1:
                    rd.feed_data(f[:len(f) // 2])
                    state["half"] = f[len(f) // 2:]
                else:
                    rd.feed_data(f)

            async def director():
                for st in case["script"]:
                    t = state["task"]
                    if st[0] == "read":
                        if t is None or t.done():
                            state["task"] = asyncio.ensure_future(consume())
                    elif st[0] == "feed":
                        feed_step(st[1])
                    elif st[0] == "cancel":
                        if t is not None and not t.done():
                            t.cancel()
                    elif st[0] == "yield":
                        await asyncio.sleep(0)
                # the rest of the stream, then drain
                t = state["task"]
                if t is not None and not t.done():
                    await asyncio.sleep(0)
                for _ in range(4 * len(frames) + 8):
                    if state["half"] is None and state["next"] >= len(frames):
                        break
                    if not proto._reading_paused:
                        feed_step(0)
                        continue
                    # reading is paused: only the consumer can get it going again
                    t = state["task"]
                    if t is not None and not t.done():
                        await asyncio.sleep(0)
                        if not t.done() and not q._buffer:
                            break
                        continue
                    if not q._buffer:
                        break                    # nothing queued, nobody to resume: the connection is wedged
                    await consume()
                state["undelivered"] = (len(frames) - state["next"]) + (1 if state["half"] is not None else 0)
                rd.feed_eof()
                t = state["task"]
                if t is not None:
                    await asyncio.gather(t, return_exceptions=True)
                for _ in range(len(frames) + 2):
                    n0 = len(got)
                    await consume()
                    if len(got) == n0:
                        break
            loop.run_until_complete(director())
            left = len(q._buffer)
            exc = rd._exc
            paused_end = bool(proto._reading_paused)
            qsize = int(q._size)
    finally:
        asyncio.set_event_loop(None)
        loop.close()
    return {"got": got, "log": log, "left": left, "error": repr(exc) if exc else None, "paused_end": paused_end,
            "undelivered": state.get("undelivered", 0), "flow": flow, "flowlog": flowlog, "qsize": qsize}


def judge_queue(case, r):
    if r["error"]:
        return f"the reader failed: {r['error']}"
    exp = [expected(op) for op in case["ops"]]
    if r.get("paused_end") and r["left"] == 0:
        return (f"read flow control: the consumer has drained the queue ({len(r['got'])} messages read) but reading is still "
                f"paused (pause_reading x{r['flow']['pauses']}, resume_reading x{r['flow']['resumes']}): "
                f"{r['undelivered']} frame(s) the peer sent can never arrive")
    if r["got"] == exp and r["left"] == 0:
        return None
    fb = next((k for k in range(min(len(exp), len(r["got"]))) if exp[k] != r["got"][k]), min(len(exp), len(r["got"])))
    return (f"receive(): message {fb} of {len(exp)} sent was not the {fb}-th message received "
            f"(sent {str(exp[fb])[:60] if fb < len(exp) else None}, received {str(r['got'][fb])[:60] if fb < len(r['got']) else None}; "
            f"{len(r['got'])} received, {r['left']} left in the queue) — lost, duplicated or reordered between reader and consumer")


def gen_queue_case(rng, i):
    cfg = gen_cfg(rng, want_compress=rng.choice([0, 15]))
    rc = {"max": 0, "decode_text": rng.randrange(2)}
    ops = []
    for k in range(rng.randrange(2, 7)):
        r = rng.random()
        tagb = b"m%02d-" % k
        if r < 0.75:
            opcode = rng.choice([OP_TEXT, OP_BINARY])
            ops.append(["S", opcode, 0, rng.getrandbits(32), (tagb + b"x" * rng.choice([0, 3, 130])).hex()])
        else:
            ops.append(["S", rng.choice([OP_PING, OP_PONG]), 0, rng.getrandbits(32), tagb.hex()])
    script = []
    if i % 2 == 0:
        # the pattern of a receive(timeout=...) that expires in the loop iteration in which the frame arrives
        for _ in range(rng.randrange(1, 4)):
            script += [["read"], ["yield"]] + ([["feed", 1]] if rng.random() < 0.5 else []) + [["feed", 0], ["cancel"], ["yield"]]
            if rng.random() < 0.5:
                script += [["read"], ["yield"], ["yield"]]
    else:
        for _ in range(rng.randrange(3, 14)):
            script.append(rng.choice([["read"], ["read"], ["feed", 0], ["feed", 1], ["cancel"], ["yield"], ["yield"]]))
    case = {"kind": "queue", "suite": "queue", "backend": "toy", "cfg": cfg, "rc": rc, "ops": ops, "script": script}
    if i % 3 == 0:
        # read flow control in play: queue limit small against some messages (a message alone may exceed 2 x limit)
        case["qlimit"] = rng.choice([1, 2, 8, 50, 70, 200])
        if rng.random() < 0.5:
            k = rng.randrange(len(ops))
            if ops[k][1] in (OP_TEXT, OP_BINARY):
                ops[k][4] = (bytes.fromhex(ops[k][4])[:4] + b"y" * rng.choice([2 * case["qlimit"], 2 * case["qlimit"] + 1, 500])).hex()
    return case


def shrink_queue(case, budget=60):
    def bad(c):
        try:
            return judge_queue(c, run_queue(c)) is not None
        except Exception:  # noqa
            return False
    cur = json.loads(json.dumps(case))
    n, changed = 0, True
    while changed and n < budget:
        changed = False
        for key in ("script", "ops"):
            for i in range(len(cur[key]) - 1, -1, -1):
                if n >= budget or len(cur[key]) <= 1:
                    break
                c = json.loads(json.dumps(cur))
                del c[key][i]
                n += 1
                if bad(c):
                    cur, changed = c, True
    return cur


def suite_queue(ctx, exe):
    rng = ctx.rng
    n = 1000 if ctx.quick else 20000
    lines, runs = [], []
    ran = 0
    for i in range(n):
        case = gen_queue_case(rng, i)
        try:
            r = run_queue(case)
        except Exception as e:  # noqa
            ctx.disagreement("queue", case, None, f"harness exception {e!r}")
            continue
        ran += 1
        ctx.case((json.dumps(case, sort_keys=True), json.dumps(r["got"])), nontrivial=bool(r["got"]))
        ctx.count("queue:cancelled-reads", r["log"].count("X"))
        ctx.count("queue:reads", r["log"].count("R"))
        ctx.count("queue:pause_reading", r["flow"]["pauses"])
        bad = judge_queue(case, r)
        if bad:
            small = shrink_queue(case)
            b2 = judge_queue(small, run_queue(small))
            if not b2:
                small, b2 = case, bad
            ctx.violation(small, b2)
        if exe is not None:
            lines.append("QUEUE " + " ".join(r["log"]))
            runs.append((case, r))
    if lines:
        # read flow control: the pause flag and size counter the sizes-only model predicts for this feed / read sequence
        fl = [(c, r) for c, r in runs if c.get("qlimit")]
        if fl:
            answers = run_model_parallel(exe, ["FLOW " + str(2 * c["qlimit"]) + " " + " ".join(r["flowlog"]) for c, r in fl])
            for (c, r), ans in zip(fl, answers):
                want = f"{int(r['paused_end'])};{r['qsize']};{r['left']}"
                if ans != want:
                    ctx.disagreement("queue", c, {"paused;size;buffered": ans}, {"paused;size;buffered": want, "events": r["flowlog"][:40]})
                else:
                    ctx.traces_validated += 1
        for (case, r), ans in zip(runs, run_model_parallel(exe, lines)):
            f = dict(x.split(":", 1) for x in ans.split(";") if ":" in x)
            g = [] if f.get("G", "-") == "-" else [json.loads(bytes.fromhex(x)) for x in f["G"].split(",")]
            if ans.startswith("OK") and g == r["got"] and f.get("B") == str(r["left"]):
                ctx.traces_validated += 1
            else:
                ctx.disagreement("queue", case, ans[:300], {"got": str(r["got"])[:300], "left": r["left"], "events": r["log"][:40]})
    ctx.sample({"suite": "queue", "case": gen_queue_case(rng, 0)})
    ctx.close_suite("queue", ran)


# ------------------------------------------------------------------------------------------------

def run_corpus(ctx, exe, loop):
    files = sorted(glob.glob(os.path.join(fw.VERIF, "corpus", "C11", "*.json")))
    ran = 0
    for f in files:
        payload = json.load(open(f))
        case = payload.get("case", payload)
        if case.get("kind") == "queue":
            bad = judge_queue(case, run_queue(case))
            if bad:
                ctx.violation(case, "corpus " + os.path.basename(f) + ": " + bad)
        elif case.get("kind") == "concurrent":
            r = run_history(case)
            bad = judge_history(case, r)
            if bad:
                ctx.violation(case, "corpus " + os.path.basename(f) + ": " + bad)
        else:
            c = {k: case[k] for k in ("cfg", "rc", "ops", "cuts", "backend", "bufs") if k in case}
            ml = run_model(exe, [model_line(c)])[0] if (exe is not None and c.get("backend", "toy") == "toy") else None
            check_case(ctx, loop, c, ml, "corpus")
        ran += 1
    ctx.count("suite:corpus", ran)
    if exe is not None:
        ctx.close_suite("corpus:writer", max(ran, 1))
        ctx.close_suite("corpus:reader", max(ran, 1))


def run(ctx):
    ok, exe = build_model()
    ctx.oblige("model-runner-build", "correspondence", ok, "" if ok else exe)
    if not ok:
        exe = None          # search the implementation anyway (property oracle only)
    loop = asyncio.new_event_loop()
    inline_executor(loop)
    import time
    t0 = time.time()

    def lap(name):
        nonlocal t0
        ctx.notes.append(f"suite {name}: {time.time() - t0:.1f}s")
        print(f"[C11] suite {name}: {time.time() - t0:.1f}s", flush=True)
        t0 = time.time()
    try:
        run_corpus(ctx, exe, loop)
        lap("corpus")
        suite_codec(ctx, exe, loop)
        lap("codec")
        suite_zlib(ctx, loop)
        lap("zlib")
    finally:
        loop.close()
    suite_concurrent(ctx, exe)
    lap("concurrent")
    suite_queue(ctx, exe)
    lap("queue")


def replay(ctx, case):
    if case.get("kind") == "queue":
        r = run_queue(case)
        bad = judge_queue(case, r)
        return {"violates": bool(bad), "why": bad, "received": str(r["got"])[:600], "left": r["left"], "events": r["log"]}
    if case.get("kind") == "concurrent":
        r = run_history(case)
        bad = judge_history(case, r)
        return {"violates": bool(bad), "why": bad, "delivered": len(r["msgs"]), "status": r["status"], "done": r["done"]}
    loop = asyncio.new_event_loop()
    inline_executor(loop)
    try:
        c = {k: case[k] for k in ("cfg", "rc", "ops", "cuts", "backend", "bufs") if k in case}
        r = impl_run(loop, c)
        v = judge(c, r)
        out = {"violates": v is not None, "why": v[0] if v else None, "impl": {"tags": r["tags"], "status": r["status"],
               "msgs": str(r["msgs"])[:600], "wire": r["wire"].hex()[:600]}}
        if c.get("backend", "toy") == "toy":
            ok, exe = build_model()
            if ok:
                out["model"] = run_model(exe, [model_line(c)])[0][:1200]
        return out
    finally:
        loop.close()
