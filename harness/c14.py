"""C14 — URL dispatch follows the documented resolution rule.

Model side: extracted Gallina model coq/Model/Dispatch.v (bin/modelrun_C14).
Implementation side: the real aiohttp.web.Application / UrlDispatcher built from the same
operation list, resolved in-process with requests shaped as http_parser shapes them
(URL.build(path=<raw>, encoded=True)).
"""
from __future__ import annotations

import itertools
import json
import os
import re
import tempfile
import warnings

from harness.common import framework as fw

PROP = "C14"
GENERATED = ["DispatchGen.v"]
RULE = ("tables: operation lists (add_route with plain / variable / regex-constrained templates, add_static, "
        "nested add_subapp, add_domain) drawn from a template grammar over the segment alphabet "
        "{a,b,ab,1,12,a-b,'a b'} with mid-segment holes, two holes per segment, empty and repeated segments, "
        "shadowing and overlapping templates, in shuffled (quick) / all (thorough, small tables) registration "
        "orders; queries: paths instantiated from the table's own templates and mutated (trailing slash, doubled "
        "slash, dropped/added segment, percent-encodings incl. %2F %25 %20 %7B, lower-case hex, malformed %), plus "
        "random paths over the alphabet, x every method of {GET,POST,PUT,DELETE,HEAD,XYZ} x hosts.  Non-trivial = "
        "the request resolved to a handler (or, for template cases, the template matched); distinct by hash of "
        "(table, query, result).")
TRUSTED = [
    "translator/gen_dispatch.py (GOOD / DYN classes, _unquote_path_safe table, ast shapes of _get_resource_index_key, "
    "index_resource, unindex_resource, _requote_path, _quote_path, the rpartition walk step, middleware regexes)",
    "extraction: ExtrOcamlBasic only; ocaml/common/conv.ml + ocaml/C14/driver.ml (decimal I/O, JSON index dump)",
    "correspondence harness harness/c14.py: sampled, not proved",
    "oracles, validated by sampling only: yarl URL.build/path_safe/raw_path (the model receives path_safe as computed "
    "by yarl; its own quote_path/requote_path are compared with yarl on every run), os.path.normpath, CPython re "
    "(greedy backtracking on the modelled hole family [^{}/]+ \\d+ \\d* .* .+ [a-z]+)",
    "outside the model: arbitrary user regexes in holes, nested braces in templates, route names, non-ASCII hosts, "
    "absolute-form / asterisk-form request targets, Windows path separators",
]
ASSUMPTIONS = [
    "Request targets are origin-form (start with '/'); the request URL is built as http_parser builds it.",
    "Hole regexes stay inside the modelled family; domains are valid lower-case names without port.",
    "Model/implementation agreement is validated on the generated cases only.",
]

METHODS = ["GET", "POST", "PUT", "DELETE", "HEAD", "XYZ"]
ROUTE_METHODS = ["GET", "POST", "PUT", "*"]
SEGS = ["a", "b", "ab", "1", "12", "a-b"]
QSEG = "a b"                       # needs quoting
HOSTS = [None, "ex.com", "EX.com", "a.ex.com", "b.a.ex.com", "other.org", ""]
DOMAINS = ["ex.com", "*.ex.com", "a.ex.com"]
_UNSAFE = re.compile(r"[^A-Za-z0-9\-._~!$&'()*+,;=:@/]")


def c(s: str) -> str:
    return ",".join(str(ord(x)) for x in s) if s else "-"


def unc(t: str) -> str:
    return "" if t == "-" else "".join(chr(int(x)) for x in t.split(","))


_BUILT = None


def build_model():
    """(ok, exe); built once per process (every build takes the shared Coq lock)."""
    global _BUILT
    if _BUILT is None or not _BUILT[0]:
        _BUILT = _build_model()
    return _BUILT


def _build_model():
    gen = os.path.join(fw.COQ, "Generated", GENERATED[0])
    exe = os.path.join(fw.VERIF, "bin", "modelrun_C14")
    if not os.path.exists(gen) and os.path.exists(exe):
        # the translator refused the current source (its obligation is already broken): keep the last
        # verified model as the oracle so that the search can still look for a concrete failing input
        return True, exe
    return fw.ocaml_model("C14", ["Model/Dispatch.vo"])


# --------------------------------------------------------------------------- generator

def gen_segment(rng, allow_q):
    r = rng.random()
    if r < 0.42:
        return rng.choice(SEGS)
    if r < 0.62:
        return "{" + rng.choice("xyz") + "}"
    if r < 0.70:
        return "{" + rng.choice("xyz") + ":" + rng.choice(["\\d+", "[a-z]+", "\\d*", ".+"]) + "}"
    if r < 0.76:
        return "{t:.*}"
    if r < 0.84:
        return rng.choice(SEGS) + "{" + rng.choice("xyz") + "}"            # hole starts mid-segment
    if r < 0.89:
        return "{" + rng.choice("xy") + "}" + rng.choice(["b", "-", ".1"])  # hole ends mid-segment
    if r < 0.93:
        return "{x}-{y}"
    if r < 0.95:
        return ""                                                           # empty segment
    if allow_q:
        return rng.choice([QSEG, QSEG + "{x}", "a%20b"])
    return rng.choice(SEGS)


def gen_template(rng, allow_q=False):
    r = rng.random()
    if r < 0.04:
        return "/"
    if r < 0.06:
        return ""
    n = rng.choice([1, 1, 2, 2, 2, 3])
    t = "/" + "/".join(gen_segment(rng, allow_q) for _ in range(n))
    if rng.random() < 0.15:
        t += "/"
    if rng.random() < 0.97:                       # mostly distinct group names (duplicates are a ValueError)
        names = iter("xyzuvwpq")
        t = re.sub(r"\{[a-z](?=[:}])", lambda m: "{" + next(names), t)
    return t


def gen_prefix(rng, allow_q=False):
    n = rng.choice([1, 1, 1, 2])
    segs = [rng.choice(SEGS + ([QSEG] if allow_q and rng.random() < 0.5 else [])) for _ in range(n)]
    p = "/" + "/".join(segs)
    if rng.random() < 0.1:
        p += "/"
    return p


class Ids:
    def __init__(self):
        self.n = 0

    def next(self):
        self.n += 1
        return self.n


def gen_ops(rng, ids, depth=0, allow_q=False, allow_dom=True, size=None):
    n = size if size is not None else rng.choice([1, 2, 2, 3, 3, 4, 5])
    ops = []
    pool = [gen_template(rng, allow_q) for _ in range(max(1, n - 1))]
    for _ in range(n):
        r = rng.random()
        if r < 0.66 or depth >= 2:
            t = rng.choice(pool) if rng.random() < 0.6 else gen_template(rng, allow_q)
            m = rng.choice(ROUTE_METHODS)
            used = [o[1] for o in ops if o[0] == "R" and o[2] == t]
            if (m in used or "*" in used or (m == "*" and used)) and rng.random() < 0.9:
                free = [x for x in ROUTE_METHODS[:3] if x not in used and "*" not in used]
                if not free:
                    continue
                m = rng.choice(free)
            ops.append(["R", m, t, ids.next()])
        elif r < 0.80:
            ops.append(["S", rng.choice([gen_prefix(rng, allow_q), "/"]) if rng.random() < 0.9 else "/st/", ids.next()])
        elif r < 0.94 or not allow_dom:
            ops.append(["SUB", gen_prefix(rng, allow_q), gen_ops(rng, ids, depth + 1, allow_q, allow_dom and rng.random() < 0.08, None)])
        else:
            ops.append(["DOM", rng.choice(DOMAINS), gen_ops(rng, ids, depth + 1, allow_q, False, None)])
    return ops


def ops_tokens(ops):
    out = []
    for o in ops:
        if o[0] == "R":
            out += ["R", c(o[1]), c(o[2]), str(o[3])]
        elif o[0] == "S":
            out += ["S", c(o[1]), str(o[2])]
        else:
            out += [o[0], c(o[1]), str(len(o[2]))] + ops_tokens(o[2])
    return out


def templates_of(ops, prefix=""):
    """(full template text, kind) of every leaf, with sub-app prefixes prepended (for query generation)."""
    out = []
    for o in ops:
        if o[0] == "R":
            out.append(prefix + o[2])
        elif o[0] == "S":
            out.append(prefix + o[1].rstrip("/") + "/{f}")
        else:
            out += templates_of(o[2], prefix + (o[1].rstrip("/") if o[0] == "SUB" else ""))
    return out


_HOLE = re.compile(r"\{[^{}]*\}")


def instantiate(rng, tmpl):
    def val(m):
        body = m.group(0)[1:-1]
        if body.endswith("\\d+") or body.endswith("\\d*"):
            return rng.choice(["1", "12", "0", ""]) if body.endswith("*") else rng.choice(["1", "12", "0"])
        if body.endswith("[a-z]+"):
            return rng.choice(["a", "ab", "b"])
        if body.endswith(".*") or body.endswith(".+"):
            return rng.choice(["a", "a/b", "", "1/2/3", "a b"])
        return rng.choice(["a", "b", "ab", "1", "x-y", "a%2Fb", "a%25", "a%20b", "Z", ".", ".."])
    return _HOLE.sub(val, tmpl)


def mutate_path(rng, p):
    r = rng.random()
    if r < 0.35:
        return p
    if r < 0.45:
        return p + "/"
    if r < 0.52 and p.endswith("/") and len(p) > 1:
        return p[:-1]
    if r < 0.60:
        i = rng.randrange(len(p)) if p else 0
        return p[:i] + "/" + p[i:]
    if r < 0.68:
        return p + "/" + rng.choice(SEGS)
    if r < 0.76:
        return p.rsplit("/", 1)[0] or "/"
    if r < 0.86 and p:
        i = rng.randrange(len(p))
        ch = p[i]
        enc = "%%%02X" % ord(ch) if ord(ch) < 128 else ch
        if rng.random() < 0.3:
            enc = enc.lower()
        return p[:i] + enc + p[i + 1:]
    if r < 0.90:
        return p + rng.choice(["%", "%zz", "%2", "%2F", "%25", "%7B", "%00"])
    if r < 0.95:
        segs = p.split("/")
        i = rng.randrange(len(segs))
        segs.insert(i, rng.choice([".", "..", ""]))
        return "/".join(segs)
    return "/" + "/".join(rng.choice(SEGS + ["", "%20", "a%20b", "."]) for _ in range(rng.randint(0, 4)))


def wire_path(p):
    """What can stand on a request line: starts with '/', no space / control / '#' / '?' (quoted as a client would)."""
    if not p.startswith("/"):
        p = "/" + p
    return "".join(ch if (33 <= ord(ch) < 127 and ch not in "#?") else "".join("%%%02X" % b for b in ch.encode("utf-8", "surrogatepass")) for ch in p)


def gen_queries(rng, ops, n):
    tmpls = templates_of(ops) or ["/"]
    qs = []
    for _ in range(n):
        p = wire_path(mutate_path(rng, instantiate(rng, rng.choice(tmpls))))
        qs.append((rng.choice(HOSTS) if has_dom(ops) else rng.choice([None, None, "ex.com"]), p))
    return qs


def has_dom(ops):
    return any(o[0] == "DOM" or (o[0] == "SUB" and has_dom(o[2])) for o in ops)


def dom_in_sub(ops, inside=False):
    for o in ops:
        if o[0] == "DOM" and inside:
            return True
        if o[0] in ("SUB", "DOM") and dom_in_sub(o[2], inside or o[0] == "SUB"):
            return True
    return False


def literal_texts(ops):
    """Fixed text of every template / prefix in the table (hole bodies removed)."""
    out = []
    for o in ops:
        if o[0] == "R":
            out.append(_HOLE.sub("", o[2]))
        elif o[0] == "S":
            out.append(o[1])
        elif o[0] == "SUB":
            out.append(o[1])
            out += literal_texts(o[2])
        else:
            out += literal_texts(o[2])
    return out


def text_requoted(t):
    """fixed text that _requote_path changes, or that contains a percent-escape (decoded in path_safe)"""
    from aiohttp.web_urldispatcher import _requote_path
    try:
        return "%" in t or _requote_path(t) != t
    except ValueError:
        return True


def template_requoted(template):
    return any(text_requoted(part) for part in _HOLE.sub("\0", template).split("\0"))


def needs_quote(ops):
    out = False
    for o in ops:
        if o[0] == "R":
            out = out or template_requoted(o[2])
        elif o[0] == "S":
            out = out or text_requoted(o[1])
        elif o[0] == "SUB":
            out = out or text_requoted(o[1]) or needs_quote(o[2])
        else:
            out = out or needs_quote(o[2])
    return out


# --------------------------------------------------------------------------- implementation side

_EXC = [(KeyError, "EKey"), (AssertionError, "EAssert"), (RuntimeError, "ERuntime"), (ValueError, "EValue")]


def exc_kind(e):
    for cls, k in _EXC:
        if isinstance(e, cls):
            return k
    return "EOther:" + type(e).__name__


class Impl:
    """A real Application built from an op list."""

    def __init__(self, ops, tmpdir):
        from aiohttp import web
        self.web = web
        self.tmpdir = tmpdir
        self.static_ids = {}
        self.err = None
        self.app = None
        with warnings.catch_warnings():
            warnings.simplefilter("ignore")
            try:
                self.app = self._build(ops)
                self.app.freeze()
            except Exception as e:  # noqa
                self.err = exc_kind(e)
                self.app = None

    def _handler(self, hid):
        async def h(request):
            return self.web.Response()
        h._hid = hid
        return h

    def _build(self, ops):
        app = self.web.Application()
        for o in ops:
            if o[0] == "R":
                app.router.add_route(o[1], o[2], self._handler(o[3]))
            elif o[0] == "S":
                res = app.router.add_static(o[1], self.tmpdir)
                self.static_ids[id(res)] = o[2]
            elif o[0] == "SUB":
                app.add_subapp(o[1], self._build(o[2]))
            else:
                app.add_domain(o[1], self._build(o[2]))
        return app

    _base = {}

    def request(self, method, raw, host, query=""):
        import copy
        from aiohttp.test_utils import make_mocked_request
        from yarl import URL
        base = Impl._base.get(host)
        if base is None:
            base = Impl._base[host] = make_mocked_request("GET", "/", headers=({"Host": host} if host is not None else {}))
        req = copy.copy(base)
        url = URL.build(path=raw, query_string=query, encoded=True)       # http_parser, origin-form
        req._message = base._message._replace(method=method, path=raw + ("?" + query if query else ""), url=url)
        req._rel_url = url
        req._method = method
        req._cache = {}
        return req

    def resolve_req(self, req):
        co = self.app.router.resolve(req)
        try:
            co.send(None)
        except StopIteration as e:
            return e.value
        raise RuntimeError("router.resolve suspended")

    def resolve(self, method, raw, host):
        """-> (canonical result tuple, path_safe, came_from_subapp)"""
        req = self.request(method, raw, host)
        mi = self.resolve_req(req)
        return self.canon(mi), req.rel_url.path_safe, len(mi.apps) > 0

    def canon(self, mi):
        e = mi.http_exception
        if e is None:
            h = mi.route.handler
            hid = getattr(h, "_hid", None)
            if hid is None:
                hid = self.static_ids.get(id(mi.route.resource), -1)
            return ("OK", hid, tuple(sorted(mi.items())))
        if e.status == 405:
            return ("405", tuple(sorted(e.allowed_methods)))
        if e.status == 404:
            return ("404",)
        return ("EXC", e.status)

    def dump(self, router=None):
        from aiohttp.web_urldispatcher import PrefixedSubAppResource
        router = self.app.router if router is None else router
        res = list(router._resources)
        pos = {id(r): i for i, r in enumerate(res)}
        ix = {c(k): [pos.get(id(r), -1) for r in l] for k, l in router._resource_index.items() if l}
        sub = {str(i): self.dump(r._app.router) for i, r in enumerate(res) if isinstance(r, PrefixedSubAppResource)}
        return {"ix": ix, "sub": sub, "canon": [c(r.canonical) for r in res]}


def parse_res(tok: str):
    """model 'OK 3 k=v&k=v' / '404' / '405 a|b' -> canonical tuple"""
    parts = tok.split(" ")
    if parts[0] == "OK":
        d = [] if parts[2] == "-" else [tuple(unc(x) for x in kv.split("=")) for kv in parts[2].split("&")]
        return ("OK", int(parts[1]), tuple(sorted(d)))
    if parts[0] == "405":
        return ("405", tuple(sorted(set(unc(x) for x in parts[1].split("|")))))
    if parts[0] == "404":
        return ("404",)
    return (tok,)


def parse_q(ans: str):
    m = re.fullmatch(r"IX=(.*) RULE=(.*)", ans)
    return parse_res(m.group(1)), parse_res(m.group(2))


# --------------------------------------------------------------------------- oracles (implementation output only)

def prefix_on_path(ops, path_safe, prefix=""):
    """Is there an add_subapp prefix that lies on the path at a segment boundary?"""
    for o in ops:
        if o[0] == "SUB":
            p = prefix + o[1].rstrip("/")
            if path_safe == p or path_safe.startswith(p + "/"):
                return True
            if prefix_on_path(o[2], path_safe, p):
                return True
        elif o[0] == "DOM" and prefix_on_path(o[2], path_safe, prefix):
            return True
    return False


def table_methods(ops):
    out = set()
    for o in ops:
        if o[0] == "R":
            out.add(o[1])
        elif o[0] == "S":
            out |= {"GET", "HEAD"}
        else:
            out |= table_methods(o[2])
    return out


def sweep_oracle(ctx, impl, ops, host, raw, results):
    """results: {method: canonical impl result}.  404 only if no resource matches the path (a path match is
    method independent: one 404 => all 404); 405 carries exactly the methods that would be served."""
    case = {"suite": "resolve", "kind": None, "ops": ops, "host": host, "path": raw}
    statuses = {m: r[0] for m, r in results.items()}
    if "404" in statuses.values() and any(s != "404" for s in statuses.values()):
        m404 = sorted(m for m, s in statuses.items() if s == "404")
        ctx.violation(dict(case, kind="404_although_path_matches", methods=m404),
                      f"404 for {m404} although the same path is matched for another method: {results}")
    served = {m for m, s in statuses.items() if s == "OK"}
    for m, r in results.items():
        if r[0] != "405":
            continue
        allowed = set(r[1])
        if "*" in allowed:
            ctx.violation(dict(case, kind="allow_has_wildcard", method=m), f"405 although a wildcard route matches the path: {r}")
            break
        universe = set(results)
        if allowed & universe != served or not allowed <= (universe | table_methods(ops)):
            ctx.violation(dict(case, kind="allow_incomplete", method=m, allowed=sorted(allowed), served=sorted(served)),
                          f"405 for {m} {raw!r} lists {sorted(allowed)} but the methods actually served are {sorted(served)}")
            break


def _ambiguous(template):
    """some hole is followed, inside its segment, by more text (literal or another hole)"""
    return re.search(r"\}[^/]", _HOLE.sub(lambda m: "{" + "h" + "}", template)) is not None


def sig_ambiguous_holes(case, params):
    """The produced URL is genuinely ambiguous: it resolves to other values that produce the very same URL
    (a hole is followed inside its segment by more text)."""
    if not (case.get("kind") == "url_for_inverse" and "template" in case and _ambiguous(case["template"])):
        return False
    from aiohttp.web_urldispatcher import DynamicResource
    from yarl import URL
    try:
        res = DynamicResource(case["template"])
        u = res.url_for(**case["values"])
        seen = lambda url: URL.build(path=URL(str(url)).raw_path, encoded=True).path_safe   # the path the router matches on
        got = res._match(seen(u))
        # "the very same URL": the same path as the server sees it (url_for quotes every value on its own, so the two
        # spellings may differ in an optional escape such as %3A / ':' while denoting one path)
        return got is not None and got != case["values"] and seen(res.url_for(**got)) == seen(u)
    except Exception:  # noqa
        return False


SIGNATURES = {
    "ambiguous_holes": sig_ambiguous_holes,
}


# --------------------------------------------------------------------------- suite: tables

def prepare_table(tmpdir, ops, queries):
    """Implementation side of one table: -> (impl, model request line, per-query results)."""
    impl = Impl(ops, tmpdir)
    line = ["TABLE"] + ops_tokens(ops)
    reqs = []
    if impl.err is None:
        for host, raw in queries:
            per = {}
            for m in METHODS:
                r, ps, _sub = impl.resolve(m, raw, host)
                per[m] = r
                line += [";", "Q", "~" if host is None else c(host), c(ps), c(m)]
            reqs.append((host, raw, per))
        line += [";", "IDX"]
    return impl, " ".join(line), reqs


def compare_table(ctx, ops, impl, reqs, answer):
    ans = answer.split(" ; ")
    if impl.err is not None:
        mk = ans[0].replace("BUILD ", "")
        ctx.case(("build", json.dumps(ops), impl.err), nontrivial=False)
        ctx.count("build:" + impl.err)
        if mk != impl.err:
            ctx.disagreement("table_build", {"ops": ops}, mk, impl.err)
        if impl.err in ("EKey",) or impl.err.startswith("EOther"):
            ctx.violation({"suite": "resolve", "kind": "build_error", "ops": ops, "error": impl.err},
                          f"building a grammar-valid route table raises {impl.err}")
        return
    if ans[0] != "BUILD ok":
        ctx.disagreement("table_build", {"ops": ops}, ans[0], "ok")
        return
    ctx.count("build:ok")
    k = 1
    for host, raw, per in reqs:
        for m in METHODS:
            ix, rule = parse_q(ans[k])
            k += 1
            r = per[m]
            ctx.case((json.dumps(ops), host, raw, m, r), nontrivial=r[0] == "OK")
            ctx.count("result:" + r[0])
            if ix != r:
                ctx.disagreement("resolve", {"ops": ops, "host": host, "path": raw, "method": m}, list(ix), list(r))
            if rule != r:
                ctx.violation({"suite": "resolve", "kind": "rule", "ops": ops, "host": host, "path": raw, "method": m},
                              f"{m} {raw!r} (Host {host!r}): implementation gives {r}, the documented rule (longest fixed "
                              f"prefix, then registration order, method must match) gives {rule}")
        sweep_oracle(ctx, impl, ops, host, raw, per)
    mdump = json.loads(ans[k])
    idump = impl.dump()
    if mdump != idump:
        ctx.disagreement("index_state", {"ops": ops}, mdump, idump)


def run_tables(ctx, exe, tmpdir, items):
    """items: [(ops, queries)] -> all checks, model called once."""
    prepared = [prepare_table(tmpdir, ops, qs) for ops, qs in items]
    answers = fw.run_model(exe, [p[1] for p in prepared]) if prepared else []
    for (ops, _qs), (impl, _line, reqs), ans in zip(items, prepared, answers):
        compare_table(ctx, ops, impl, reqs, ans)


def run_table(ctx, exe, tmpdir, ops, queries):
    run_tables(ctx, exe, tmpdir, [(ops, queries)])


def suite_tables(ctx, exe, tmpdir):
    rng = ctx.rng
    ran = 0
    ntab = 900 if ctx.quick else 12000
    tables = []
    for i in range(ntab):
        ids = Ids()
        ops = gen_ops(rng, ids, allow_q=(rng.random() < 0.15))
        tables.append(ops)
        # registration orders: shuffles of the same operations
        if len(ops) > 1:
            if not ctx.quick and len(ops) <= 3:
                for perm in itertools.permutations(ops):
                    if list(perm) != ops:
                        tables.append(list(perm))
            else:
                o2 = list(ops)
                rng.shuffle(o2)
                tables.append(o2)
    # interleaved registrations: the same template again after an overlapping one (registration order among equals)
    for _ in range(80 if ctx.quick else 1500):
        t1 = gen_template(rng)
        if "{" not in t1:
            continue
        t2 = re.sub(r"\{([a-z])(?=[:}])", lambda m: "{" + m.group(1) + "2", t1) if rng.random() < 0.6 else \
            _HOLE.sub(lambda m: rng.choice(["{q}", "{q:.+}", m.group(0)]), t1, count=1)
        if len(set(n for n, _ in hole_specs(t2))) != len(hole_specs(t2)):
            continue
        m1, m2 = rng.sample(ROUTE_METHODS[:3], 2)
        ops = [["R", m1, t1, 1], ["R", rng.choice([m2, "*"]), t2, 2], ["R", m2, t1, 3]]
        if rng.random() < 0.3:
            ops.insert(rng.randrange(3), ["R", rng.choice(ROUTE_METHODS[:3]), gen_template(rng), 4])
        tables.append(ops)
    items = [(ops, gen_queries(rng, ops, 6 if ctx.quick else 10)) for ops in tables]
    for i in range(0, len(items), 200):
        run_tables(ctx, exe, tmpdir, items[i:i + 200])
    for ops in tables:
        ran += 1
        ctx.count("ops:%d" % min(len(ops), 5))
        ctx.count("table:" + ("subapp" if any(o[0] == "SUB" for o in ops) else "flat"))
    ctx.sample({"suite": "resolve", "ops": tables[-1], "queries": gen_queries(rng, tables[-1], 2)})
    ctx.close_suite("table_build", ran)
    ctx.close_suite("resolve", ran)
    ctx.close_suite("index_state", ran)


# --------------------------------------------------------------------------- suite: templates and url_for

def hole_specs(template):
    out = []
    for m in _HOLE.finditer(template):
        body = m.group(0)[1:-1]
        name, _, rx = body.partition(":")
        out.append((name, rx))
    return out


def gen_value(rng, rx):
    if rx in ("\\d+", "\\d*"):
        return rng.choice(["1", "12", "007"] + ([""] if rx.endswith("*") else []))
    if rx == "[a-z]+":
        return rng.choice(["a", "ab", "zz"])
    # free of '/', '{', '}' (the property's quantifier); non-empty for '+' classes
    return rng.choice(["a", "b", "ab", "1", "x-y", "y-z", "a b", "a%b", "%2F", "%25", "a.b", "..", "b-", "-", "Z+:@", "a;b"] + ([""] if rx == ".*" else []))


def check_url_for_inverse(ctx, tmpdir, template, vals):
    """url_for(**vals) must resolve back to the same resource with match_info == vals (single-resource table)."""
    impl = Impl([["R", "GET", template, 1]], tmpdir)
    if impl.err:
        return None
    res = list(impl.app.router.resources())[0]
    try:
        url = res.url_for(**vals)
    except Exception as e:  # noqa
        return None
    from yarl import URL
    raw = URL(str(url)).raw_path          # what a client puts on the request line
    r, ps, _ = impl.resolve("GET", raw, None)
    ok = r == ("OK", 1, tuple(sorted(vals.items())))
    if not ok:
        ctx.violation({"suite": "template", "kind": "url_for_inverse", "template": template, "values": vals},
                      f"url_for({vals}) of {template!r} is {str(url)!r}, which resolves to {r}")
    return ok


def suite_templates(ctx, exe, tmpdir):
    from aiohttp.web_urldispatcher import DynamicResource, UrlDispatcher
    from yarl import URL
    rng = ctx.rng
    fixed = ["/{x", "/x}", "/{1x}", "/{}", "/{x y}", "/{x:}", "/{x}/{x}", "/a/{x}", "/{a}-{b}", "/a b/{x}", "/a%20b/{x}",
             "/{x:\\d+}/{y:.*}", "/a{x}b/{y}", "/{t:.*}", "/{t:.+}/b", "/é/{x}", "/{x}{y}", "/{_x1}", "/{x:[a-z]+}1"]
    tmpls = fixed + [t for t in (gen_template(rng, allow_q=(rng.random() < 0.1)) for _ in range(400 if ctx.quick else 6000)) if "{" in t]
    lines, meta = [], []
    router = UrlDispatcher()
    for t in tmpls:
        try:
            with warnings.catch_warnings():
                warnings.simplefilter("ignore")
                res = DynamicResource(t)
            err = None
        except ValueError:
            res, err = None, "ERR"
        except Exception as e:  # noqa
            res, err = None, "EXC:" + type(e).__name__
        paths, fmts = [], []
        if res is not None:
            for _ in range(8):
                raw = wire_path(mutate_path(rng, instantiate(rng, t)))
                paths.append((raw, URL.build(path=raw, encoded=True).path_safe))
            for _ in range(4):
                fmts.append({n: gen_value(rng, rx) for n, rx in hole_specs(t)})
        line = ["TMPL", c(t)]
        for _raw, ps in paths:
            line += [";", "M", c(ps)]
        for v in fmts:
            line += [";", "F"] + [c(x) for kv in v.items() for x in kv]
        lines.append(" ".join(line))
        meta.append((t, res, err, paths, fmts))
    answers = fw.run_model(exe, lines)
    ran = 0
    for (t, res, err, paths, fmts), ans in zip(meta, answers):
        parts = ans.split(" ; ")
        ran += 1
        if res is None:
            ctx.case(("tmpl", t, err), nontrivial=False)
            ctx.count("template:rejected")
            if parts[0] != "ERR" or err != "ERR":
                ctx.disagreement("template", {"template": t}, parts[0], err)
            continue
        ctx.count("template:accepted")
        key = router._get_resource_index_key(res)
        exp0 = f"OK {c(res.canonical)} {c(key)}"
        if parts[0] != exp0:
            ctx.disagreement("template", {"template": t}, parts[0], exp0)
            continue
        k = 1
        for raw, ps in paths:
            im = res._match(ps)
            iobs = "NONE" if im is None else tuple(sorted(im.items()))
            mobs = "NONE" if parts[k] == "NONE" else (() if parts[k] == "-" else tuple(sorted(tuple(unc(x) for x in kv.split("=")) for kv in parts[k].split("&"))))
            k += 1
            if im is not None and all(rx == "" for _n, rx in hole_specs(t)) and ps.count("/") != res.canonical.count("/"):
                ctx.violation({"suite": "template", "kind": "hole_crosses_segment", "template": t, "path": raw},
                              f"{t!r} matches {raw!r} (path_safe {ps!r}) with {dict(im)}: a plain {{name}} must stay inside one segment")
            ctx.case(("match", t, raw, iobs), nontrivial=im is not None)
            ctx.count("match:" + ("yes" if im is not None else "no"))
            if mobs != iobs:
                ctx.disagreement("template", {"template": t, "path": raw, "path_safe": ps}, mobs, iobs)
        for v in fmts:
            try:
                iu = res.url_for(**v).raw_path
            except Exception as e:  # noqa
                iu = "NONE"
            mu = "NONE" if parts[k] == "NONE" else unc(parts[k])
            k += 1
            ctx.case(("fmt", t, tuple(sorted(v.items())), iu), nontrivial=True)
            if mu != iu:
                ctx.disagreement("template", {"template": t, "values": v}, mu, iu)
            okv = check_url_for_inverse(ctx, tmpdir, t, v)
            ctx.count("url_for_inverse:" + str(okv))
    ctx.sample({"suite": "template", "template": tmpls[-1], "answer": answers[-1][:200]})
    ctx.close_suite("template", ran)


# --------------------------------------------------------------------------- suite: chains (sub-app prefixes wrap one leaf)

def check_chain(ctx, tmpdir, prefixes, leaf, vals, static):
    """Nested sub-app prefixes around one leaf: the URL produced for the leaf must resolve to it through the
    top-level application."""
    ops = [["S", leaf, 1]] if static else [["R", "GET", leaf, 1]]
    for p in reversed(prefixes):
        ops = [["SUB", p, ops]]
    impl = Impl(ops, tmpdir)
    if impl.err:
        return None
    router = impl.app.router
    for _ in prefixes:
        router = list(router.resources())[0]._app.router
    res = list(router.resources())[0]
    from yarl import URL
    try:
        url = res.url_for(filename="f.txt") if static else res.url_for(**vals)
    except Exception:  # noqa
        return None
    raw = URL(str(url)).raw_path
    r, ps, _ = impl.resolve("GET", raw, None)
    exp = ("OK", 1, (("filename", "f.txt"),) if static else tuple(sorted(vals.items())))
    if r != exp:
        ctx.violation({"suite": "chain", "kind": "chain_inverse", "ops": ops, "prefixes": prefixes, "leaf": leaf, "values": vals, "static": static},
                      f"url_for of the leaf {leaf!r} under sub-app prefixes {prefixes} is {str(url)!r}, which resolves to {r}")
    return r == exp


def suite_chains(ctx, exe, tmpdir):
    rng = ctx.rng
    ran = 0
    for _ in range(300 if ctx.quick else 4000):
        allow_q = rng.random() < 0.12
        prefixes = [gen_prefix(rng, allow_q).rstrip("/") for _ in range(rng.choice([0, 1, 1, 2]))]
        static = rng.random() < 0.3
        if static:
            leaf, vals = gen_prefix(rng, allow_q).rstrip("/"), {}
        else:
            segs = [rng.choice(SEGS + ["{x}", "{y:\\d+}", "a{z}"]) for _ in range(rng.choice([1, 2, 3]))]
            leaf = "/" + "/".join(segs)
            if len(set(n for n, _ in hole_specs(leaf))) != len(hole_specs(leaf)):
                continue
            vals = {n: gen_value(rng, rx) for n, rx in hole_specs(leaf)}
        ok = check_chain(ctx, tmpdir, prefixes, leaf, vals, static)
        ran += 1
        ctx.case(("chain", tuple(prefixes), leaf, tuple(sorted(vals.items())), ok), nontrivial=bool(ok))
        ctx.count("chain:" + str(ok))
    ctx.oblige("oracle:chain_inverse_ran", "correspondence", ran > 0, "")


# --------------------------------------------------------------------------- suite: quoting laws / normpath (oracles vs model)

def suite_laws(ctx, exe):
    import posixpath
    from aiohttp.web_urldispatcher import _quote_path, _requote_path, _unquote_path_safe, _path_safe
    rng = ctx.rng
    strs = [chr(i) for i in range(0, 128)] + ["é", "\u20ac", "\U0001F600", "a%2Fb%25%2f%252F", "%", "%%", "%2", "a b%20"]
    strs += ["%%%02X" % b for b in range(256)] + ["%c3%a9", "%C3%41", "%E2%82%AC", "%E2%82", "%E2%82/%AC", "%ED%A0%80", "%C0%AF", "%F0%9F%98%80",
             "%F4%90%80%80", "%2b+%2B", "/a%20b/%7Bx%7D", "%E2%82%C3%A9", "%80%C3%A9", "%e2%82%ac%", "%C3%A9%4", "%2541", "%252F%25"]
    alpha = "ab1/%2F5 {}é-._~:@+?#CE38A9"
    for _ in range(400 if ctx.quick else 8000):
        strs.append("".join(rng.choice(alpha) for _ in range(rng.randint(0, 8))))
    ans = fw.run_model(exe, ["QUOTE " + c(s) for s in strs])
    ran = 0
    for s, a in zip(strs, ans):
        q, r, u, d = a.split(" ")
        try:
            iq, ir = _quote_path(s), _requote_path(s)
        except ValueError:
            iq = ir = None
        iu = _unquote_path_safe(s)
        idec = _path_safe(s)
        ran += 1
        ctx.case(("quote", s), nontrivial=True)
        mo = (None if q == "ERR" else unc(q), None if r == "ERR" else unc(r), unc(u), unc(d))
        if mo != (iq, ir, iu, idec):
            ctx.disagreement("quoting_laws", {"s": s}, list(mo), [iq, ir, iu, idec])
        # hypothesis of the index = rule theorems: path_safe output is a fixed point (false only after a malformed escape)
        ctx.count("path_safe:fixed_point" if _path_safe(idec) == idec else "path_safe:not_fixed_point")
    paths = ["", "/", "//", "///a", "//a/../..", "/a/./b//c/", "a/../..", "/..", "/a/b/../../.."]
    for _ in range(300 if ctx.quick else 5000):
        paths.append("".join(rng.choice(["/", "/", "a", "b", ".", "..", "ab"]) for _ in range(rng.randint(0, 9))))
    ans = fw.run_model(exe, ["NORM " + c(s) for s in paths])
    for s, a in zip(paths, ans):
        ran += 1
        ctx.case(("norm", s), nontrivial=True)
        if unc(a) != posixpath.normpath(s):
            ctx.disagreement("quoting_laws", {"normpath": s}, unc(a), posixpath.normpath(s))
    ctx.count("laws", ran)
    ctx.close_suite("quoting_laws", ran)


# --------------------------------------------------------------------------- suite: normalize_path_middleware

def offsite(location: str) -> bool:
    from urllib.parse import urlsplit
    if not location.startswith("/"):
        return True
    if location.startswith("//") or location.startswith("/\\"):
        return True
    sp = urlsplit(location)
    return bool(sp.scheme or sp.netloc)


def run_middleware(impl, flags, raw, query):
    """-> (location | None, request.path.endswith('/'))"""
    from aiohttp import web
    from aiohttp.web_middlewares import normalize_path_middleware
    a, r, m = flags
    mw = normalize_path_middleware(append_slash=a, remove_slash=r, merge_slashes=m)
    req = impl.request("GET", raw, None, query)
    mi = impl.resolve_req(req)
    mi.add_app(impl.app)
    req._match_info = mi

    async def handler(request):
        return web.Response()
    co = mw(req, handler)
    try:
        co.send(None)
    except StopIteration:
        return None, req.path.endswith("/")
    except web.HTTPMove as e:
        return str(e.location), req.path.endswith("/")
    except Exception as e:  # noqa  (anything else would be a 500 for the client)
        return "EXC:" + type(e).__name__, req.path.endswith("/")
    raise RuntimeError("middleware suspended")


def middleware_cases(ctx, exe, tmpdir, ops, cases):
    """cases: [(flags, raw, query)] on one table."""
    impl = Impl(ops, tmpdir)
    if impl.err:
        return
    obs = [run_middleware(impl, flags, raw, query) for flags, raw, query in cases]
    answers = fw.run_model(exe, ["MW %d %d %d %s %d" % (f[0], f[1], f[2], c(raw), dec) for (f, raw, _q), (_loc, dec) in zip(cases, obs)])
    for (flags, raw, query), (loc, dec), cands in zip(cases, obs, answers):
        cands = [unc(x) for x in cands.split("|")] if cands else []
        # expected: only when the original request did not resolve; first candidate that resolves
        orig = impl.resolve("GET", raw, None)[0]
        exp = None
        if orig[0] in ("404", "405"):
            for cand in cands:
                req = impl.request("GET", "/", None).clone(rel_url=cand)
                if impl.canon(impl.resolve_req(req))[0] == "OK":
                    exp = req.raw_path + ("?" + query if query else "")
                    break
        ctx.case(("mw", json.dumps(ops), flags, raw, query, loc), nontrivial=loc is not None)
        ctx.count("middleware:" + ("redirect" if loc else "pass"))
        if loc != exp:
            ctx.disagreement("middleware", {"ops": ops, "flags": flags, "path": raw, "query": query}, exp, loc)
        if loc is not None and loc.startswith("EXC:"):
            ctx.violation({"suite": "middleware", "kind": "middleware_exception", "ops": ops, "flags": list(flags), "path": raw, "query": query},
                          f"normalize_path_middleware raises {loc[4:]} while normalising {raw!r} (the client gets a 500 instead of a redirect or the 404)")
        elif loc is not None and offsite(loc):
            ctx.violation({"suite": "middleware", "kind": "offsite_redirect", "ops": ops, "flags": list(flags), "path": raw, "query": query},
                          f"normalize_path_middleware redirects {raw!r} to {loc!r}, which a browser resolves off-site")


def middleware_case(ctx, exe, tmpdir, ops, flags, raw, query):
    middleware_cases(ctx, exe, tmpdir, ops, [(flags, raw, query)])


def suite_middleware(ctx, exe, tmpdir):
    rng = ctx.rng
    ran = 0
    flagsets = [(True, False, True), (False, True, True), (True, False, False), (False, False, True), (False, True, False)]
    for _ in range(100 if ctx.quick else 600):
        ids = Ids()
        ops = [["R", "GET", t, ids.next()] for t in
               rng.sample(["/a", "/a/", "/a/b", "/a/b/", "/{x}", "/{x}/", "/{x}/b/", "/", "/b/{t:.*}", "/evil.com", "/evil.com/"], rng.randint(1, 4))]
        cases = []
        for _ in range(8):
            base = rng.choice(["/a", "/a/", "/a/b", "/a/b/", "/x", "/x/", "/x/b", "/evil.com", "/evil.com/", "/"])
            r = rng.random()
            if r < 0.3:
                raw = "/" + base
            elif r < 0.45:
                raw = "//" + base
            elif r < 0.6:
                raw = base.replace("/", "//", 1) + rng.choice(["", "/", "//"])
            elif r < 0.7:
                raw = "/%2F" + base.lstrip("/")
            elif r < 0.8:
                raw = "/\\" + base.lstrip("/")
            else:
                raw = base + rng.choice(["", "/", "//"])
            query = rng.choice(["", "", "q=1", "u=//evil.com"])
            cases.append((rng.choice(flagsets), raw, query))
            ran += 1
        middleware_cases(ctx, exe, tmpdir, ops, cases)
    ctx.close_suite("middleware", ran)


# --------------------------------------------------------------------------- corpus, run, replay

def corpus_cases():
    d = os.path.join(fw.VERIF, "corpus", PROP)
    out = []
    for fn in sorted(os.listdir(d)) if os.path.isdir(d) else []:
        if fn.endswith(".json"):
            payload = json.load(open(os.path.join(d, fn)))
            out.append((fn, payload.get("case", payload)))
    return out


def run_case(ctx, exe, tmpdir, case):
    """Re-run one recorded case through the same checks. Returns number of problems."""
    before = len(ctx.violations) + sum(ctx.known_hits.values()) + ctx.disagreements
    suite = case.get("suite")
    if suite == "resolve":
        qs = [(case.get("host"), case["path"])] if "path" in case else gen_queries(ctx.rng, case["ops"], 4)
        run_table(ctx, exe, tmpdir, case["ops"], qs)
    elif suite == "template" and case.get("kind") == "hole_crosses_segment":
        from aiohttp.web_urldispatcher import DynamicResource
        from yarl import URL
        res = DynamicResource(case["template"])
        ps = URL.build(path=case["path"], encoded=True).path_safe
        im = res._match(ps)
        if im is not None and ps.count("/") != res.canonical.count("/"):
            ctx.violation(case, f"{case['template']!r} matches {case['path']!r} with {dict(im)}: a plain {{name}} must stay inside one segment")
    elif suite == "template":
        check_url_for_inverse(ctx, tmpdir, case["template"], case["values"])
    elif suite == "chain":
        check_chain(ctx, tmpdir, case["prefixes"], case["leaf"], case["values"], case["static"])
    elif suite == "middleware":
        middleware_case(ctx, exe, tmpdir, case["ops"], tuple(case["flags"]), case["path"], case.get("query", ""))
    return len(ctx.violations) + sum(ctx.known_hits.values()) + ctx.disagreements - before


def run(ctx):
    ok, exe = build_model()
    ctx.oblige("model-runner-build", "correspondence", ok, "" if ok else exe)
    if not ok:
        return
    with tempfile.TemporaryDirectory(prefix="c14-") as tmpdir:
        n = 0
        for fn, case in corpus_cases():
            run_case(ctx, exe, tmpdir, case)
            n += 1
        ctx.count("corpus", n)
        import time
        for f, args in ((suite_laws, (ctx, exe)), (suite_templates, (ctx, exe, tmpdir)), (suite_tables, (ctx, exe, tmpdir)),
                        (suite_chains, (ctx, exe, tmpdir)), (suite_middleware, (ctx, exe, tmpdir))):
            t0 = time.time()
            f(*args)
            ctx.notes.append(f"{f.__name__}: {time.time() - t0:.1f}s")


def replay(ctx, case):
    ok, exe = build_model()
    with tempfile.TemporaryDirectory(prefix="c14-") as tmpdir:
        v0, k0, d0 = len(ctx.violations), sum(ctx.known_hits.values()), ctx.disagreements
        run_case(ctx, exe, tmpdir, case)
        viol = ctx.violations[v0:]
        obs = {}
        if case.get("suite") == "resolve" and "path" in case:
            impl, line, reqs = prepare_table(tmpdir, case["ops"], [(case.get("host"), case["path"])])
            ans = fw.run_model(exe, [line])[0].split(" ; ")
            if impl.err is None and ans[0] == "BUILD ok":
                for i, m in enumerate(METHODS):
                    ix, rule = parse_q(ans[1 + i])
                    obs[m] = {"impl": list(reqs[0][2][m]), "model_index_walk": list(ix), "documented_rule": list(rule)}
            else:
                obs = {"build": {"impl": impl.err or "ok", "model": ans[0]}}
        return {"observables": obs, "violates": bool(viol) or sum(ctx.known_hits.values()) > k0,
                "new_violations": [v["what"] for v in viol],
                "known_matched": dict(ctx.known_hits),
                "model_disagreements": ctx.disagreements - d0,
                "disagreement_detail": fw.Ctx._disagreements}
