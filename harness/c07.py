"""C07 — connection pool: limits hold, nothing leaks, no waiter is forgotten.

Trace validation of aiohttp.connector.BaseConnector against the extracted LTS model
(coq/Model/Pool.v) plus a model-independent property oracle.

A *history* is a list of external stimuli applied to a real connector living on a virtual-time
asyncio loop (never permuting asyncio's ready queue):
  ["start", t, k]      create the task of request t (connect() to host k); it runs when the loop runs
  ["ok", t] / ["fail", t]   outcome of t's pending connection attempt
  ["cancel", t]        task.cancel()
  ["timeout", t]       advance the clock to t's connect deadline (asyncio.timeout cancels the task)
  ["release", t, c]    Connection.release() (c=0) or Connection.close() (c=1) of the connection t holds
  ["close"]            create a task running connector.close()
  ["run"]              run the loop until nothing is ready (quiescence)
  ["start", t, k, [signals]]  the request carries a TraceConfig; it blocks inside the listed trace callbacks
                       (reuseconn, queued_start, queued_end, create_start, create_end) until ["open", t]
Several stimuli between two "run"s land in the same loop iteration, which is how await-granularity
interleavings (release before a woken waiter resumes, cancel after wake, lost races) are reached.
Harness-side instrumentation only (Future/Task subclasses, patched shuffle); /repo is not edited.
"""
from __future__ import annotations

import asyncio
import json
import os
import sys
import glob
from types import SimpleNamespace
from unittest import mock

from harness.common import framework as fw

PROP = "C07"
GENERATED = ["PoolGen.v"]
RULE = ("histories of stimuli (start/ok/fail/cancel/timeout/release/close/run) over N<=5 requests, H<=3 hosts, "
        "limit and limit_per_host in {0,1,2,3}, force_close on/off, drawn from one PRNG seeded by VERIF_SEED (plus the "
        "corpus and, in the thorough tier, all histories of a small alphabet up to a length bound); every history is "
        "replayed on the real connector, its event log is validated step by step against the extracted model and "
        "the property oracle is evaluated on the implementation after every event; suite pool_traced_oracle adds requests whose "
        "TraceConfig callbacks (reuseconn, queued_start/end, create_start/end) block on harness gates so that stimuli land at the "
        "await points inside _get, the wait loop and around _create_connection (implementation + oracle only); suite "
        "session_lifecycle runs scenarios of 1-4 requests through a real ClientSession against a scripted in-memory origin / HTTP "
        "proxy (redirect chains around max_redirects with complete, partial, chunked-partial bodies; uploads the peer does not "
        "read with early 204/307/200; CONNECT answered 200/407/403/502/reset/garbage/hang; reset, garbage and hanging peers; "
        "cancellation after 0-14 loop iterations; consume = read/release/close/async-with/status only) and checks after every "
        "request that no slot and no transport is left behind.  Non-trivial = at least one "
        "request had to wait for a slot; distinct by hash of the logged event sequence and final snapshot.")
TRUSTED = [
    "translator/gen_pool.py (_available_connections statement translator; capacity comparisons at the three call sites)",
    "extraction: ExtrOcamlBasic only; ocaml/common/conv.ml + ocaml/C07/driver.ml (event parsing, snapshot printing)",
    "correspondence harness harness/c07.py (Future/Task subclasses that log resumptions and cancels, patched "
    "aiohttp.connector.random.shuffle, in-memory transports): sampled, not proved",
    "modelled, not verified: asyncio task/future scheduling (FIFO ready queue, cancel semantics), asyncio.timeout; "
    "connection creation (DNS, TLS, proxies) is replaced by a scripted outcome; the await points opened by tracing hooks are "
    "outside the MODEL (traces=[] there) but covered by the oracle-only suite pool_traced_oracle; keep-alive expiry and "
    "peer-closed idle connections are outside both",
]
ASSUMPTIONS = [
    "Each request calls connect() once with traces=[]; connection attempts are scripted (succeed / fail / cancelled).",
    "Idle pooled connections stay connected and within keepalive_timeout during a history.",
    "Model/implementation agreement is validated on the generated histories only.",
]

NKEYS_MAX = 3


# --------------------------------------------------------------------------------------------
# the simulator: one real connector, instrumented from outside

class Sim:
    def __init__(self, cfg, hk, orders=None, rng=None):
        from harness.common.loop import VLoop
        from harness.common.transport import make_connector
        import aiohttp
        from aiohttp.client_reqrep import ConnectionKey
        from aiohttp import connector as cmod

        self.cfg = cfg
        self.L, self.Lh, self.fc = cfg["limit"], cfg["lph"], bool(cfg["force_close"])
        self.hk = hk
        self.rng = rng
        self.orders_in = list(orders) if orders is not None else None
        self.orders_used: list = []
        sim = self

        class HFut(asyncio.Future):
            tid = None

            def __await__(self):
                try:
                    return (yield from super().__await__())
                finally:
                    if sim.active:
                        sim.begin(["R", self.tid, None])

        class HTask(asyncio.Task):
            def cancel(self, msg=None):
                sim.on_cancel(self)
                return super().cancel(msg)

        class PLoop(VLoop):
            def create_future(self):
                if sim.active and sys._getframe(1).f_code.co_name == "_wait_for_available_connection":
                    f = HFut(loop=self)
                    t = sim.task_ids.get(asyncio.current_task(self))
                    f.tid = t
                    sim.cur_fut[t] = f
                    sim.phase[t] = "waiting"
                    sim.ever_waited = True
                    if sim.closed_seen:
                        sim.queued_after_close.add(t)
                    return f
                return super().create_future()

        self.loop = PLoop()
        self.loop.set_task_factory(lambda loop, coro, **kw: HTask(coro, loop=loop, **kw))
        asyncio.set_event_loop(self.loop)
        self.active = True
        self.keys = [ConnectionKey(f"h{k}", 80, False, True, None, None, None) for k in range(hk)]
        self.key_index = {k: i for i, k in enumerate(self.keys)}
        self.task_ids: dict = {}
        self.tasks: dict = {}
        self.phase: dict = {}          # t -> new|waiting|creating|holding|done|failed|cancelled
        self.key_of: dict = {}
        self.cur_fut: dict = {}
        self.cancel_req: set = set()
        self.attempt: dict = {}        # t -> future controlling the connection attempt
        self.conn_obj: dict = {}       # t -> Connection
        self.conn_id: dict = {}        # proto -> id
        self.protos: list = []
        self.held: dict = {}           # t -> conn id
        self.deadline: dict = {}
        self.started: set = set()
        self.events: list = []         # [ev, snapshot, oracle-info]
        self.cur = None
        self.closed_seen = False
        self.queued_after_close: set = set()
        self.waiting_at_close: set = set()
        self.ever_waited = False
        self.violations: list = []
        self.wasted_wakeups: list = []
        self.prev_inuse = (0, {})
        self.prev_woken: set = set()
        self.reuse_first_get: set = set()
        self.exc: list = []
        self.harness_errors: list = []
        self.gate_cfg: dict = {}       # t -> set of trace signals at which the request blocks
        self.gated: dict = {}          # t -> (signal, future) while blocked inside a trace callback
        self.traced = False

        class Shim:
            @staticmethod
            def shuffle(lst):
                sim.on_shuffle(lst)

            def __getattr__(self, n):
                import random as _r
                return getattr(_r, n)

        self._patch = mock.patch.object(cmod, "random", Shim())
        self._patch.start()

        def origin_factory(req):
            t = req.tid

            class Origin:
                async def before_connect(self, req):
                    fut = sim.loop.create_future()
                    sim.attempt[t] = fut
                    sim.phase[t] = "creating"
                    try:
                        await fut
                    except BaseException:
                        sim.begin(["F", t, None])
                        sim.attempt.pop(t, None)
                        raise
                    sim.attempt.pop(t, None)
                    sim.begin(["O", t])

                def on_connect(self, tr):
                    sim.conn_id[tr.protocol] = len(sim.protos)
                    sim.protos.append((tr.protocol, tr))

                def on_bytes(self, tr, data):
                    pass
            return Origin()

        from aiohttp.abc import AbstractResolver

        class NoResolver(AbstractResolver):      # never used (connections are scripted); avoids one
            async def resolve(self, host, port=0, family=0):   # c-ares channel (fds) per connector
                raise OSError("no DNS in the harness")

            async def close(self):
                pass

        async def mk():
            return make_connector(self.loop, origin_factory, limit=self.L, limit_per_host=self.Lh,
                                  force_close=self.fc, use_dns_cache=False, resolver=NoResolver())
        self.connector = self.loop.run_until_complete(mk())
        self.aiohttp = aiohttp

    # ---- instrumentation callbacks
    def begin(self, ev):
        self.finish_event()
        self.cur = ev

    def finish_event(self):
        if self.cur is None:
            return
        ev, self.cur = self.cur, None
        snap = self.snapshot()
        self.events.append((ev, snap))
        self.oracle_step(ev)

    def on_shuffle(self, lst):
        keys = sorted(self.key_index[k] for k in lst)
        if self.orders_in is not None and self.orders_in:
            want = self.orders_in.pop(0)
            order = [k for k in want if k in keys] + [k for k in keys if k not in want]
        elif self.rng is not None:
            order = list(keys)
            self.rng.shuffle(order)
        else:
            order = keys
        self.orders_used.append(order)
        lst[:] = [self.keys[k] for k in order]
        if self.cur is not None and self.cur[0] in ("R", "F", "L"):
            if self.cur[-1] is not None:
                self.harness_errors.append("two _release_waiter shuffles inside one event " + repr(self.cur))
            self.cur[-1] = order

    def on_cancel(self, task):
        t = self.task_ids.get(task)
        if t is None or not self.active:
            return
        if self.phase.get(t) == "waiting" and t not in self.cancel_req:
            if self.cur_fut[t].cancelled():
                return          # future already cancelled (by connector.close()): no pool-visible effect
            self.begin(["C", t])
            self.cancel_req.add(t)
        elif self.phase.get(t) in ("new", "creating"):
            self.cancel_req.add(t)

    # ---- tracing: requests may carry a TraceConfig whose callbacks block on harness gates, which
    #      opens the await points inside _get / _wait_for_available_connection / connect
    GATES = ("reuseconn", "queued_start", "queued_end", "create_start", "create_end")

    async def gate(self, t, name):
        if not self.active:
            return
        if name == "reuseconn":
            if self.phase.get(t) == "new":
                self.reuse_first_get.add(t)
            self.phase[t] = "reusing"          # took a connection out of the pool: in use from now on
        elif name == "create_start":
            self.phase[t] = "creating"         # placeholder reserved
        self.finish_event()
        self.events.append((["G", t, name], ""))
        self.oracle_step(["G", t, name])
        if name in self.gate_cfg.get(t, ()):
            fut = self.loop.create_future()
            self.gated[t] = (name, fut)
            try:
                await fut
            finally:
                self.gated.pop(t, None)

    def make_traces(self, t):
        from aiohttp.tracing import Trace
        tc = self.aiohttp.TraceConfig()

        def cb(name):
            async def f(session, ctx, params):
                await self.gate(t, name)
            return f
        tc.on_connection_reuseconn.append(cb("reuseconn"))
        tc.on_connection_queued_start.append(cb("queued_start"))
        tc.on_connection_queued_end.append(cb("queued_end"))
        tc.on_connection_create_start.append(cb("create_start"))
        tc.on_connection_create_end.append(cb("create_end"))
        tc.freeze()
        return [Trace(SimpleNamespace(), tc, tc.trace_config_ctx())]

    # ---- stimuli
    def apply(self, op):
        kind = op[0]
        if kind == "start":
            t, k = op[1], op[2]
            if t in self.tasks:
                return False
            if len(op) > 3:
                self.gate_cfg[t] = set(op[3])
                self.traced = True
            self.phase[t] = "new"
            self.key_of[t] = k
            task = self.loop.create_task(self.runner(t, k))
            self.tasks[t] = task
            self.task_ids[task] = t
            return True
        if kind in ("ok", "fail"):
            t = op[1]
            fut = self.attempt.get(t)
            if fut is None or fut.done():
                return False
            if kind == "ok":
                fut.set_result(None)
            else:
                fut.set_exception(OSError("scripted connect failure"))
            return True
        if kind == "cancel":
            t = op[1]
            if self.phase.get(t) not in ("new", "waiting", "creating") or t in self.cancel_req:
                return False
            if t in self.gated and self.gated[t][0] in ("reuseconn", "create_end"):
                # an exception out of these two trace signals makes the connector drop an open connection
                # without closing or pooling it (pre-existing, outside this property's oracle)
                return False
            was_new = self.phase.get(t) == "new"
            self.tasks[t].cancel()
            if was_new:
                self.phase[t] = "cancelled"     # cancelled before its first step: connect() never runs
            return True
        if kind == "timeout":
            t = op[1]
            if self.phase.get(t) not in ("waiting", "creating") or t not in self.deadline:
                return False
            self.loop.vtime = max(self.loop.vtime, self.deadline[t] + 0.0005)
            return True
        if kind == "release":
            _, t, cl = op
            if self.phase.get(t) != "holding":
                return False
            conn = self.conn_obj.pop(t)
            self.begin(["L", t, int(bool(cl)), None])
            self.phase[t] = "done"
            self.held.pop(t, None)
            if cl:
                conn.close()
            else:
                conn.release()
            return True
        if kind == "close":
            if self.closed_seen == "scheduled" or self.closed_seen is True:
                return False
            self.closed_seen = "scheduled"

            async def closer():
                self.begin(["X"])
                self.closed_seen = True
                self.waiting_at_close = {t for t, p in self.phase.items() if p == "waiting"
                                         and not self.cur_fut[t].done()}
                await self.connector.close()
            self.closer_task = self.loop.create_task(closer())
            return True
        if kind == "open":
            t = op[1]
            g = self.gated.get(t)
            if g is None or g[1].done():
                return False
            g[1].set_result(None)
            return True
        if kind == "run":
            self.loop.run_until_idle()
            self.finish_event()
            self.oracle_quiescent()
            return True
        raise ValueError(op)

    async def runner(self, t, k):
        self.begin(["S", t, k])
        self.started.add(t)
        req = SimpleNamespace(connection_key=self.keys[k], proxy=None, tid=t)
        traces = []
        if t in self.gate_cfg:
            traces = self.make_traces(t)
            tmo = self.aiohttp.ClientTimeout()
        else:
            tmo = self.aiohttp.ClientTimeout(connect=1.0 + 0.01 * t)
            self.deadline[t] = self.loop.time() + 1.0 + 0.01 * t
        try:
            conn = await self.connector.connect(req, traces, tmo)
        except BaseException as e:  # noqa
            was = self.phase.get(t)
            # while queued: cancel / timeout -> cancelled; a closed connector refusing to queue -> failed
            self.phase[t] = ("cancelled" if was == "waiting" and isinstance(e, (asyncio.CancelledError, asyncio.TimeoutError))
                             else "failed")
            self.deadline.pop(t, None)
            if not isinstance(e, (asyncio.CancelledError, asyncio.TimeoutError, OSError, self.aiohttp.ClientError)):
                self.exc.append(repr(e))
            return
        self.deadline.pop(t, None)
        if self.phase.get(t) in ("new", "waiting"):
            # returned without creating: an idle connection was reused
            if self.phase.get(t) == "new":
                self.reuse_first_get.add(t)
        self.phase[t] = "holding"
        self.conn_obj[t] = conn
        self.held[t] = self.conn_id.get(conn.protocol, -1)

    # ---- observation
    def _slots(self, protos):
        from aiohttp.connector import _TransportPlaceholder
        ph = sum(1 for p in protos if isinstance(p, _TransportPlaceholder))
        cs = sorted(self.conn_id.get(p, -1) for p in protos if not isinstance(p, _TransportPlaceholder))
        return "P%d" % ph + ("," + ",".join(map(str, cs)) if cs else "")

    def snapshot(self):
        c = self.connector
        host = []
        idle = []
        wait = []
        for i, k in enumerate(self.keys):
            s = c._acquired_per_host.get(k)
            if s:
                host.append(f"{i}:{self._slots(s)}")
            d = c._conns.get(k)
            if d:
                idle.append(f"{i}:" + ",".join(str(self.conn_id.get(p, -1)) for p, _ in d))
            w = c._waiters.get(k)
            if w:
                wait.append(f"{i}:" + ",".join(f"{getattr(f, 'tid', '?')}{'x' if f.cancelled() else ''}" for f in w))
        woken = sorted(self.woken_set())
        closedc = sorted(i for i, (p, tr) in enumerate(self.protos) if tr.closed)
        av = ",".join(str(c._available_connections(k)) for k in self.keys)
        pcs = []
        for t in sorted(self.started):
            p = self.phase[t]
            k = self.key_of[t]
            if p == "waiting":
                f = self.cur_fut[t]
                st = "p" if not f.done() else ("c" if f.cancelled() else ("wc" if t in self.cancel_req else "w"))
                pcs.append(f"{t}=wait{k}{st}")
            elif p == "creating":
                pcs.append(f"{t}=creating{k}")
            elif p == "holding":
                pcs.append(f"{t}=hold{k}c{self.held[t]}")
            else:
                pcs.append(f"{t}={p}")
        return (f"acq={self._slots(c._acquired)} host={';'.join(host)} idle={';'.join(idle)} wait={';'.join(wait)} "
                f"woken={','.join(map(str, woken))} closed={1 if c._closed else 0} nconn={len(self.protos)} "
                f"closedc={','.join(map(str, closedc))} avail={av} pcs={','.join(pcs)}")

    def woken_set(self):
        return {t for t, p in self.phase.items() if p == "waiting" and self.cur_fut[t].done()
                and not self.cur_fut[t].cancelled()}

    # ---- property oracle (harness-side counting, independent of the connector's own books)
    def in_use(self):
        tot = 0
        per: dict = {}
        for t, p in self.phase.items():
            if p in ("creating", "holding", "reusing"):
                tot += 1
                per[self.key_of[t]] = per.get(self.key_of[t], 0) + 1
        return tot, per

    def capacity(self, k, tot, per):
        """free slots a request to host k could use; None = unlimited"""
        caps = []
        if self.L > 0:
            caps.append(self.L - tot)
        if self.Lh > 0:
            caps.append(self.Lh - per.get(k, 0))
        return min(caps) if caps else None

    def oracle_step(self, ev):
        tot, per = self.in_use()
        ptot, pper = self.prev_inuse
        closed = self.connector._closed
        step = len(self.events) - 1
        if not closed:
            first_get = ((ev[0] == "S" or (ev[0] == "G" and ev[2] == "reuseconn")) and ev[1] in self.reuse_first_get)
            if self.L > 0 and tot > self.L and tot > ptot:
                self.violations.append(({"kind": "limit", "scope": "total", "step": step, "event": ev,
                                         "in_use": tot, "limit": self.L, "step_is_first_get_reuse": first_get},
                                        f"{tot} connections in use or being established with limit={self.L} after {ev}"))
            if self.Lh > 0:
                for k, n in per.items():
                    if n > self.Lh and n > pper.get(k, 0):
                        self.violations.append(({"kind": "limit", "scope": "host", "step": step, "event": ev, "host": k,
                                                 "in_use": n, "limit_per_host": self.Lh,
                                                 "step_is_first_get_reuse": first_get},
                                                f"{n} connections to host {k} with limit_per_host={self.Lh} after {ev}"))
            # wake-ups that hand out a slot already promised to a woken waiter of the same host
            # (several wake-ups can land between two observation points, e.g. when a request blocked in a
            # trace callback is cancelled and releases its placeholder: count them one after the other)
            now_woken = self.woken_set()
            promised: dict = {}
            for u in self.prev_woken:
                if u in now_woken:
                    promised[self.key_of[u]] = promised.get(self.key_of[u], 0) + 1
            for t in sorted(now_woken - self.prev_woken):
                k = self.key_of[t]
                if self.Lh > 0:
                    host_free = self.Lh - per.get(k, 0)
                    if host_free - promised.get(k, 0) < 1:
                        self.wasted_wakeups.append({"step": step, "task": t, "host": k})
                promised[k] = promised.get(k, 0) + 1
            self.prev_woken = now_woken
        self.prev_inuse = (tot, dict(per))

    def oracle_quiescent(self):
        c = self.connector
        step = len(self.events) - 1
        tot, per = self.in_use()
        live = [t for t, p in self.phase.items() if p == "waiting" and not self.cur_fut[t].done()]
        if not c._closed and self.closed_seen is not True:
            tokens = [self.key_of[u] for u in self.woken_set()]     # non-empty only behind trace gates
            per2 = dict(per)
            for h in tokens:
                per2[h] = per2.get(h, 0) + 1
            for t in live:
                k = self.key_of[t]
                cap = self.capacity(k, tot + len(tokens), per2)
                if cap is None or cap > 0:
                    behind = sorted(u for u in self.woken_set() if u in self.gated
                                    and self.gated[u][0] in ("queued_start", "queued_end"))
                    self.violations.append(({"kind": "lost_wakeup", "step": step, "task": t, "host": k,
                                             "capacity": cap, "lph": self.Lh,
                                             "wasted_wakeups": list(self.wasted_wakeups),
                                             "woken_behind_trace_gate": behind},
                                            f"request {t} waits for host {k} at quiescence although {cap} slot(s) it can use are free"))
                    break
        if self.closed_seen is True and self.closer_task.done():
            for t in live:
                self.violations.append(({"kind": "close_waiter_survives", "step": step, "task": t,
                                         "queued_after_close": t in self.queued_after_close},
                                        f"request {t} still waits for a slot after connector.close() completed"))
                break
            opened = [i for i, (p, tr) in enumerate(self.protos) if not tr.closed]
            if opened and not self.gated:      # a request blocked in a trace callback may still own one
                self.violations.append(({"kind": "close_leaves_open", "step": step, "conns": opened},
                                        f"connections {opened} created by the connector are still open after close()"))
            for t in self.waiting_at_close:
                if self.phase[t] == "waiting" and t not in self.queued_after_close and t not in self.gated:
                    self.violations.append(({"kind": "close_waiter_not_failed", "step": step, "task": t},
                                            f"request {t} was waiting when the connector closed and was not failed"))

    def drain(self):
        """Let every request finish: fail pending attempts, release held connections, run; then check
        that nothing is counted as in use and nobody waits."""
        for _ in range(8 * (len(self.tasks) + 2)):
            self.apply(["run"])
            progressed = False
            for t in sorted(self.gated):
                progressed |= self.apply(["open", t])
            for t in sorted(self.tasks):
                p = self.phase.get(t)
                if p == "creating":
                    progressed |= self.apply(["fail", t])
                elif p == "holding":
                    progressed |= self.apply(["release", t, 1])
            if not progressed:
                break
        self.apply(["run"])
        c = self.connector
        stuck = [t for t, p in self.phase.items() if p in ("waiting", "new", "creating", "holding", "reusing")]
        if not c._closed:
            if stuck and not self.violations:
                self.violations.append(({"kind": "lost_wakeup", "step": len(self.events) - 1, "task": stuck[0],
                                         "host": self.key_of[stuck[0]], "capacity": None, "lph": self.Lh,
                                         "wasted_wakeups": list(self.wasted_wakeups), "at": "drain"},
                                        f"requests {stuck} never finish although every other request finished"))
            if not stuck:
                left = {"acquired": len(c._acquired), "per_host": sum(len(v) for v in c._acquired_per_host.values()),
                        "waiters": sum(len(v) for v in c._waiters.values())}
                if any(left.values()):
                    self.violations.append(({"kind": "leak", "left": left},
                                            f"all requests finished but the connector still counts {left}"))
        if self.exc:
            self.violations.append(({"kind": "unexpected_exception", "exc": self.exc[:3]},
                                    f"connect() raised an unexpected exception: {self.exc[:3]}"))
        if self.loop.exceptions:
            msgs = [str(x.get("message")) + ":" + repr(x.get("exception")) for x in self.loop.exceptions[:3]]
            self.violations.append(({"kind": "loop_exception", "exc": msgs}, f"event loop exception handler called: {msgs}"))

    def close(self):
        self.active = False
        try:
            for t in self.tasks.values():
                if not t.done():
                    t.cancel()
            for conn in list(self.conn_obj.values()):
                try:
                    conn.close()
                except Exception:  # noqa
                    pass
            try:
                self.connector._close_immediately()
            except Exception:  # noqa
                pass
            self.loop.run_until_idle()
        finally:
            self._patch.stop()
            asyncio.set_event_loop(None)
            self.loop.close()

    # ---- model request line
    def model_line(self):
        def o(x):
            return "_" if not x else "-".join(map(str, x))
        ws = []
        for ev, _ in self.events:
            k = ev[0]
            if k == "S":
                ws.append(f"S.{ev[1]}.{ev[2]}")
            elif k == "R":
                ws.append(f"R.{ev[1]}.{o(ev[2])}")
            elif k == "C":
                ws.append(f"C.{ev[1]}")
            elif k == "O":
                ws.append(f"O.{ev[1]}")
            elif k == "F":
                ws.append(f"F.{ev[1]}.{o(ev[2])}")
            elif k == "L":
                ws.append(f"L.{ev[1]}.{ev[2]}.{o(ev[3])}")
            elif k == "X":
                ws.append("X")
            elif k == "G":
                ws.append("G")      # not a model event: traced histories are oracle-only
        return f"RUN {self.L} {self.Lh} {1 if self.fc else 0} {self.hk} " + " ".join(ws)


def run_history(cfg, hk, history, orders=None, rng=None, drain=True, chooser=None):
    """Replay `history` (or, with `chooser`, build one interactively: chooser(sim) -> op | None)
    -> dict(events, snapshots, violations, orders, line, applied)"""
    sim = Sim(cfg, hk, orders=orders, rng=rng)
    applied = []
    try:
        if chooser is not None:
            while True:
                op = chooser(sim)
                if op is None:
                    break
                if sim.apply(list(op)):
                    applied.append(list(op))
        else:
            for op in history:
                if sim.apply(list(op)):
                    applied.append(list(op))
        if drain:
            sim.drain()
        else:
            sim.apply(["run"])
        return {"events": [e for e, _ in sim.events], "snapshots": [s for _, s in sim.events],
                "violations": sim.violations, "orders": sim.orders_used, "line": sim.model_line(),
                "applied": applied, "ever_waited": sim.ever_waited, "harness_errors": sim.harness_errors,
                "traced": sim.traced}
    finally:
        sim.close()


# --------------------------------------------------------------------------------------------
# generation

def gen_config(rng):
    hk = rng.choice([1, 2, 2, 3])
    cfg = {"limit": rng.choice([0, 1, 1, 2, 2, 3]), "lph": rng.choice([0, 0, 1, 1, 2]),
           "force_close": 1 if rng.random() < 0.12 else 0}
    if cfg["limit"] == 0 and cfg["lph"] == 0 and rng.random() < 0.8:
        cfg["limit"] = 1
    return cfg, hk


def make_chooser(rng, n, hk, length, traced=False):
    """State-aware random stimulus chooser: picks among the stimuli enabled in the simulator's
    current (harness-observed) phases."""
    st = {"next": 0, "steps": 0}

    def choose(sim):
        if st["steps"] >= length:
            return None
        st["steps"] += 1
        cands = []
        closing = sim.closed_seen is not False
        if st["next"] < n and not closing:      # a session refuses new requests once closed
            op = ["start", st["next"], rng.randrange(hk)]
            if traced and rng.random() < 0.7:
                op.append(sorted(g for g in Sim.GATES if rng.random() < (0.6 if g == "reuseconn" else 0.3)))
            cands.append((3.0, op))
        for t in sim.gated:
            cands.append((1.6, ["open", t]))
        for t, p in sim.phase.items():
            if p == "creating":
                f = sim.attempt.get(t)
                if f is not None and not f.done():
                    cands.append((2.0, ["ok", t]))
                    cands.append((0.6, ["fail", t]))
            if p == "holding":
                cands.append((1.5, ["release", t, 0]))
                cands.append((0.7, ["release", t, 1]))
            if p in ("new", "waiting", "creating") and t not in sim.cancel_req:
                cands.append((0.45, ["cancel", t]))
                if p != "new" and t in sim.deadline:
                    cands.append((0.15, ["timeout", t]))
        if not closing:
            cands.append((0.12, ["close"]))
        cands.append((2.5, ["run"]))
        tot = sum(w for w, _ in cands)
        x = rng.random() * tot
        for w, op in cands:
            x -= w
            if x <= 0:
                break
        if op[0] == "start":
            st["next"] += 1
        return op
    return choose


def enumerate_histories(maxlen):
    """All histories of length <= maxlen over a small alphabet for 3 requests, 2 hosts (thorough tier)."""
    alpha = [["start", 0, 0], ["start", 1, 0], ["start", 2, 1], ["ok", 0], ["ok", 1], ["fail", 2], ["release", 0, 0],
             ["release", 1, 1], ["cancel", 1], ["cancel", 2], ["run"], ["close"]]

    def rec(prefix):
        yield prefix
        if len(prefix) < maxlen:
            for a in alpha:
                if a[0] == "start" and a in prefix:
                    continue
                if a == ["run"] and prefix and prefix[-1] == ["run"]:
                    continue
                yield from rec(prefix + [a])
    return rec([])


# --------------------------------------------------------------------------------------------
# signatures of known findings

def sig_overlimit_first_get_reuse(case, params):
    v = case.get("violation", {})
    return v.get("kind") == "limit" and bool(v.get("step_is_first_get_reuse"))


def sig_per_host_wasted_wakeup(case, params):
    v = case.get("violation", {})
    # narrowed after partial repair fb3ee24: only while a woken waiter sits in a suspending
    # on_connection_queued_start/_end trace callback (the wake-up is handed on when the callback returns)
    return (v.get("kind") == "lost_wakeup" and int(case.get("cfg", {}).get("lph", 0)) > 0 and bool(v.get("wasted_wakeups"))
            and bool(v.get("woken_behind_trace_gate")))


def sig_requeue_after_close(case, params):
    v = case.get("violation", {})
    return v.get("kind") == "close_waiter_survives" and bool(v.get("queued_after_close"))


def sig_lost_wakeup_total_only(case, params):
    v = case.get("violation", {})
    return v.get("kind") == "lost_wakeup" and int(case.get("cfg", {}).get("lph", 0)) == 0


SIGNATURES = {
    "lost_wakeup_total_limit_only": sig_lost_wakeup_total_only,     # only referenced by a fixed: entry
    "overlimit_step_is_first_get_reuse": sig_overlimit_first_get_reuse,
    "per_host_wasted_wakeup": sig_per_host_wasted_wakeup,
    "waiter_requeued_after_close": sig_requeue_after_close,
}


# --------------------------------------------------------------------------------------------

def build_model():
    return fw.ocaml_model("C07", ["Model/Pool.vo"])


def check_batch(ctx, exe, suite, batch):
    """batch: list of (cfg, hk, history|None, orders|None).  history None = generate interactively.
    Runs the implementation, then the model on the logged events, compares snapshots, reports
    oracle violations.  Returns number ran."""
    results = []
    for cfg, hk, hist, orders in batch:
        if hist is None:
            ch = make_chooser(ctx.rng, ctx.rng.choice([2, 3, 3, 4, 4, 5]), hk, ctx.rng.randint(4, 28),
                              traced=(suite == "pool_traced_oracle"))
            res = run_history(cfg, hk, None, rng=ctx.rng, chooser=ch)
        else:
            res = run_history(cfg, hk, hist, orders=orders, rng=(ctx.rng if orders is None else None))
        results.append(res)
    # histories with trace gates have await points the model does not have: property oracle only
    answers = fw.run_model(exe, [("RUN 0 0 0 1" if r["traced"] else r["line"]) for r in results]) if results else []
    for (cfg, hk, hist, orders), res, ans in zip(batch, results, answers):
        case = {"suite": suite, "cfg": cfg, "hk": hk, "history": res["applied"], "orders": res["orders"]}
        msnaps = ans.split(" | ") if ans else []
        isnaps = res["snapshots"]
        bad = None
        if res["traced"]:
            msnaps = isnaps = []
            ctx.count("traced_histories")
        for i, s in enumerate(isnaps):
            if i >= len(msnaps) or msnaps[i] != s:
                bad = i
                break
        if bad is None and len(msnaps) != len(isnaps):
            bad = len(isnaps)
        ctx.case((res["line"], repr(res["applied"]) if res["traced"] else (isnaps[-1] if isnaps else "")),
                 nontrivial=res["ever_waited"])
        if not res["traced"]:
            ctx.traces_validated += 1
        for ev in res["events"]:
            ctx.count("event:" + ev[0])
        ctx.count(f"cfg:limit={cfg['limit']},lph={cfg['lph']}")
        ctx.count("events_per_history:" + str(min(40, len(res["events"]) // 5 * 5)))
        if res["harness_errors"] and not res["traced"]:
            ctx.disagreement(suite, case, "event structure of the model", res["harness_errors"][0])
        if bad is not None:
            ctx.disagreement(suite, dict(case, step=bad, event=res["events"][bad] if bad < len(res["events"]) else None),
                             msnaps[bad] if bad < len(msnaps) else "<missing>", isnaps[bad] if bad < len(isnaps) else "<missing>")
        seen_kinds = set()
        for v, what in res["violations"]:
            sigk = (v.get("kind"), v.get("step_is_first_get_reuse"), v.get("queued_after_close"))
            if sigk in seen_kinds:
                continue            # the same condition persists over later quiescence points
            seen_kinds.add(sigk)
            ctx.count("oracle:" + v.get("kind", "?"))
            ctx.violation(dict(case, violation=v), what)
    if results:
        ctx.sample({"suite": suite, "cfg": batch[-1][0], "history": results[-1]["applied"], "events": results[-1]["events"],
                    "final": results[-1]["snapshots"][-1] if results[-1]["snapshots"] else ""})
    return len(results)


def suite_formula(ctx, exe):
    """_available_connections on a bare connector vs the generated formula (all small arguments)."""
    from harness.common.loop import VLoop
    import aiohttp
    loop = VLoop()
    asyncio.set_event_loop(loop)
    try:
        rng = range(0, 5) if ctx.quick else range(0, 8)
        cases = [(l, lh, a, h) for l in list(rng) + [-1] for lh in list(rng) + [-1] for a in rng for h in rng if h <= a]
        model = fw.run_model(exe, [f"AVAIL {l} {lh} {a} {h}" for l, lh, a, h in cases])

        async def mk(l, lh):
            return aiohttp.BaseConnector(limit=l, limit_per_host=lh)
        ran = 0
        for (l, lh, a, h), m in zip(cases, model):
            c = loop.run_until_complete(mk(l, lh))
            objs = [object() for _ in range(a)]
            c._acquired.update(objs)
            if h:
                c._acquired_per_host["k"].update(objs[:h])
            got = c._available_connections("k")
            c._acquired.clear()
            c._acquired_per_host.clear()
            c._close_immediately()
            ran += 1
            ctx.case((l, lh, a, h, got), nontrivial=got > 0)
            if str(got) != m:
                ctx.disagreement("available_connections", {"limit": l, "lph": lh, "nacq": a, "nhost": h}, m, got)
            # oracle: a positive answer means both limits leave room
            if got > 0 and ((l > 0 and a >= l) or (lh > 0 and h >= lh)):
                ctx.violation({"suite": "available_connections", "violation": {"kind": "formula"}, "limit": l, "lph": lh,
                               "nacq": a, "nhost": h}, f"_available_connections={got} although a limit is reached")
        ctx.close_suite("available_connections", ran)
    finally:
        asyncio.set_event_loop(None)
        loop.close()


def suite_session(ctx):
    """Call sites of the pool API (ClientSession._request exit paths, ClientResponse/ClientRequest release,
    proxy tunnel set-up): implementation + oracle only, see harness/c07_session.py."""
    from harness import c07_session as S
    scs = []
    for p in sorted(glob.glob(os.path.join(fw.VERIF, "corpus", "C07", "*.json"))):
        c = json.load(open(p)).get("case")
        if c and "scenario" in c:
            scs.append(c["scenario"])
    n = 1200 if ctx.quick else 30000
    scs += [S.gen_scenario(ctx.rng) for _ in range(n)]
    ran = 0
    for sc in scs:
        try:
            vs, log = S.run(sc)
        except Exception as e:  # noqa
            ctx.disagreement("session_lifecycle", {"suite": "session_lifecycle", "scenario": sc}, "scenario runs", repr(e))
            continue
        ran += 1
        ctx.case((json.dumps(sc, sort_keys=True), tuple(log)), nontrivial=any(o.startswith("status") for o in log))
        for o in log:
            ctx.count("session_outcome:" + o)
        for r in sc["requests"]:
            ctx.count("session_request:" + r["path"].split("/")[1] + ("+proxy" if r.get("proxy") else "")
                      + ("+cancel" if r.get("cancel_after") is not None else ""))
        for v, what in vs:
            ctx.count("oracle:" + v["kind"])
            ctx.violation({"suite": "session_lifecycle", "scenario": sc, "violation": v, "outcomes": log}, what)
    if scs:
        ctx.sample({"suite": "session_lifecycle", "scenario": scs[-1]})
    ctx.close_suite("session_lifecycle", ran)


def run(ctx):
    ok, exe = build_model()
    ctx.oblige("model-runner-build", "correspondence", ok, "" if ok else exe)
    if not ok:
        return
    suite_formula(ctx, exe)
    # corpus first
    batch = []
    for p in sorted(glob.glob(os.path.join(fw.VERIF, "corpus", "C07", "*.json"))):
        c = json.load(open(p)).get("case")
        if c and "history" in c:
            batch.append((c["cfg"], c["hk"], c["history"], c.get("orders") or []))
    ran = check_batch(ctx, exe, "pool_trace_corpus", batch)
    ctx.close_suite("pool_trace_corpus", ran)
    # generated
    n = 4000 if ctx.quick else 100000
    ran = 0
    chunk = 500
    while ran < n:
        batch = []
        for _ in range(min(chunk, n - ran)):
            cfg, hk = gen_config(ctx.rng)
            batch.append((cfg, hk, None, None))
        ran += check_batch(ctx, exe, "pool_trace", batch)
    ctx.close_suite("pool_trace", ran)
    # requests with TraceConfig callbacks blocking on harness gates (await points inside _get, the wait loop
    # and around _create_connection): implementation + property oracle only
    n = 1500 if ctx.quick else 40000
    ran = 0
    while ran < n:
        batch = []
        for _ in range(min(chunk, n - ran)):
            cfg, hk = gen_config(ctx.rng)
            batch.append((cfg, hk, None, None))
        ran += check_batch(ctx, exe, "pool_traced_oracle", batch)
    ctx.close_suite("pool_traced_oracle", ran)
    suite_session(ctx)
    if not ctx.quick:
        ran = 0
        for cfg in ({"limit": 1, "lph": 0, "force_close": 0}, {"limit": 2, "lph": 1, "force_close": 0},
                    {"limit": 0, "lph": 1, "force_close": 0}):
            batch = []
            for h in enumerate_histories(4):
                if len(h) >= 2:
                    batch.append((cfg, 2, h, []))
                if len(batch) >= 2000:
                    ran += check_batch(ctx, exe, "pool_trace_exhaustive", batch)
                    batch = []
            ran += check_batch(ctx, exe, "pool_trace_exhaustive", batch)
        ctx.close_suite("pool_trace_exhaustive", ran)


def replay(ctx, case):
    if case.get("suite") == "available_connections":
        return {"violates": None, "note": "formula case: re-run the suite"}
    if "scenario" in case:
        from harness import c07_session as S
        vs, log = S.run(case["scenario"])
        want = (case.get("violation") or {}).get("kind")
        hit = [v for v, _ in vs if want is None or v["kind"] == want]
        return {"violates": bool(hit), "violations": [{"violation": v, "what": w} for v, w in vs], "outcomes": log}
    ok, exe = build_model()
    res = run_history(case["cfg"], case["hk"], case["history"], orders=case.get("orders") or [])
    if res["traced"]:       # trace gates: oracle only
        msnaps, agree = [], None
    else:
        ans = fw.run_model(exe, [res["line"]])[0] if ok else ""
        msnaps = ans.split(" | ")
        agree = msnaps == res["snapshots"]
    want = (case.get("violation") or {}).get("kind")
    vs = [{"violation": v, "what": w} for v, w in res["violations"]]
    hit = [x for x in vs if want is None or x["violation"].get("kind") == want]
    return {"violates": bool(hit), "violations": vs, "events": res["events"], "impl_snapshots": res["snapshots"],
            "model_snapshots": msnaps, "model_agrees": agree, "model_line": res["line"]}
