"""C08 — Stream reader: exact ordered delivery with back-pressure.

Drives the real aiohttp.streams.StreamReader (with the real BaseProtocol flow-control code and an
in-memory transport) and the extracted Coq model (coq/Model/Stream.v) with the same operation
sequences, compares canonical observables after every operation, and evaluates the property
itself (conservation, EOF last, chunk boundaries, pause/resume, no stuck pause, no hang once an
exception is set) on the
implementation's output without consulting the model.

Operation tokens (shared with ocaml/C08/driver.ml):
  F:<hex> feed_data   B begin_http_chunk_receiving   E end_http_chunk_receiving   Z feed_eof
  X:<id> set_exception   Q:<hex> / QE  the parser stub holds data / a chunk end for the next resume
  r:<n> read(n)   a readany   u:<sephex>:<max> readuntil(sep, max_size=max or None)   x:<n> readexactly
  c readchunk   n:<n> read_nowait   U:<hex> unread_data   s:<n> set_read_chunk_size
  il  anext(aiter(reader))   ic:<n> anext(iter_chunked(n))   ia anext(iter_any())   ik anext(iter_chunks())
  R  the event loop runs the reader task (if a producer completed its waiter)
"""
from __future__ import annotations

import asyncio
import glob
import itertools
import json
import logging
import os
import sys
import warnings

from harness.common import framework as fw

PROP = "C08"
GENERATED = ["StreamGen.v"]
RULE = ("cases = (limit, operation sequence); corpus first, then every sequence of a fixed length over a small "
        "alphabet (exhaustive suite), then random sequences (length up to 60) generated adaptively from the PRNG "
        "(data sizes 0,1,2,low,high+1,random; limits 0..160).  Each case is run on the real StreamReader and on the "
        "extracted model and compared after every operation.  Non-trivial = at least one consumer call returned "
        "bytes; distinct by hash of the implementation's observable trace.")
TRUSTED = [
    "translator/gen_stream.py (water-mark formulas and the integer tests of streams.py -> Z definitions; ast shape checks)",
    "extraction: ExtrOcamlBasic only; ocaml/common/conv.ml + ocaml/C08/driver.ml (token parsing/printing)",
    "correspondence harness harness/c08.py: sampled, not proved; the parser is a stub that feeds held input on "
    "resume_reading (re-entrantly) and stops when reading is paused again or EOF was fed",
    "modelled, not verified: CPython bytes/deque/Future semantics; the reader task is stepped at await granularity "
    "(coroutine.send) and, in a second suite, as a real asyncio Task on the virtual-time loop",
    "the head buffer offset (_buffer_offset) is abstracted: the model stores the unread suffix of the first block",
]
ASSUMPTIONS = [
    "Single reader discipline: a second reader coroutine is never started while one is suspended (the code raises or "
    "misbehaves by design); read_nowait and set_read_chunk_size may be called at any time.",
    "The reader is not cancelled while suspended (cancellation drops bytes already taken by readexactly/readuntil/read()).",
    "No _on_chunk_received hook, TimerNoop timer, protocol connected.",
    "Model/implementation agreement is validated on the generated cases only.",
]

logging.getLogger("aiohttp.internal").disabled = True


# ------------------------------------------------------------------------------------------------
# known findings (C08-limit0-stuck-pause is fixed by b609c8c; the signature stays for the record and
# matches nothing while the entry is not open)

def _sig_limit_zero_stuck(case, params):
    return case.get("kind") == "not_stuck" and int(case.get("limit", -1)) == 0


SIGNATURES = {"limit_zero_stuck": _sig_limit_zero_stuck}


def build_model():
    return fw.ocaml_model("C08", ["Model/Stream.vo"])


# ------------------------------------------------------------------------------------------------
# implementation side

class StreamErr(Exception):
    def __init__(self, ident):
        super().__init__(f"stream error {ident}")
        self.ident = ident


class _StubParser:
    def pause_reading(self):
        pass


def _mk_proto_class():
    from aiohttp.base_protocol import BaseProtocol

    class Proto(BaseProtocol):
        """Real BaseProtocol flow control; data_received(b"") (called by resume_reading) lets the parser
        stub feed what it holds until reading is paused again or EOF was fed."""

        def __init__(self, loop):
            super().__init__(loop, parser=_StubParser())
            self.pending = []
            self.stream = None
            self.chunked = False
            self.on_feed = None

        def data_received(self, data):
            st = self.stream
            while self.pending and not self._reading_paused and not st.is_eof():
                it = self.pending.pop(0)
                if it is None:
                    if self.chunked:
                        st.end_http_chunk_receiving()
                        self.on_feed(None)
                else:
                    st.feed_data(it)
                    self.on_feed(it)
    return Proto


_PROTO = None


def unhex(h):
    return fw.unhex(h)


def hx(b):
    return fw.hexs(b)


def _dedupe(xs):
    out = []
    for x in xs:
        if not out or out[-1] != x:
            out.append(x)
    return out


class Impl:
    """One StreamReader under test + the property oracle (model-independent)."""

    def __init__(self, limit, loop, use_tasks=False):
        global _PROTO
        from aiohttp import streams
        from harness.common.transport import MemTransport
        if _PROTO is None:
            _PROTO = _mk_proto_class()
        self.limit = limit
        self.loop = loop
        self.use_tasks = use_tasks
        self.tr = MemTransport(loop)
        self.proto = _PROTO(loop)
        self.proto.connection_made(self.tr)
        self.stream = streams.StreamReader(self.proto, limit, loop=loop)
        self.proto.stream = self.stream
        self.proto.on_feed = self._fed
        self.coro = None        # suspended reader: (coroutine, awaited future) or Task
        self.fut = None
        self.cur_op = None
        # oracle state
        self.expected = bytearray()     # the byte stream the consumer must see
        self.pos = 0                    # bytes delivered so far
        self.exact = True               # conservation still checkable (no un-accountable loss)
        self.eof_fed = False
        self.ends = []                  # sender chunk-end positions (expected-stream coordinates)
        self.unread_used = False
        self.reported = []              # positions at which readchunk reported True
        self.chunk_only = True          # every consumer call so far was readchunk / iter_chunks
        self.bad = []                   # (kind, message)
        self.consumed_any = False
        self.returned_bytes = 0

    # -- oracle helpers
    def _fed(self, d):
        if d is None:
            self.ends.append(len(self.expected))
        else:
            self.expected += d

    def _flag(self, kind, msg):
        self.bad.append((kind, msg))

    def paused(self):
        return not self.tr.reading

    def _deliver(self, b, what):
        """The consumer received (or the exception carried) bytes b."""
        if not self.exact:
            return
        exp = bytes(self.expected[self.pos:self.pos + len(b)])
        if exp != bytes(b):
            self._flag("conservation", f"{what} returned {bytes(b)!r} but the next bytes received are "
                                       f"{bytes(self.expected[self.pos:self.pos + max(len(b), 8)])!r} (position {self.pos})")
            self.exact = False
            return
        self.pos += len(b)
        if b:
            self.returned_bytes += len(b)

    def _eof_indication(self, what):
        if not self.eof_fed:
            self._flag("eof_last", f"{what} reported end-of-stream but feed_eof was never called")
        elif self.exact and self.pos != len(self.expected):
            self._flag("eof_last", f"{what} reported end-of-stream with {len(self.expected) - self.pos} received bytes undelivered")

    # -- running the reader
    def _finish(self, tok, kind, val):
        """Consumer call `tok` completed: kind in {'ret','exc'}.  Returns the canonical obs string."""
        self.coro = self.fut = None
        op = tok.split(":")
        name = op[0]
        if kind == "exc":
            e = val
            if isinstance(e, StopAsyncIteration):
                # iteration wrappers: b"" / (b"", False) from the underlying read
                if name == "ik":
                    self._eof_indication("iter_chunks")
                    return "D:c:-:0"
                self._eof_indication({"il": "async for line", "ic": "iter_chunked", "ia": "iter_any"}.get(name, name))
                return "D:b:-"
            if isinstance(e, StreamErr):
                self.exact = False      # bytes taken by this call before the error are not observable
                return f"D:x:S{e.ident}"
            from aiohttp.http_exceptions import LineTooLong
            if isinstance(e, LineTooLong):
                line = e.args[0]
                if isinstance(line, (bytes, bytearray)) and len(line) < 103 and line.endswith(b"..."):
                    self._deliver(line[:-3], "LineTooLong")
                else:
                    self.exact = False
                return "D:x:LTL"
            if isinstance(e, asyncio.IncompleteReadError):
                self._deliver(e.partial, "IncompleteReadError.partial")
                self._eof_indication("readexactly (IncompleteReadError)")
                return f"D:x:INC,{hx(e.partial)},{e.expected}"
            if isinstance(e, RuntimeError):
                return "D:x:RT"
            if isinstance(e, ValueError):
                return "D:x:VE"
            if isinstance(e, AssertionError):
                return "D:x:AS"
            if isinstance(e, IndexError):
                self._flag("crash", f"{tok} raised IndexError")
                return "D:x:IX"
            self._flag("crash", f"{tok} raised {type(e).__name__}: {e}")
            return f"D:x:{type(e).__name__}"
        v = val
        if v is None:
            return "D:n"
        if isinstance(v, tuple):
            data, end = v
            before = self.pos
            self._deliver(data, "readchunk")
            if end:
                self.reported.append(self.pos)
            if self.exact and self.chunk_only and not self.unread_used:
                # a consumer that only uses readchunk is told every sender chunk end, in order (empty chunks,
                # i.e. repeated positions, may or may not be reported: compare without repetitions)
                rep, snd_ = _dedupe([0] + self.reported)[1:], _dedupe([0] + self.ends)[1:]
                if rep != snd_[:len(rep)]:
                    self._flag("chunk_boundary", f"readchunk-only consumer was told chunk ends {rep}, the sender's are {snd_}")
                elif data == b"" and not end and self.eof_fed and rep != snd_:
                    self._flag("chunk_boundary", f"readchunk-only consumer reached EOF having been told chunk ends {rep} of {snd_}")
                elif not end and data and any(p <= self.pos for p in snd_[len(rep):] if p in self._ends_before_op):
                    self._flag("chunk_boundary", f"readchunk-only consumer passed the sender's chunk end {snd_[len(rep)]} unreported (now at {self.pos})")
            if data == b"" and not end:
                self._eof_indication("readchunk")
            elif self.exact and not self.unread_used:
                known = self._ends_before_op
                if end and self.pos not in known:
                    self._flag("chunk_boundary", f"readchunk reported a chunk end at position {self.pos}, sender ends are {sorted(set(known))}")
                crossed = [p for p in known if before < p < self.pos]
                if crossed:
                    self._flag("chunk_boundary", f"readchunk returned bytes {before}..{self.pos} across the sender's chunk end at {crossed[0]}")
                if not end and self.pos in known and self.pos > before:
                    self._flag("chunk_boundary", f"readchunk returned data ending at the sender's chunk end {self.pos} without reporting it")
            return f"D:c:{hx(data)}:{1 if end else 0}"
        data = v
        self._deliver(data, name)
        if name in ("u", "il") and data and self.exact:
            sep = unhex(op[1]) if name == "u" else b"\n"
            if not data.endswith(sep) and not (self.eof_fed and self.pos == len(self.expected)):
                self._flag("delimiter", f"readuntil({sep!r}) returned {bytes(data)!r}: not terminated by the separator and not at end of stream")
        if data == b"":
            n = int(op[1]) if name in ("r", "x", "ic") and len(op) > 1 else None
            if name in ("a", "u") or (name == "r" and n is not None and n != 0):
                self._eof_indication({"a": "readany", "u": "readuntil/readline", "r": "read"}[name])
        return f"D:b:{hx(data)}"

    def _step_coro(self, tok):
        """Advance the reader coroutine until it finishes or awaits an unfinished future."""
        try:
            fut = self.coro.send(None)
        except StopIteration as e:
            return self._finish(tok, "ret", e.value)
        except BaseException as e:  # noqa
            return self._finish(tok, "exc", e)
        self.fut = fut
        return "B"

    def _start_async(self, tok, coro):
        self.cur_op = tok
        if self.use_tasks:
            self.coro = self.loop.create_task(coro)
            return self._pump_task()
        self.coro = coro
        return self._step_coro(tok)

    def _pump_task(self):
        self.loop.run_until_idle()
        t = self.coro
        if not t.done():
            return "B"
        tok = self.cur_op
        if t.exception() is not None:
            return self._finish(tok, "exc", t.exception())
        return self._finish(tok, "ret", t.result())

    def pending(self):
        return self.coro is not None

    def _waiting(self):
        """The suspended reader's waiter future is still pending."""
        if self.coro is None:
            return False
        if self.use_tasks:
            f = getattr(self.coro, "_fut_waiter", None)
            return f is not None and not f.done()
        return self.fut is not None and not self.fut.done()

    # -- one operation
    def apply(self, tok):
        s = self.stream
        op = tok.split(":")
        name = op[0]
        self._ends_before_op = list(self.ends)
        if name in ("r", "a", "u", "x", "n", "U", "il", "ic", "ia"):
            self.chunk_only = False
        pos_before = self.pos
        obs = "-"
        try:
            if name == "F":
                d = unhex(op[1])
                s.feed_data(d)
                self._fed(d)
                if d and self._idle_or_plain() and self.exact:
                    buffered = len(self.expected) - self.pos
                    high = s.get_read_buffer_limits()[1]
                    if buffered > high and not self.paused():
                        self._flag("pause", f"feed_data left {buffered} bytes buffered (> high water {high}) with the transport reading")
            elif name == "B":
                s.begin_http_chunk_receiving()
                self.proto.chunked = True
            elif name == "E":
                s.end_http_chunk_receiving()
                self._fed(None)
            elif name == "Z":
                s.feed_eof()
                self.eof_fed = True
            elif name == "X":
                s.set_exception(StreamErr(int(op[1])))
            elif name == "Q":
                self.proto.pending.append(unhex(op[1]))
            elif name == "QE":
                self.proto.pending.append(None)
            elif name == "R":
                if self.coro is None:
                    obs = "-"
                elif self.use_tasks:
                    obs = self._pump_task()
                    obs = "P" if obs == "B" else obs
                elif self.fut is not None and self.fut.done():
                    obs = self._step_coro(self.cur_op)
                    obs = "P" if obs == "B" else obs
                else:
                    obs = "P"
            elif name in ("n", "U", "s"):
                if name == "n":
                    n = int(op[1])
                    if self.coro is not None and not self._waiting():
                        return self._obs("NE")      # a second reader while one is woken: outside the discipline
                    try:
                        v = s.read_nowait(n)
                    except BaseException as e:  # noqa
                        saved = (self.coro, self.fut)
                        obs = self._finish(tok, "exc", e)
                        self.coro, self.fut = saved
                    else:
                        saved = (self.coro, self.fut)
                        obs = self._finish(tok, "ret", v)
                        self.coro, self.fut = saved
                elif name == "U":
                    d = unhex(op[1])
                    if self.coro is not None:
                        return self._obs("NE")
                    with warnings.catch_warnings():
                        warnings.simplefilter("ignore")
                        s.unread_data(d)
                    if d:
                        self.expected[self.pos:self.pos] = d
                        self.unread_used = True
                    obs = "D:n"
                else:
                    s.set_read_chunk_size(int(op[1]))
                    obs = "D:n"
            else:
                if name == "ic":
                    it = s.iter_chunked(int(op[1]))      # sets the chunk size even if a reader is suspended
                if self.coro is not None:
                    return self._obs("NE")
                if name == "r":
                    coro = s.read(int(op[1]))
                elif name == "a":
                    coro = s.readany()
                elif name == "u":
                    mx = int(op[2])
                    coro = s.readuntil(unhex(op[1]), max_size=(mx if mx != 0 else None))
                elif name == "x":
                    coro = s.readexactly(int(op[1]))
                elif name == "c":
                    coro = s.readchunk()
                elif name == "il":
                    coro = s.__aiter__().__anext__()
                elif name == "ic":
                    coro = it.__anext__()
                elif name == "ia":
                    coro = s.iter_any().__anext__()
                elif name == "ik":
                    coro = s.iter_chunks().__anext__()
                else:
                    raise ValueError("bad token " + tok)
                obs = self._start_async(tok, coro)
        except (RuntimeError, AssertionError) as e:
            obs = "E:RT" if isinstance(e, RuntimeError) else "E:AS"
        # ---- property checks that look at the state after the operation
        if obs.startswith("D:") and self.pos > pos_before and self.coro is None and self.exact and not self.proto.chunked \
                and not self.eof_fed:     # after EOF nothing is resumed any more (b336e09); feed_eof resumed
            low = s.get_read_buffer_limits()[0]
            buffered = len(self.expected) - self.pos
            if buffered < low and self.paused():
                self._flag("resume", f"{tok} left {buffered} bytes buffered (< low water {low}) with the transport still paused")
        if obs.startswith("D:") and self.coro is None and self.exact and not self.unread_used and not self.eof_fed \
                and self.limit >= 0 and name not in ("s", "U"):
            # on an open stream the buffer only grows through feed_data (also when the parser feeds held input
            # from inside a read), which pauses above high water; nothing resumes while size >= low water
            high = s.get_read_buffer_limits()[1]
            buffered = len(self.expected) - self.pos
            if buffered > high and not self.paused():
                self._flag("pause", f"{tok} left {buffered} bytes buffered (> high water {high}) with the transport reading")
        if self.coro is not None and name not in ("F", "B", "E", "Z", "X", "Q", "QE", "n", "s") and obs in ("B", "P"):
            blocked = self.fut is not None and not self.fut.done() if not self.use_tasks else True
            if blocked and s.exception() is not None:
                self._flag("exc_hang", f"after {tok} the reader is suspended waiting for data although an exception is set on the stream")
            if blocked and self.paused():
                self._flag("not_stuck", f"after {tok} the reader is suspended waiting for data while the transport is paused "
                                        f"(limit={self.limit})")
        return self._obs(obs)

    def _idle_or_plain(self):
        if self.coro is None:
            return True
        return self.cur_op.split(":")[0] in ("a", "c", "ia", "ik") or (self.cur_op.split(":")[0] in ("r", "ic") and int(self.cur_op.split(":")[1]) > 0)

    def _obs(self, obs):
        s = self.stream
        low, high = s.get_read_buffer_limits()
        return "|".join([obs, "1" if self.paused() else "0", "1" if s.at_eof() else "0", str(s.total_bytes),
                         str(low), str(high), "1" if s.is_eof() else "0", "1" if self.coro is not None else "0"])

    def close(self):
        if self.coro is not None:
            if self.use_tasks:
                self.coro.cancel()
                self.loop.run_until_idle()
            else:
                self.coro.close()
            self.coro = None


# ------------------------------------------------------------------------------------------------
# model side

def model_tokens(toks):
    """Translate harness tokens to driver tokens; returns (driver tokens, index of the last driver token per op)."""
    out, last = [], []
    for t in toks:
        op = t.split(":")
        if op[0] == "il":
            out.append("u:0a:0")
        elif op[0] == "ic":
            out.append("s:" + op[1])
            out.append("r:" + op[1])
        elif op[0] == "ia":
            out.append("a")
        elif op[0] == "ik":
            out.append("c")
        else:
            out.append(t)
        last.append(len(out) - 1)
    return out, last


def _num(s):
    neg = s.startswith("-")
    s = s.lstrip("-")
    v = int(s[1:], 2) if s.startswith("b") else int(s)
    return -v if neg else v


def canon_model(tok, field):
    obs, p, ae, total, low, high, iseof, task = field.split("|")
    lost = None
    if obs.startswith("D:x:"):
        parts = obs.split(":")
        exn = parts[2]
        lost = parts[3] if len(parts) > 3 else None
        if exn.startswith("INC,"):
            _, ph, ex = exn.split(",")
            exn = f"INC,{ph},{_num(ex)}"
        obs = "D:x:" + exn
    if tok == "R" and obs in ("-", "B"):
        obs = "P" if task == "1" else "-"
    return "|".join([obs, p, ae, str(_num(total)), str(_num(low)), str(_num(high)), iseof, task]), lost


def run_model_cases(exe, cases):
    lines, maps = [], []
    if not cases:
        return []
    for limit, toks in cases:
        mt, last = model_tokens(toks)
        lines.append(f"RUN {limit} " + " ".join(mt))
        maps.append(last)
    outs = fw.run_model(exe, lines)
    res = []
    for (limit, toks), last, line in zip(cases, maps, outs):
        fields = line.split(" ") if line != "-" else []
        if line.startswith("EXN") or line == "BADREQ":
            res.append(([line], []))
            continue
        obs, losts = [], []
        for t, i in zip(toks, last):
            o, lost = canon_model(t, fields[i])
            obs.append(o)
            losts.append(lost)
        res.append((obs, losts))
    return res


# ------------------------------------------------------------------------------------------------
# running cases

def run_impl_case(loop, limit, toks, use_tasks=False):
    im = Impl(limit, loop, use_tasks)
    obs = []
    try:
        for t in toks:
            obs.append(im.apply(t))
    finally:
        im.close()
    return obs, im.bad, im


def shrink(loop, limit, toks, kind):
    """Greedy removal of operations while a violation of the same kind remains."""
    def fails(ts):
        try:
            _, bad, _ = run_impl_case(loop, limit, ts)
        except Exception:  # noqa
            return False
        return any(k == kind for k, _ in bad)
    cur = list(toks)
    changed = True
    while changed:
        changed = False
        for i in range(len(cur) - 1, -1, -1):
            cand = cur[:i] + cur[i + 1:]
            if cand and fails(cand):
                cur = cand
                changed = True
    return cur


def check_cases(ctx, exe, loop, suite, cases, use_tasks=False):
    model = run_model_cases(exe, cases) if exe else [(None, None)] * len(cases)
    ran = 0
    for (limit, toks), (mobs, losts) in zip(cases, model):
        try:
            iobs, bad, im = run_impl_case(loop, limit, toks, use_tasks)
        except Exception as e:  # noqa
            import traceback
            ctx.violation({"suite": suite, "limit": limit, "ops": toks, "kind": "crash"},
                          f"implementation raised outside the modelled exceptions: {traceback.format_exc()[-600:]}")
            continue
        ran += 1
        ctx.case((limit, tuple(iobs)), nontrivial=im.returned_bytes > 0)
        for t in toks:
            ctx.count("op:" + t.split(":")[0])
        ctx.count(f"limit:{limit if limit in (0, 1, 2, 3, 4, 8) else 'other'}")
        for o in iobs:
            x = o.split("|")[0]
            if x.startswith("D:x:") or x.startswith("E:"):
                ctx.count("error:" + x.split(":")[2 if x.startswith("D:x:") else 1].split(",")[0].rstrip("0123456789"))
            elif x in ("B", "P"):
                ctx.count("blocked")
        if mobs is not None and iobs != mobs:
            k = next((i for i, (a, b) in enumerate(zip(iobs, mobs)) if a != b), min(len(iobs), len(mobs)))
            ctx.disagreement(suite, {"limit": limit, "ops": toks[:k + 1]}, mobs[:k + 1][-3:], iobs[:k + 1][-3:])
        seen = set()
        for kind, msg in bad:
            if kind in seen:
                continue
            seen.add(kind)
            small = shrink(loop, limit, toks, kind) if len(toks) <= 80 else toks
            _, bad2, _ = run_impl_case(loop, limit, small)
            msg2 = next((m for k2, m in bad2 if k2 == kind), msg)
            ctx.violation({"suite": suite, "limit": limit, "ops": small, "kind": kind}, f"{kind}: {msg2}  [limit={limit} ops={' '.join(small)}]")
    return ran


# ------------------------------------------------------------------------------------------------
# generators

SEPS = [b"\n", b"ab", b"\r\n"]
ALPH = b"ab\n\rcd"


def rand_bytes(rng, n):
    return bytes(rng.choice(ALPH) for _ in range(n))


def rand_size(rng, low, high):
    r = rng.random()
    if r < 0.08:
        return 0
    if r < 0.35:
        return rng.choice([1, 2, 3])
    if r < 0.50:
        return max(low, 1)
    if r < 0.65:
        return high + 1
    if r < 0.75:
        return max(1, low - 1)
    return rng.randint(1, max(2, 2 * high + 2))


def gen_random_case(rng, loop, maxlen):
    """Adaptive generation: the next operation is chosen knowing whether the reader is suspended
    (so no operation is wasted); only the implementation's pending flag is consulted."""
    limit = rng.choice([0, 1, 1, 2, 2, 3, 4, 4, 5, 8, 8, 16, 31, 32, 64, 96, 160])
    if limit > 16:
        limit = rng.choice([limit, 4, 8])
    n = rng.randint(1, maxlen)
    chunky = rng.random() < 0.55
    im = Impl(limit, loop)
    toks = []
    p_prod = rng.choice([0.35, 0.5, 0.65])
    try:
        for _ in range(n):
            low, high = im.stream.get_read_buffer_limits()
            low = min(low, 64)
            high = min(high, 128)
            pend = im.pending()
            r = rng.random()
            if pend and r < 0.30:
                t = "R"
            elif r < p_prod or pend:
                q = rng.random()
                if q < 0.50:
                    t = "F:" + hx(rand_bytes(rng, rand_size(rng, low, high)))
                elif q < 0.58 and chunky:
                    t = "B"
                elif q < 0.74 and chunky:
                    t = "E"
                elif q < 0.80:
                    t = "Z" if rng.random() < 0.6 else "R"
                elif q < 0.83:
                    t = f"X:{rng.randint(1, 3)}"
                elif q < 0.93:
                    t = "Q:" + hx(rand_bytes(rng, rand_size(rng, low, high)))
                elif chunky:
                    t = "QE"
                else:
                    t = "F:" + hx(rand_bytes(rng, rng.randint(1, 4)))
                if pend and rng.random() < 0.1:
                    t = rng.choice(["n:-1", "n:1", f"s:{rng.randint(0, 2 * high + 2)}"])
            else:
                q = rng.random()
                nn = rng.choice([1, 2, 3, max(low, 1), high + 1, rng.randint(1, 2 * high + 2)])
                if q < 0.18:
                    t = f"r:{nn}"
                elif q < 0.23:
                    t = "r:-1"
                elif q < 0.25:
                    t = "r:0"
                elif q < 0.37:
                    t = "a"
                elif q < 0.50:
                    t = f"u:{hx(rng.choice(SEPS))}:{rng.choice([0, 0, 0, 1, 2, 3, 5, 8])}"
                elif q < 0.58:
                    t = f"x:{rng.choice([nn, nn, 0, -1])}"
                elif q < 0.76 and chunky or q < 0.62:
                    t = "c"
                elif q < 0.82:
                    t = f"n:{rng.choice([-1, -1, 0, 1, 2, nn])}"
                elif q < 0.85:
                    t = "U:" + hx(rand_bytes(rng, rng.randint(0, 3)))
                elif q < 0.88:
                    t = f"s:{rng.randint(0, 2 * high + 2)}"
                elif q < 0.91:
                    t = "il"
                elif q < 0.94:
                    t = f"ic:{rng.choice([1, 2, nn])}"
                elif q < 0.97:
                    t = "ia"
                else:
                    t = "ik" if chunky else "ia"
            toks.append(t)
            im.apply(t)
    finally:
        im.close()
    return limit, toks


EXH_ALPHABET = ["F:61", "F:610a62", "F:6161616161", "B", "E", "Z", "Q:6162", "R", "a", "r:2", "c", "u:0a:0", "x:3", "n:-1"]
EXH_SMALL = ["F:610a62", "F:6161616161", "B", "E", "Z", "Q:6162", "R", "a", "r:2", "c", "u:0a:0", "x:3"]


def gen_exhaustive(limit, alphabet, length):
    for seq in itertools.product(alphabet, repeat=length):
        # prune: a sequence that starts with R or whose consumer never runs adds nothing new
        if seq[0] == "R":
            continue
        yield limit, list(seq)


def load_corpus():
    cases = []
    for p in sorted(glob.glob(os.path.join(fw.VERIF, "corpus", "C08", "*.json"))):
        j = json.load(open(p))
        c = j.get("case", j)
        cases.append((p, int(c["limit"]), list(c["ops"])))
    return cases


# ------------------------------------------------------------------------------------------------

def run(ctx):
    ok, exe = build_model()
    ctx.oblige("model-runner-build", "correspondence", ok, "" if ok else exe)
    if not ok:
        exe = None      # no model: the property oracle still searches the implementation
    from harness.common.loop import VLoop
    loop = VLoop()
    asyncio.set_event_loop(loop)
    try:
        ctx.oblige("sys.maxsize", "correspondence", sys.maxsize == 9223372036854775807, f"sys.maxsize={sys.maxsize}")
        # corpus
        corpus = load_corpus()
        ran = check_cases(ctx, exe, loop, "corpus", [(l, t) for _, l, t in corpus])
        ctx.close_suite("corpus", ran)
        # exhaustive
        if ctx.quick:
            plan = [(2, EXH_ALPHABET, 3), (1, EXH_SMALL, 4), (0, EXH_SMALL, 3)]
        else:
            plan = [(2, EXH_ALPHABET, 4), (1, EXH_SMALL, 5), (3, EXH_SMALL, 5), (0, EXH_SMALL, 4)]
        ran = 0
        for limit, alph, ln in plan:
            batch = []
            for case in gen_exhaustive(limit, alph, ln):
                batch.append(case)
                if len(batch) >= 20000:
                    ran += check_cases(ctx, exe, loop, "exhaustive", batch)
                    batch = []
            if batch:
                ran += check_cases(ctx, exe, loop, "exhaustive", batch)
        ctx.close_suite("exhaustive", ran)
        # random
        nrand = 6000 if ctx.quick else 150000
        ran = 0
        done = 0
        while done < nrand:
            k = min(5000, nrand - done)
            batch = [gen_random_case(ctx.rng, loop, 60) for _ in range(k)]
            ran += check_cases(ctx, exe, loop, "random", batch)
            done += k
            if done == k:
                ctx.sample({"suite": "random", "limit": batch[0][0], "ops": batch[0][1]})
                ctx.sample({"suite": "random", "limit": batch[1][0], "ops": batch[1][1]})
        ctx.close_suite("random", ran)
        # the same kind of cases with the reader as a real asyncio Task on the virtual-time loop
        ntask = 800 if ctx.quick else 20000
        batch = [gen_random_case(ctx.rng, loop, 40) for _ in range(ntask)]
        ran = check_cases(ctx, exe, loop, "random_as_task", batch, use_tasks=True)
        ctx.traces_validated += ran
        ctx.close_suite("random_as_task", ran)
    finally:
        asyncio.set_event_loop(None)
        loop.close()


def replay(ctx, case):
    ok, exe = build_model()
    from harness.common.loop import VLoop
    loop = VLoop()
    asyncio.set_event_loop(loop)
    try:
        limit, toks = int(case["limit"]), list(case["ops"])
        iobs, bad, im = run_impl_case(loop, limit, toks)
        mobs, losts = run_model_cases(exe, [(limit, toks)])[0] if ok else (["<model runner not built>"], [])
        kind = case.get("kind")
        hit = [(k, m) for k, m in bad if kind is None or k == kind]
        return {"limit": limit, "ops": toks, "impl": iobs, "model": mobs, "agree": iobs == mobs,
                "violates": bool(hit), "why": [f"{k}: {m}" for k, m in (hit or bad)]}
    finally:
        asyncio.set_event_loop(None)
        loop.close()
