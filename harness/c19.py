"""C19 — multipart codec round trip, truthful size, reader termination."""
from __future__ import annotations

import asyncio
import base64
import binascii
import json
import os
import warnings
import zlib
from unittest import mock

from harness.common import framework as fw

PROP = "C19"
GENERATED = ["MultipartGen.v", "HttpGen.v"]
RULE = ("bodies are produced by the real MultipartWriter / FormData (part contents from a grammar rich in CR/LF runs, "
        "boundary prefixes and near-boundary patterns, sizes around 8192 and around the boundary-length window; "
        "identity / base64 / quoted-printable / gzip / deflate parts) or derived from such bodies by byte mutation; "
        "each body is delivered under a generated segmentation (segment sizes, arrival delays counted in stream "
        "operations, eager or late EOF) and read with a generated API schedule per part (read, read_chunk sizes, "
        "readline, release, skip); limit scenarios deliver over-long header lines / too many header lines / oversized parts "
        "in small segments that arrive only on demand; the post suite sends FormData bodies through BaseRequest.post() "
        "with client_max_size around the body size.  Non-trivial = at least one part was delivered without error; "
        "distinct by hash of (wire bytes, segmentation, schedule, observable).")
TRUSTED = [
    "translator/gen_multipart.py (size formula, framing shapes, constants, _BASE64_CHARS, window-search formula)",
    "extraction: ExtrOcamlBasic only; ocaml/common/conv.ml + ocaml/C19/driver.ml (hex/decimal I/O)",
    "correspondence harness harness/c19.py: sampled, not proved; the segmented stream (TickStream) subclasses the real "
    "StreamReader and only decides WHEN bytes arrive",
    "modelled, not verified: CPython bytes methods, multidict, base64/binascii/zlib (round-trip laws sampled), "
    "HeadersParser details beyond name/value splitting and the character classes generated for C01",
]
ASSUMPTIONS = [
    "Python implementation only (AIOHTTP_NO_EXTENSIONS=1).",
    "Model/implementation agreement is validated on the generated cases only.",
    "Stream segments are non-empty (feed_data(b'') is a no-op in StreamReader).",
]

HIGH = 2 ** 16  # StreamReader limit used by the harness (low water); high water = 2 * limit


# ----------------------------------------------------------------------------------------------
# implementation side: a StreamReader whose data arrives on a schedule counted in stream operations

def _mk_stream_cls():
    from aiohttp.streams import StreamReader

    class TickStream(StreamReader):
        """segs: list of [delay, bytes].  Before every read()/readuntil() the head delay is decremented and
        every head segment whose delay is 0 arrives; when the reader has to wait, the head segment arrives
        alone.  eager: feed_eof() together with the last segment; else only when the reader waits again."""

        def setup(self, segs, eager):
            self._segs = [[int(d), bytes(b)] for d, b in segs]
            self._eager = eager
            self.ops = 0
            self.waits = 0
            if eager and not self._segs:
                self.feed_eof()

        def _arrived(self):
            if self._eager and not self._segs and not self._eof:
                self.feed_eof()

        def _tick(self):
            self.ops += 1
            if self.ops > getattr(self, "max_ops", 10 ** 9):
                raise StepLimit("stream operations")
            if self._eof:
                return
            if self._segs and self._segs[0][0] > 0:
                self._segs[0][0] -= 1
            while self._segs and self._segs[0][0] == 0:
                self.feed_data(self._segs.pop(0)[1])
            self._arrived()

        def force(self):
            self.waits += 1
            if self._segs:
                self.feed_data(self._segs.pop(0)[1])
                self._arrived()
            else:
                self.feed_eof()

        async def read(self, n=-1):
            self._tick()
            return await super().read(n)

        async def readuntil(self, separator=b"\n", *, max_size=None):
            self._tick()
            return await super().readuntil(separator, max_size=max_size)

    return TickStream


_loop = None
_TickStream = None


def get_loop():
    global _loop
    if _loop is None:
        _loop = asyncio.new_event_loop()
    return _loop


def make_stream(segs, eager):
    global _TickStream
    if _TickStream is None:
        _TickStream = _mk_stream_cls()
    proto = mock.Mock()
    proto.connected = True
    proto._reading_paused = False
    s = _TickStream(proto, HIGH, loop=get_loop())
    s.setup(segs, eager)
    return s


class StepLimit(Exception):
    pass


def drive(coro, stream, max_waits=1_000_000):
    """Run a coroutine by hand; whenever it blocks on the stream's waiter the next segment (or EOF) arrives."""
    loop = get_loop()
    asyncio._set_running_loop(loop)
    try:
        while True:
            try:
                fut = coro.send(None)
            except StopIteration as e:
                return e.value
            if fut is not None and fut is stream._waiter:
                stream.force()
                if stream.waits > max_waits:
                    coro.close()
                    raise StepLimit("waits")
            elif fut is None:
                continue
            else:
                asyncio._set_running_loop(None)
                try:
                    loop.run_until_complete(asyncio.wait([fut]))
                finally:
                    asyncio._set_running_loop(loop)
    finally:
        asyncio._set_running_loop(None)


# ----------------------------------------------------------------------------------------------
# writer side (real MultipartWriter / FormData)

class _Rec:
    """AbstractStreamWriter stand-in recording every write()."""

    def __init__(self):
        self.calls = []

    async def write(self, d):
        self.calls.append(bytes(d))


class _NoStream:
    _waiter = object()


import io


class Dribble(io.RawIOBase):
    """a file-like object of unknown size (no fileno, no tell) whose reads are short: the i-th read returns at most
    steps[i % len(steps)] bytes - like an unbuffered pipe or socket; EOF only when a read returns nothing"""

    def __init__(self, data: bytes, steps):
        super().__init__()
        self._src = io.BytesIO(data)
        self._steps = list(steps) or [1]
        self._i = 0

    def readable(self):
        return True

    def readinto(self, b):
        step = self._steps[self._i % len(self._steps)]
        self._i += 1
        chunk = self._src.read(min(len(b), step))
        b[: len(chunk)] = chunk
        return len(chunk)


class Nested:
    """a nested multipart part: what was given to the outer writer"""

    def __init__(self, spec, origs, wire, wparts):
        self.spec, self.origs, self.wire, self.wparts = spec, origs, wire, wparts


def _open_file(w, p, content, opened):
    """a real file object (fileno, fstat) holding `content`, positioned at p['file']['pre']; the same object again
    for `same_as`"""
    import tempfile
    fs = p["file"]
    if fs.get("same_as") is not None and fs["same_as"] in opened:
        return opened[fs["same_as"]]
    f = tempfile.TemporaryFile()
    f.write(content)
    f.flush()
    f.seek(fs.get("pre", 0))
    w_files = w.setdefault("files", [])
    w_files.append(f)
    return f


def _touch(f, n):
    """the application uses the file for something else: read n bytes (-1: to the end) / rewind (-2)"""
    def go():
        if n == -2:
            f.seek(0)
        else:
            f.read(None if n < 0 else n)
    return go


def build_writer(spec):
    """spec -> (MultipartWriter, [what each part was given: content bytes, or Nested]).  File parts are real
    temporary files; w._c19 holds them and the actions to run between taking the size and writing."""
    from aiohttp import FormData
    from aiohttp.multipart import MultipartWriter
    from multidict import CIMultiDict
    kind = spec["kind"]
    origs = []
    aux = {"files": [], "after_size": []}
    opened = {}

    def file_value(i, p, content):
        f = _open_file(aux, p, content, opened)
        opened[i] = f
        fs = p["file"]
        pre = fs.get("pre", 0) if fs.get("same_as") is None else spec["parts"][fs["same_as"]]["file"].get("pre", 0)
        if fs.get("touch_size") is not None:
            aux["after_size"].append(_touch(f, fs["touch_size"]))
        return f, content[pre:]

    if kind == "formdata":
        fd = FormData(quote_fields=spec.get("quote_fields", True), boundary=spec["boundary"], default_to_multipart=True,
                      charset=spec.get("charset"))
        for i, p in enumerate(spec["parts"]):
            content = bytes.fromhex(p["content"])
            if p.get("file"):
                val, content = file_value(i, p, content)
            elif p.get("raw"):
                val = Dribble(content, p["raw"]["steps"])
            elif p.get("str"):
                val = content.decode("utf-8")
                content = val.encode(spec.get("charset") or "utf-8")      # a str value is sent in the form's charset
            else:
                val = content
            fd.add_field(p["name"], val, content_type=p.get("ctype"), filename=p.get("filename"))
            origs.append(content)
        w = fd()
        w._c19 = aux
        return w, origs
    w = MultipartWriter(kind, boundary=spec["boundary"])
    w._c19 = aux
    for i, p in enumerate(spec["parts"]):
        hs = CIMultiDict()
        for k, v in p.get("headers", []):
            hs.add(k, v)
        if p.get("nested"):
            iw, iorigs = build_writer(p["nested"])
            iwire, iwparts, _ = write_out(iw, iorigs)
            iw2, _ = build_writer(p["nested"])
            w.append(iw2, hs)
            origs.append(Nested(p["nested"], iorigs, iwire, iwparts))
            continue
        content = bytes.fromhex(p["content"])
        if p.get("cte"):
            hs["Content-Transfer-Encoding"] = p["cte"]
        if p.get("ce"):
            hs["Content-Encoding"] = p["ce"]
        if p.get("ctype"):
            hs["Content-Type"] = p["ctype"]
        if p.get("file"):
            val, content = file_value(i, p, content)
        elif p.get("raw"):
            val = Dribble(content, p["raw"]["steps"])
        else:
            val = content.decode("utf-8") if p.get("str") else content
        pl = w.append(val, hs)
        if p.get("file") and p["file"].get("touch_append") is not None:
            _touch(val, p["file"]["touch_append"])()
        if kind == "form-data" and p.get("name") is not None:
            pl.set_content_disposition("form-data", quote_fields=spec.get("quote_fields", True), name=p["name"],
                                       **({"filename": p["filename"]} if p.get("filename") is not None else {}))
        origs.append(content)
    return w, origs


def leaves(spec, origs, wparts):
    """the body parts (not the nested readers) in the order a depth-first reader meets them"""
    out = []
    for ps, orig, wp in zip(spec["parts"], origs, wparts):
        if isinstance(orig, Nested):
            out += leaves(orig.spec, orig.origs, orig.wparts)
        else:
            out.append({"ps": ps, "orig": orig, "wp": wp, "kind": spec["kind"]})
    return out


class FramingError(Exception):
    pass


def write_out(w, origs):
    """-> (wire bytes, [(binary_headers, wire body, identity)] per part, declared size).  The parts are located in
    the written bytes themselves (not by write() call boundaries): opening delimiter, the payload's header block,
    the content (known for identity parts, up to the next delimiter for encoded ones), CRLF; closing delimiter."""
    rec = _Rec()
    aux = getattr(w, "_c19", {"files": [], "after_size": []})
    try:
        declared = w.size            # what a client puts into Content-Length, taken before the body is sent
        known = [pl.size is not None for pl, _e, _t in w._parts]
        for act in aux["after_size"]:
            act()
        drive(w.write(rec), _NoStream)
    finally:
        for f in aux["files"]:
            f.close()
    wire = b"".join(rec.calls)
    try:
        return _locate_parts(w, origs, known, wire, declared)
    except FramingError as e:
        raise FramingError(f"{e}; declared size {declared}, {len(wire)} bytes written") from None


def _locate_parts(w, origs, known, wire, declared):
    opening = b"--" + w._boundary + b"\r\n"
    closing = b"--" + w._boundary + b"--\r\n"
    delim = b"\r\n--" + w._boundary
    parts = []
    pos = 0
    for (pl, enc, te), orig, kn in zip(w._parts, origs, known):
        if not wire.startswith(opening, pos):
            raise FramingError(f"opening delimiter expected at offset {pos}")
        pos += len(opening)
        bh = pl._binary_headers
        if not wire.startswith(bh, pos):
            raise FramingError(f"header block of the part expected at offset {pos}")
        pos += len(bh)
        if enc or te:
            end = wire.find(delim, pos)
            if end < 0:
                raise FramingError(f"no delimiter after the encoded content starting at offset {pos}")
            body = wire[pos:end]
        else:
            body = orig.wire if isinstance(orig, Nested) else orig
            if not wire.startswith(body, pos) or not wire.startswith(b"\r\n", pos + len(body)):
                raise FramingError(f"content of the identity part ({len(body)} bytes given to the writer) expected at offset {pos}")
        pos += len(body)
        if not wire.startswith(b"\r\n", pos):
            raise FramingError(f"CRLF expected after the content at offset {pos}")
        pos += 2
        parts.append((bh, body, not (enc or te) and kn))     # size known: enters MultipartWriter.size
    if wire[pos:] != closing:
        raise FramingError(f"closing delimiter expected at offset {pos}")
    return wire, parts, declared


def expected_name(pspec, got):
    """field names / filenames: verbatim or a percent-encoded form that decodes to the original"""
    from urllib.parse import unquote
    if got == pspec:
        return True
    if got is None or pspec is None:
        return False
    try:
        return unquote(got, "utf-8", "strict") == pspec
    except Exception:  # noqa
        return False


# ----------------------------------------------------------------------------------------------
# reader side (real MultipartReader over TickStream)

BIG = 2 ** 62 - 1


class MaxSize(Exception):
    pass


def err_class(e):
    from aiohttp.http_exceptions import BadHttpMessage, InvalidHeader, LineTooLong
    if isinstance(e, MaxSize):
        return "maxsize"
    if isinstance(e, LineTooLong):
        return "linetoolong"
    if isinstance(e, InvalidHeader):
        return "invalidheader"
    if isinstance(e, BadHttpMessage):
        return "badhttp"
    if isinstance(e, AssertionError):
        return "assert"
    if isinstance(e, ValueError):
        return "value"
    return "ESCAPED:" + type(e).__name__


def hdr_pairs(headers):
    return [(k.encode("utf-8", "surrogateescape"), v.encode("utf-8", "surrogateescape")) for k, v in headers.items()]


async def _read_all(ctype, stream, sched, limits, rec):
    """Drive the real reader depth-first (a nested MultipartReader is walked to its end); rec gets: items (leaf parts
    and nested markers in order), parts (the leaves), final, and counters."""
    from aiohttp.multipart import BodyPartReader, MultipartReader
    top = MultipartReader({"Content-Type": ctype}, stream, client_max_size=limits.get("client_max", BIG),
                          max_field_size=limits.get("max_field", 8190), max_headers=limits.get("max_headers", 128),
                          max_size_error_cls=MaxSize)
    rec["boundary"] = top._boundary
    counter = [0]

    async def walk(r):
        while True:
            rec["phase"] = ("next", counter[0], stream._cursor)
            part = await r.next()
            if part is None:
                return
            if not isinstance(part, BodyPartReader):
                rec["items"].append({"nested": True, "headers": hdr_pairs(part.headers)})
                await walk(part)
                continue
            i = counter[0]
            a = sched[i] if i < len(sched) else ["R"]
            counter[0] += 1
            rec["phase"] = ("part", i + 1, stream._cursor)
            info = {"headers": hdr_pairs(part.headers), "chunks": [], "api": a, "part": part, "cursor0": stream._cursor}
            rec["cur"] = info
            calls = 0
            if a[0] == "R":
                info["chunks"].append(bytes(await part.read()))
            elif a[0] == "C":
                sizes = list(a[2]) or [8192]
                while not part.at_eof() and (a[1] == 0 or calls < a[1]):
                    info["chunks"].append(bytes(await part.read_chunk(sizes[calls % len(sizes)])))
                    calls += 1
            elif a[0] == "L":
                while not part.at_eof() and (a[1] == 0 or calls < a[1]):
                    info["chunks"].append(bytes(await part.readline()))
                    calls += 1
            elif a[0] == "X":
                await part.release()
            info["eof"] = part.at_eof()
            info["name"], info["filename"] = part.name, part.filename
            rec["parts"].append(info)
            rec["items"].append(info)
            rec["cur"] = None

    await walk(top)
    rec["final"] = "END"


def impl_run(ctype, segs, eager, sched, limits, max_ops=None):
    stream = make_stream(segs, eager)
    total = sum(len(b) for _, b in segs)
    stream.max_ops = max_ops if max_ops is not None else 40 * total + 20000
    rec = {"parts": [], "items": [], "final": None, "cur": None}
    with warnings.catch_warnings():
        warnings.simplefilter("ignore")
        try:
            drive(_read_all(ctype, stream, sched, limits, rec), stream, max_waits=len(segs) + 1000)
        except StepLimit as e:
            rec["final"] = "NONTERMINATION"
        except Exception as e:  # noqa
            rec["final"] = "ERR " + err_class(e)
            rec["exc"] = repr(e)[:200]
    rec["ops"], rec["waits"], rec["cursor"], rec["fed"] = stream.ops, stream.waits, stream._cursor, stream.total_bytes
    return rec


def obs_of_impl(rec):
    out = []
    for p in rec["items"]:
        hs = ";".join(k.hex() + "=" + (v.hex() or "-") for k, v in p["headers"]) or "-"
        if p.get("nested"):
            out.append("N " + hs)
        else:
            out.append("P " + hs + " " + fw.hexs(b"".join(p["chunks"])) + " " + ("1" if p["eof"] else "0"))
    out.append(rec["final"])
    return " | ".join(out)


def sched_str(sched):
    toks = []
    for a in sched:
        if a[0] == "C":
            toks.append("C%d:%s" % (a[1], "/".join(str(z) for z in (a[2] or [8192]))))
        elif a[0] == "L":
            toks.append("L%d" % a[1])
        else:
            toks.append(a[0])
    return ",".join(toks) or "-"


def model_line(boundary, form, segs, eager, sched, limits):
    total = sum(len(b) for _, b in segs)
    fuel = 2 * total + 64
    sg = ",".join("%d:%s" % (d, bytes(b).hex()) for d, b in segs) or "-"
    return "RUN %d %s %d %d %d %d %d %d %s %s" % (
        fuel, fw.hexs(boundary), 1 if form else 0, limits.get("max_field", 8190), limits.get("max_headers", 128),
        limits.get("client_max", BIG), HIGH, 1 if eager else 0, sg, sched_str(sched))


# ----------------------------------------------------------------------------------------------
# generators

BOUNDARIES = ["b", "BND", "x-y_z.0", "0123456789abcdef0123456789abcdef", "B" * 70, "a'b+c", "with space", "q:r=s",
              "----WebKitFormBoundary7MA4YWxkTrZu0gW", "--", "-"]


def gen_content(rng, boundary: bytes, target=None, text=False):
    """Bytes rich in CR/LF runs, dashes and proper prefixes of the delimiter; never containing the delimiter
    CRLF--boundary (also not across the CRLF that precedes the content)."""
    delim = b"\r\n--" + boundary
    if target is None:
        r = rng.random()
        blen = len(boundary) + 4
        if r < 0.35:
            target = rng.randint(0, 40)
        elif r < 0.60:
            target = max(0, rng.choice([blen, 2 * blen, 3 * blen]) + rng.randint(-3, 3))
        elif r < 0.80:
            target = rng.randint(41, 400)
        elif r < 0.93:
            target = max(0, rng.choice([8192, 8192 - blen, 8192 + blen, 8192 - 2]) + rng.randint(-4, 4))
        else:
            target = max(0, rng.choice([16384, 16384 + blen, 12000]) + rng.randint(-4, 4))
    toks = [b"\r", b"\n", b"\r\n", b"-", b"--", b"\r\n-", b"\r\n--", b"\n--" + boundary, b"--" + boundary,
            b"--" + boundary + b"--", b"\r\n\r\n", b"=", b" ", b"\t"]
    out = bytearray()
    while len(out) < target:
        r = rng.random()
        if r < 0.30:
            out += rng.choice(toks)
        elif r < 0.45:
            k = rng.randint(1, len(delim) - 1)
            out += delim[:k]
        elif r < 0.55 and not text:
            out += bytes(rng.randrange(256) for _ in range(rng.randint(1, 8)))
        elif r < 0.60 and target > 200:
            out += bytes([rng.choice(b"abcxyz")]) * rng.randint(20, min(3000, target))
        else:
            out += bytes(rng.choice(b"abcdefXYZ019 .,;") for _ in range(rng.randint(1, 12)))
    out = out[:target]
    # destroy accidental delimiters
    while True:
        i = (b"\r\n" + bytes(out)).find(delim)
        if i < 0:
            break
        j = i - 2 + len(delim) - 1
        out[j] = 0x41 if out[j] != 0x41 else 0x42
    return bytes(out)


def gen_text(rng, boundary: bytes, eol=None):
    eol = eol or rng.choice([b"\r\n", b"\n"])
    n = rng.choice([0, 1, 2, 3, 5, 20])
    lines = []
    for _ in range(n):
        r = rng.random()
        if r < 0.15:
            lines.append(b"")
        elif r < 0.30:
            lines.append(b"--" + boundary[: rng.randint(0, len(boundary))] + rng.choice([b"", b"x", b"--"]))
        elif r < 0.40:
            lines.append(bytes(rng.choice(b"ab =.-_?\t") for _ in range(rng.randint(60, 120))))
        else:
            lines.append(bytes(rng.choice(b"abcXYZ 019=.-_?\t") for _ in range(rng.randint(1, 30))))
    txt = eol.join(lines) + (eol if rng.random() < 0.5 and n else b"")
    delim = b"\r\n--" + boundary
    while delim in b"\r\n" + txt:
        txt = (b"\r\n" + txt).replace(delim, b"\r\n-+" + boundary)[2:]
    return txt


NAMES = ["a", "field", "f 1", "naïve", "x\"y", "a;b", "semi;colon;two", "back\\slash", "файл", "a=b", "sp ace ", " lead",
         "/abs", "\\\\unc", 'a";b', "per%20cent", "q'uote", "tab\tname", "日本語.txt", "a b", "_charset", "plus+", "*star", "x" * 80]


def _gen_spec_flat(rng, quick=True, kinds=None, boundary=None):
    kind = rng.choice(kinds or ["mixed", "mixed", "form-data", "formdata", "related"])
    boundary = boundary if boundary is not None else rng.choice(BOUNDARIES) if rng.random() < 0.8 else "".join(
        rng.choice("abcXYZ019'()+_,-./:=? ") for _ in range(rng.randint(1, 70))).strip() or "z"
    if boundary.endswith(" ") or boundary.startswith(" "):
        boundary = "s" + boundary.strip() + "e"
    bb = boundary.encode()
    nparts = rng.choice([0, 1, 1, 2, 2, 3, 4, 6])
    parts = []
    big_used = False
    for _ in range(nparts):
        p = {}
        enc = rng.random()
        if kind in ("form-data", "formdata"):
            p["name"] = rng.choice(NAMES) if rng.random() < 0.5 else "n%d" % rng.randint(0, 99)
            if rng.random() < 0.4:
                p["filename"] = rng.choice(NAMES)
            if rng.random() < 0.3:
                p["ctype"] = rng.choice(["text/plain", "application/octet-stream", "text/plain; charset=utf-8", "image/png"])
            if rng.random() < 0.3:
                p["content"] = gen_text(rng, bb).hex()
                p["str"] = True
            else:
                p["content"] = gen_content(rng, bb, None if not big_used else rng.randint(0, 60)).hex()
        else:
            if rng.random() < 0.3:
                p["headers"] = [["X-" + rng.choice(["A", "Bee", "c-d"]), rng.choice(["1", "v w", "é", ""])]]
            if enc < 0.50:
                p["content"] = gen_content(rng, bb, None if not big_used else rng.randint(0, 60)).hex()
                if rng.random() < 0.15:
                    p["cte"] = "binary"
                if rng.random() < 0.1:
                    p["ce"] = "identity"
            elif enc < 0.68:
                p["cte"] = "base64"
                p["content"] = gen_content(rng, bb, rng.choice([None, rng.randint(0, 20), 6141, 6144, 6145, 12288]) if not big_used else rng.randint(0, 60)).hex()
            elif enc < 0.80:
                p["cte"] = "quoted-printable"
                p["content"] = gen_text(rng, bb).hex()
                if rng.random() < 0.5:
                    p["str"] = True
            elif enc < 0.92:
                p["ce"] = rng.choice(["gzip", "deflate"])
                p["content"] = gen_content(rng, bb, None if not big_used else rng.randint(0, 60)).hex()
            else:
                p["ce"] = rng.choice(["gzip", "deflate"])
                p["cte"] = "base64"
                p["content"] = gen_content(rng, bb, rng.randint(0, 300)).hex()
        # header tokens are case-insensitive: the writer lower-cases them before acting, the reader must too
        for key in ("cte", "ce"):
            if p.get(key) and rng.random() < 0.45:
                p[key] = rng.choice([p[key].upper(), p[key].title(), p[key].capitalize(),
                                     "".join(c.upper() if rng.random() < 0.5 else c for c in p[key])])
        if len(p["content"]) > 8000:
            big_used = True
        parts.append(p)
    spec = {"kind": kind, "boundary": boundary, "parts": parts}
    if kind in ("form-data", "formdata"):
        spec["quote_fields"] = rng.random() < 0.6
    if kind == "formdata" and rng.random() < 0.6:
        # the form's charset governs how str VALUES are sent; names and file names stay utf-8 percent-encoded / verbatim
        spec["charset"] = rng.choice(["utf-8", "koi8-r", "cp1251", "latin-1"])
        for p in parts:
            if rng.random() < 0.5:
                p["filename"] = rng.choice(["отчёт.txt", "отчёт за май.txt", "café.txt", "naïve", "файл", "日本語.txt", "Ünï.bin"])
    return spec


def _scrub(content_hex: str, delims):
    """no delimiter of an enclosing writer inside (or across the start of) a nested part's content"""
    out = bytearray(bytes.fromhex(content_hex))
    for delim in delims:
        while True:
            i = (b"\r\n" + bytes(out)).find(delim)
            if i < 0:
                break
            j = i - 2 + len(delim) - 1
            out[j] = 0x41 if out[j] != 0x41 else 0x42
    return bytes(out).hex()


def gen_spec(rng, quick=True, allow_files=True):
    """a writer spec; some have a nested multipart part (own boundary, own parts), some parts are real files
    (pre-positioned, read by the application between declaring the size and writing, or the same file twice)"""
    spec = _gen_spec_flat(rng, quick)
    outer = spec["boundary"]
    if spec["kind"] != "formdata" and rng.random() < 0.15:
        inner_b = rng.choice([b for b in ["in", "INNER-1", "zz.9", "n" * 40, "with space2"]
                              if not b.startswith(outer) and not outer.startswith(b)] or ["q" + outer + "q"])
        if not inner_b.startswith(outer) and not outer.startswith(inner_b):
            inner = _gen_spec_flat(rng, quick, kinds=["mixed", "related", "form-data"], boundary=inner_b)
            inner["parts"] = inner["parts"][:3]
            od = b"\r\n--" + outer.encode()
            idl = b"\r\n--" + inner_b.encode()
            for p in inner["parts"]:
                if len(p["content"]) > 6000:
                    p["content"] = p["content"][:600]
                if p.get("str"):
                    p.pop("str")
                p["content"] = _scrub(p["content"], [od, idl])
            part = {"nested": inner}
            if rng.random() < 0.3:
                part["headers"] = [["X-Outer", "1"]]
            spec["parts"].insert(rng.randint(0, len(spec["parts"])), part)
            spec["parts"] = spec["parts"][:6]
    if allow_files and rng.random() < 0.15:
        # a part fed from a file-like object of unknown size whose reads come back short (pipe, socket, raw stream)
        cands = [i for i, p in enumerate(spec["parts"]) if not p.get("nested") and not p.get("cte") and not p.get("ce")
                 and not p.get("str")]
        if cands:
            i = rng.choice(cands)
            p = spec["parts"][i]
            p["raw"] = {"steps": rng.choice([[1], [1, 5, 1000], [3, 70000], [699], [65536], [2, 1, 100000]])}
            if spec["kind"] == "formdata":
                p["filename"] = p.get("filename") or "raw%d.bin" % i
                p.pop("ctype", None)
    elif allow_files and rng.random() < 0.2:
        cands = [i for i, p in enumerate(spec["parts"]) if not p.get("nested") and not p.get("cte") and not p.get("ce")
                 and not p.get("str")]
        rng.shuffle(cands)
        cands = sorted(cands[:2])
        form = spec["kind"] in ("form-data", "formdata")
        first = None
        for i in cands:
            p = spec["parts"][i]
            n = len(p["content"]) // 2
            fs = {}
            if first is not None and rng.random() < 0.6:
                fs["same_as"] = first
                p["content"] = spec["parts"][first]["content"]
            else:
                fs["pre"] = rng.choice([0, 0, 0, min(n, 1), n // 2, n])
                if first is None:
                    first = i
            if rng.random() < 0.5:
                fs["touch_size"] = rng.choice([-1, -1, 1, 5, -2])
            if not form and len(cands) == 1 and rng.random() < 0.5:
                fs["touch_append"] = rng.choice([-1, 3, -2])      # append() pinned the start; the application reads on
            p["file"] = fs
            if spec["kind"] == "formdata":
                p["filename"] = p.get("filename") or "up%d.bin" % i
                p.pop("ctype", None)
        # the content after `pre` must still be free of the delimiter at its start
        for i in cands:
            p = spec["parts"][i]
            if not p.get("file"):
                continue
            pre = p["file"].get("pre", 0) if p["file"].get("same_as") is None else spec["parts"][p["file"]["same_as"]]["file"].get("pre", 0)
            c = bytes.fromhex(p["content"])
            if (b"\r\n" + c[pre:]).find(b"\r\n--" + outer.encode()) >= 0:
                p.pop("file")
                for q in spec["parts"]:
                    if q.get("file", {}).get("same_as") == i:
                        q.pop("file")
    return spec


def gen_segs(rng, wire: bytes, blen: int):
    n = len(wire)
    style = rng.random()
    cuts = set()
    if style < 0.15:
        pass
    elif style < 0.45:
        k = rng.choice([1, 1, 2, 3, 4, 5, 7, blen - 1, blen, blen + 1, 64, 1000, 8191, 8192, 8193, 4096])
        if n > 3000 and k < 3:
            k = rng.choice([5, 7, 13])
        cuts = set(range(k, n, max(1, k)))
    elif style < 0.75:
        pos = 0
        while pos < n:
            pos += rng.choice([1, 2, 3, rng.randint(1, 20), rng.randint(1, 200), rng.randint(1, 9000)])
            cuts.add(pos)
    else:
        # cuts around every delimiter occurrence and around multiples of 8192
        marks = [i for i in range(n) if wire.startswith(b"\r\n--", i)][:40] + list(range(8192, n, 8192))
        for m in marks:
            for _ in range(rng.randint(1, 3)):
                cuts.add(m + rng.randint(-3, blen + 4))
    cuts = sorted(c for c in cuts if 0 < c < n)
    if len(cuts) > 6000:
        cuts = cuts[:: len(cuts) // 6000 + 1]
    segs, prev = [], 0
    dstyle = rng.choice([0, 1, 2, 3])
    for c in cuts + [n]:
        if c > prev:
            d = 0 if dstyle == 0 else (1 if dstyle == 1 else rng.choice([0, 0, 1, 1, 2, 3, 9]))
            segs.append([d, wire[prev:c]])
            prev = c
    return segs, rng.random() < 0.6


def gen_sched(rng, nparts: int, blen: int, allow_partial_lines=True):
    out = []
    uniform = rng.random() < 0.4
    legal = [blen, blen, blen + 1, blen + 2, 2 * blen, 64 + blen, 100 + blen, 4096, 8191, 8192, 8193, 20000] + \
            [z for z in (13, 50, 77, 1001) if z >= blen]

    def one():
        r = rng.random()
        if r < 0.30:
            return ["R"]
        if r < 0.60:
            return ["C", 0, [rng.choice(legal) for _ in range(rng.choice([1, 1, 2, 3]))]]
        if r < 0.75:
            return ["L", 0]
        if r < 0.82:
            return ["X"]
        if r < 0.88:
            return ["S"]
        if r < 0.96 or not allow_partial_lines:
            return ["C", rng.randint(1, 3), [rng.choice(legal) for _ in range(rng.choice([1, 2]))]]
        return ["L", rng.randint(1, 2)]
    if uniform:
        a = one()
        return [a for _ in range(nparts + 1)]
    return [one() for _ in range(nparts + 1)]


# ----------------------------------------------------------------------------------------------
# property oracle (implementation output only)

def _written_headers(binary_headers: bytes):
    out = []
    for ln in binary_headers.split(b"\r\n"):
        if ln:
            k, _, v = ln.partition(b":")
            out.append((k.strip().lower(), v.strip()))
    return out


def _decode_part(info, raw_chunks, per_chunk):
    part = info["part"]
    if per_chunk:
        return b"".join(bytes(part.decode(c)) for c in raw_chunks)
    return bytes(part.decode(b"".join(raw_chunks)))


_B64 = frozenset(b"ABCDEFGHIJKLMNOPQRSTUVWXYZabcdefghijklmnopqrstuvwxyz0123456789+/=")


def b64_count(chunk: bytes) -> int:
    return sum(1 for c in chunk if c in _B64)


def qp_law_ok(content: bytes) -> bool:
    return binascii.a2b_qp(binascii.b2a_qp(content)) == content


def api_complete(a, info):
    return a[0] == "R" or (a[0] in ("C", "L") and (a[1] == 0 or info["eof"]))


def oracle_roundtrip(spec, origs, wparts, wire, size, rec, sched):
    """-> list of (kind, message, detail) (empty = the property holds on this case)"""
    bad = []
    if size is not None and size != len(wire):
        bad.append(("size", f"declared size {size} != {len(wire)} bytes written", {}))
    if rec["final"] == "NONTERMINATION":
        cur = rec.get("cur") or {}
        return bad + [("nontermination", f"reader did not terminate within the step bound (phase {rec.get('phase')}, api {cur.get('api')})",
                       {"api": cur.get("api"), "phase": list(rec.get("phase") or [])})]
    want_b = b"--" + spec["boundary"].encode("ascii")
    if rec.get("boundary") is not None and rec["boundary"] != want_b:
        return bad + [("boundary-param", f"boundary parameter read back as {rec['boundary']!r}, written {want_b!r}", {})]
    lv = leaves(spec, origs, wparts)
    for j, x in enumerate(lv):
        for k, v in _written_headers(x["wp"][0]):
            if k == b"content-length" and v != b"%d" % len(x["wp"][1]):
                bad.append(("size", f"part {j}: Content-Length header {v!r} but {len(x['wp'][1])} bytes of content written", {"part": j}))
    tainted = False      # a partial readline leaves the reader outside the single-API quantifier
    derailed = False
    for i, info in enumerate(rec["parts"]):
        a = info["api"]
        if i >= len(lv):
            bad.append(("count", f"part {i}: reader produced more parts than were written", {}))
            derailed = True
            break
        ps, orig_i, wp_i, kind_i = lv[i]["ps"], lv[i]["orig"], lv[i]["wp"], lv[i]["kind"]
        got_h = {}
        for k, v in info["headers"]:
            got_h.setdefault(k.lower(), v)
        hbad = False
        for k, v in _written_headers(wp_i[0]):
            if got_h.get(k) != v:
                bad.append(("header", f"part {i}: header {k!r} written {v!r} read {got_h.get(k)!r}", {"part": i}))
                hbad = True
        if hbad:
            derailed = True
            break
        if kind_i in ("form-data", "formdata") and "name" in ps:
            disp = got_h.get(b"content-disposition", b"").decode("utf-8", "replace")
            if not expected_name(ps["name"], info["name"]):
                bad.append(("name", f"part {i}: field name {ps['name']!r} read back as {info['name']!r}",
                            {"part": i, "written": ps["name"], "read": info["name"], "disposition": disp}))
            if not expected_name(ps.get("filename"), info["filename"]):
                bad.append(("filename", f"part {i}: filename {ps.get('filename')!r} read back as {info['filename']!r}",
                            {"part": i, "written": ps.get("filename"), "read": info["filename"], "disposition": disp}))
        if api_complete(a, info):
            raw = b"".join(info["chunks"])
            if raw != wp_i[1]:
                bad.append(("content", f"part {i}: wire content differs ({len(raw)} bytes read, {len(wp_i[1])} written) api={a}",
                            {"part": i, "api": a}))
                derailed = True
                break
            if not info["eof"]:
                bad.append(("eof-flag", f"part {i}: not at_eof after a complete {a[0]}", {"part": i, "api": a}))
            cte, ce = (ps.get("cte") or "").lower() or None, (ps.get("ce") or "").lower() or None
            if cte == "quoted-printable" and not qp_law_ok(orig_i):
                pass        # stdlib a2b_qp(b2a_qp(x)) != x for this text: outside the oracle law
            else:
                per_chunk = a[0] == "C" and cte == "base64" and ce in (None, "identity")
                try:
                    dec = _decode_part(info, info["chunks"], per_chunk)
                    if dec != orig_i:
                        bad.append(("decode", f"part {i}: decoded content differs from the original (cte={cte}, ce={ce}, api={a}, per_chunk={per_chunk})",
                                    {"part": i, "api": a, "per_chunk": per_chunk, "b64_counts": [b64_count(c) for c in info["chunks"]]}))
                except Exception as e:  # noqa
                    bad.append(("decode", f"part {i}: decoding raised {e!r} (cte={cte}, ce={ce}, api={a}, per_chunk={per_chunk})",
                                {"part": i, "api": a, "per_chunk": per_chunk, "b64_counts": [b64_count(c) for c in info["chunks"]]}))
        elif a[0] == "C":
            raw = b"".join(info["chunks"])
            if not wp_i[1].startswith(raw):
                bad.append(("prefix", f"part {i}: partial read_chunk data is not a prefix of the written content", {"part": i, "api": a}))
                derailed = True
                break
        elif a[0] == "L" and not info["eof"]:
            tainted = True
            break
    if not tainted and not derailed:
        if rec["final"] != "END":
            cur = rec.get("cur") or {}
            bad.append(("final", f"reader ended with {rec['final']} ({rec.get('exc')}) after {len(rec['parts'])} of {len(lv)} parts (api {cur.get('api')})",
                        {"api": cur.get("api"), "part": len(rec["parts"])}))
        elif len(rec["parts"]) != len(lv):
            bad.append(("count", f"{len(rec['parts'])} parts read, {len(lv)} written", {}))
    return bad


def report(ctx, case, bad):
    for kind, msg, detail in bad:
        c = dict(case)
        c["violation_kind"] = kind
        c["detail"] = detail
        ctx.violation(c, msg)


def strip_case(rec):
    for p in rec["parts"]:
        p.pop("part", None)
    if rec.get("cur"):
        rec["cur"].pop("part", None)
    return rec


# ----------------------------------------------------------------------------------------------
# suites

def seg_lens(segs):
    return [[d, len(b)] for d, b in segs]


def segs_from_lens(wire, lens):
    out, pos = [], 0
    for d, n in lens:
        if pos >= len(wire):
            break
        out.append([d, wire[pos:pos + n]])
        pos += n
    if pos < len(wire):
        out.append([0, wire[pos:]])
    return out


def model_writer_lines(boundary: bytes, wparts):
    ps = ",".join("%s:%s:%d" % (fw.hexs(h), fw.hexs(b), 1 if i else 0) for h, b, i in wparts) or "-"
    wire = b"".join(b"--" + boundary + b"\r\n" + h + b + b"\r\n" for h, b, _ in wparts) + b"--" + boundary + b"--\r\n"
    return ["ENC %s %s" % (fw.hexs(boundary), ps), "SIZE %s %s" % (fw.hexs(boundary), ps),
            "SPEC %s %s" % (fw.hexs(boundary), fw.hexs(wire))]


def merge_headers(obs: str) -> str:
    """the model lists raw (name, value) pairs; part.headers (HeadersDictProxy) shows one item per distinct spelling
    of a name, its value being all values of that name (case-insensitive) joined by ', '"""
    out = []
    for tok in obs.split(" | "):
        f = tok.split(" ")
        if f[0] in ("P", "N") and len(f) >= 2 and f[1] != "-":
            pairs = [tuple(x.split("=")) for x in f[1].split(";")]
            names = [bytes.fromhex(k) for k, _ in pairs]
            if len({n.lower() for n in names}) != len(names):
                seen, merged = set(), []
                for k, _ in pairs:
                    if k in seen:
                        continue
                    seen.add(k)
                    low = bytes.fromhex(k).lower()
                    vals = [fw.unhex(v) for kk, v in pairs if bytes.fromhex(kk).lower() == low]
                    merged.append(k + "=" + (b", ".join(vals).hex() or "-"))
                f[1] = ";".join(merged)
        out.append(" ".join(f))
    return " | ".join(out)


def compare_obs(model, impl: str):
    """None = agree / not comparable, else a short reason"""
    if model is None or model.endswith("UNMODELLED"):
        return None
    m = merge_headers(model.replace("ERR FUEL", "NONTERMINATION"))
    if m == impl:
        return None
    return "observables differ"


def suite_roundtrip(ctx, exe, specs=None):
    rng = ctx.rng
    n = 400 if ctx.quick else 6000
    cases, lines, wlines = [], [], []
    for k in range(n):
        spec = gen_spec(rng, ctx.quick)
        try:
            w, origs = build_writer(spec)
        except (ValueError, AssertionError, TypeError) as e:
            ctx.count("writer:refused")
            continue
        try:
            wire, wparts, size = write_out(w, origs)
        except AssertionError:
            # MultipartWriter.write asserts `"name=" in Content-Disposition`; a non-ASCII field name with
            # quote_fields=True is written as `name*=...` and trips it: no body is produced (noted, not a C19 case)
            ctx.count("writer:assertion-in-write")
            continue
        except FramingError as e:
            report(ctx, {"suite": "writer", "spec": spec}, [("framing", f"the written bytes are not delimiter + headers + content + CRLF per part: {e}", {})])
            ctx.case(("framing", json.dumps(spec, sort_keys=True)))
            continue
        ctype = w.headers["Content-Type"]
        blen = max([len(spec["boundary"])] + [len(b) for _p, b in spec_leaves(spec)]) + 4     # legal for every (nested) part
        reps = 1 if len(wire) > 6000 else rng.choice([1, 2, 3])
        wl = model_writer_lines(spec["boundary"].encode("ascii"), wparts)
        wl.append([h + b for h, b, _ in wparts])
        wlines.append((spec, wire, size, wl))
        for _ in range(reps):
            segs, eager = gen_segs(rng, wire, blen)
            sched = gen_sched(rng, len(spec_leaves(spec)), blen)
            rec = impl_run(ctype, segs, eager, sched, {})
            case = {"suite": "roundtrip", "spec": spec, "segs": seg_lens(segs), "eager": eager, "sched": sched}
            bad = oracle_roundtrip(spec, origs, wparts, wire, size, rec, sched)
            impl = obs_of_impl(rec)
            boundary = rec.get("boundary") or (b"--" + spec["boundary"].encode())
            lines.append(model_line(boundary[2:], spec["kind"] in ("form-data", "formdata"), segs, eager, sched, {}))
            cases.append((case, impl, bad, rec["final"], len(wire), len(segs)))
            for a in sched[: len(spec_leaves(spec))]:
                ctx.count("api:" + a[0] + ("" if a[0] in "RXS" or a[1] == 0 else "-partial"))
            if len(spec_leaves(spec)) != len(spec["parts"]):
                ctx.count("spec:nested")
            for p, _b in spec_leaves(spec):
                if p.get("raw"):
                    ctx.count("spec:unsized-short-read-part")
                if p.get("file"):
                    ctx.count("spec:file-part" + ("-same-file-twice" if p["file"].get("same_as") is not None else "")
                              + ("-touched" if p["file"].get("touch_size") is not None or p["file"].get("touch_append") is not None else ""))
                ctx.count("enc:" + (p.get("cte") or "-").lower() + "/" + (p.get("ce") or "-").lower())
                if (p.get("cte") or "") != (p.get("cte") or "").lower() or (p.get("ce") or "") != (p.get("ce") or "").lower():
                    ctx.count("enc:mixed-case-token")
            ctx.count("kind:" + spec["kind"])
            if spec.get("charset"):
                ctx.count("formdata-charset:" + spec["charset"])
            ctx.count("wire:<64" if len(wire) < 64 else "wire:<1k" if len(wire) < 1024 else "wire:<8k" if len(wire) < 8192 else "wire:>=8k")
            ctx.count("segs:1" if len(segs) == 1 else "segs:<=16" if len(segs) <= 16 else "segs:<=256" if len(segs) <= 256 else "segs:>256")
    model = run_model_opt(exe, lines)
    for (case, impl, bad, final, wl, ns), m in zip(cases, model):
        ctx.case((json.dumps(case, sort_keys=True), impl), nontrivial=impl.startswith("P "))
        ctx.count("final:" + final.split(":")[0])
        if m is not None and m.endswith("UNMODELLED"):
            ctx.count("model:unmodelled")
        why = compare_obs(m, impl)
        if why:
            ctx.disagreement("roundtrip", case, m[:2000], impl[:2000])
        report(ctx, case, bad)
    if cases:
        ctx.sample({"suite": "roundtrip", "spec_kind": cases[-1][0]["spec"]["kind"], "boundary": cases[-1][0]["spec"]["boundary"],
                    "segments": cases[-1][0]["segs"][:8], "sched": cases[-1][0]["sched"], "impl": cases[-1][1][:300]})
    ctx.close_suite("roundtrip", len(cases))
    # writer framing + size: model encode/size against the real writer
    ml = run_model_opt(exe, [x for (_, _, _, wl) in wlines for x in wl[:3]])
    ran = 0
    for i, (spec, wire, size, wl) in enumerate(wlines):
        enc, sz, sp = ml[3 * i], ml[3 * i + 1], ml[3 * i + 2]
        if enc is None:
            ran += 1
            if size is not None and size != len(wire):
                report(ctx, {"suite": "writer", "spec": spec}, [("size", f"declared size {size} != {len(wire)} bytes written", {})])
            continue
        want_blocks = wl[3]
        delim = b"\r\n--" + spec["boundary"].encode("ascii")
        clean = all(delim not in blk + delim[:-1] for blk in want_blocks)
        if clean:
            got = None if sp == "NONE" else [fw.unhex(x) for x in sp.split()[1].split(",")] if len(sp.split()) > 1 else []
            if got != want_blocks:
                ctx.disagreement("writer", {"suite": "writer", "spec": spec, "what": "spec_decode"}, sp[:400], str(want_blocks)[:400])
            ctx.count("spec_decode:clean")
        else:
            ctx.count("spec_decode:delimiter-in-block")
        ran += 1
        ctx.case(("writer", json.dumps(spec, sort_keys=True)), nontrivial=bool(spec["parts"]))
        msz = None if sz == "NONE" else int(sz.split()[1])
        if fw.unhex(enc) != wire or msz != size:
            ctx.disagreement("writer", {"suite": "writer", "spec": spec}, f"{enc[:400]} size={sz}", f"{wire.hex()[:400]} size={size}")
        if size is not None and size != len(wire):
            report(ctx, {"suite": "writer", "spec": spec}, [("size", f"declared size {size} != {len(wire)} bytes written", {})])
        ctx.count("size:" + ("none" if size is None else "some"))
    ctx.close_suite("writer", ran)


def build_model():
    if os.environ.get("C19_MODEL_EXE"):          # development only: a model runner built elsewhere
        return True, os.environ["C19_MODEL_EXE"]
    return fw.ocaml_model("C19", ["Model/Multipart.vo", "Model/MultipartSpec.vo"])


def spec_leaves(spec):
    out = []
    for p in spec["parts"]:
        if p.get("nested"):
            out += spec_leaves(p["nested"])
        else:
            out.append((p, spec["boundary"]))
    return out


def _part_content(case, i):
    try:
        return bytes.fromhex(spec_leaves(case["spec"])[i][0]["content"])
    except Exception:  # noqa
        return None


def sig_readline_lf_boundary(case, params):
    """readline() on a part whose content has a line starting with the dash-boundary after a bare LF"""
    if case.get("violation_kind") not in ("content", "final", "count", "header"):
        return False
    d = case.get("detail") or {}
    api = d.get("api")
    if not api or api[0] != "L":
        return False
    i = d.get("part")
    content = _part_content(case, i) if i is not None else None
    if content is None:
        return False
    needle = b"\n--" + spec_leaves(case["spec"])[i][1].encode("ascii")
    j = content.find(needle)
    while j >= 0:
        if j == 0 or content[j - 1] != 13:
            return True
        j = content.find(needle, j + 1)
    return False


def _quoted_values(header: str):
    vals, i, n = [], 0, len(header)
    while i < n:
        if header[i] == '"':
            j, buf = i + 1, []
            while j < n and header[j] != '"':
                if header[j] == "\\" and j + 1 < n:
                    buf.append(header[j:j + 2])
                    j += 2
                else:
                    buf.append(header[j])
                    j += 1
            vals.append("".join(buf))
            i = j + 1
        else:
            i += 1
    return vals


def sig_disposition_semicolons(case, params):
    """Content-Disposition whose quoted parameter values contain semicolons the split-based parser cannot reassemble"""
    if case.get("violation_kind") not in ("name", "filename"):
        return False
    d = case.get("detail") or {}
    if d.get("read") is not None:
        return False
    return any('\\";' in v for v in _quoted_values(d.get("disposition") or ""))


def sig_disposition_leading_slash(case, params):
    """leading '/' and '\\' of a quoted FILE NAME are stripped by parse_content_disposition (field names are not)"""
    if case.get("violation_kind") != "filename":
        return False
    d = case.get("detail") or {}
    w, r = d.get("written"), d.get("read")
    return isinstance(w, str) and isinstance(r, str) and w != r and w.lstrip("\\/") == r


def sig_readline_loop_at_eof(case, params):
    """`while not part.at_eof(): await part.readline()` on a body that ends before the part's delimiter"""
    if case.get("violation_kind") != "nontermination":
        return False
    api = (case.get("detail") or {}).get("api")
    return bool(api) and api[0] == "L"


def sig_base64_short_read(case, params):
    """read_chunk on a base64 part returns a chunk holding fewer than four base64 characters (the stream read was
    short and _align_base64_chunk gives up), so decoding chunk by chunk fails or shifts the quartets"""
    if case.get("violation_kind") != "decode":
        return False
    d = case.get("detail") or {}
    counts = d.get("b64_counts") or []
    return bool(d.get("per_chunk")) and any(c % 4 != 0 and c < 4 for c in counts[:-1])


def _has_empty_nested(spec):
    return any(p.get("nested") is not None and (not p["nested"]["parts"] or _has_empty_nested(p["nested"])) for p in spec["parts"])


def sig_nested_empty(case, params):
    """a MultipartWriter without parts appended as a part of another writer: the nested reader stops at `--b--` without
    consuming the CRLF that ends the part, and the parent then reads an empty line where it expects its delimiter"""
    return case.get("violation_kind") == "final" and "spec" in case and _has_empty_nested(case["spec"])


SIGNATURES = {
    "nested_empty": sig_nested_empty,
    "base64_short_read": sig_base64_short_read,
    "readline_lf_boundary": sig_readline_lf_boundary,
    "disposition_semicolons": sig_disposition_semicolons,
    "disposition_leading_slash": sig_disposition_leading_slash,
    "readline_loop_at_eof": sig_readline_loop_at_eof,
}


def run_model_opt(exe, lines):
    """model answers, or None per line when the model runner could not be built (translator / extraction broke):
    the implementation-side oracle still runs so that a concrete failing input is reported"""
    if exe is None:
        return [None] * len(lines)
    return fw.run_model(exe, lines)


def run(ctx):
    ok, exe = build_model()
    ctx.oblige("model-runner-build", "correspondence", ok, "" if ok else exe)
    if not ok:
        exe = None
        ctx.notes.append("model runner unavailable: suites ran the implementation-side oracle only")
    run_corpus(ctx, exe)
    suite_roundtrip(ctx, exe)
    suite_mutants(ctx, exe)
    suite_limits(ctx, exe)
    suite_post(ctx)


def run_corpus(ctx, exe):
    d = os.path.join(fw.VERIF, "corpus", PROP)
    ran = 0
    # regression cases of repaired defects run first
    for fn in sorted(os.listdir(d), key=lambda n: (not n.startswith("fixed-"), n)) if os.path.isdir(d) else []:
        if not fn.endswith(".json"):
            continue
        payload = json.load(open(os.path.join(d, fn)))
        case = payload.get("case", payload)
        r = replay_case(exe, case)
        ran += 1
        ctx.case((fn, r.get("impl")), nontrivial=True)
        if r.get("disagree"):
            ctx.disagreement("corpus", case, r.get("model", "")[:1500], r.get("impl", "")[:1500])
        report(ctx, case, r.get("bad", []))
    if ran:
        ctx.close_suite("corpus", ran)


def replay_case(exe, case):
    suite = case.get("suite")
    if suite in ("roundtrip",):
        spec = case["spec"]
        w, origs = build_writer(spec)
        try:
            wire, wparts, size = write_out(w, origs)
        except FramingError as e:
            return {"impl": "framing", "bad": [("framing", f"the written bytes are not delimiter + headers + content + CRLF per part: {e}", {})], "violates": True}
        segs = segs_from_lens(wire, case["segs"])
        rec = impl_run(w.headers["Content-Type"], segs, case["eager"], case["sched"], case.get("limits") or {})
        bad = oracle_roundtrip(spec, origs, wparts, wire, size, rec, case["sched"])
        impl = obs_of_impl(rec)
        boundary = rec.get("boundary") or (b"--" + spec["boundary"].encode())
        m = run_model_opt(exe, [model_line(boundary[2:], spec["kind"] in ("form-data", "formdata"), segs, case["eager"],
                                            case["sched"], case.get("limits") or {})])[0]
        return {"impl": impl, "model": m, "disagree": bool(compare_obs(m, impl)), "bad": bad, "violates": bool(bad),
                "wire": wire.hex()}
    if suite in ("mutants", "limits"):
        wire = bytes.fromhex(case["wire"])
        if suite == "limits":
            segs = [[10 ** 9, wire[i:i + case["k"]]] for i in range(0, len(wire), case["k"])]
            eager = False
        else:
            segs, eager = segs_from_lens(wire, case["segs"]), case["eager"]
        limits = case.get("limits") or {}
        rec = impl_run(case["ctype"], segs, eager, case["sched"], limits)
        impl = obs_of_impl(rec)
        bad = oracle_arbitrary(rec, len(wire), len(segs))
        if suite == "limits":
            if rec["final"].split(" (")[0] != case["expect"]:
                bad.append(("limit", f"{case['what']}: reader ended with {rec['final']}, expected {case['expect']}", {}))
            elif case.get("fed_bound") is not None and rec["fed"] > case["fed_bound"]:
                bad.append(("limit-late", f"{case['what']}: limit enforced after {rec['fed']} bytes (bound {case['fed_bound']})", {"fed": rec["fed"]}))
        rb = rec.get("boundary") or b"--?"
        m = run_model_opt(exe, [model_line(rb[2:], bool(case.get("form")), segs, eager, case["sched"], limits)])[0]
        return {"impl": impl[-3000:], "model": (m or "")[-3000:], "disagree": bool(compare_obs(m, impl)), "bad": bad, "violates": bool(bad)}
    if suite == "post":
        outcome, bad, wire_len = post_case(case["spec"], case["client_max_size"], case["k"])
        return {"impl": outcome, "bad": bad, "violates": bool(bad)}
    if suite == "writer":
        spec = case["spec"]
        w, origs = build_writer(spec)
        try:
            wire, wparts, size = write_out(w, origs)
        except FramingError as e:
            return {"impl": "framing", "bad": [("framing", str(e), {})], "violates": True}
        bad = [("size", f"declared size {size} != {len(wire)} bytes written", {})] if size is not None and size != len(wire) else []
        return {"impl": f"size={size} written={len(wire)}", "bad": bad, "violates": bool(bad)}
    return {"violates": None, "note": "unknown suite"}


def replay(ctx, case):
    ok, exe = build_model()
    return replay_case(exe if ok else None, case)


# ----------------------------------------------------------------------------------------------
# arbitrary input: bodies derived from valid ones by mutation; limits

def mutate(rng, wire: bytes, boundary: bytes) -> bytes:
    b = bytearray(wire)
    delim = b"--" + boundary
    for _ in range(rng.choice([1, 1, 2, 3])):
        n = len(b)
        r = rng.random()
        if r < 0.22 and n:
            cut = rng.choice([rng.randint(0, n), max(0, n - rng.randint(1, len(delim) + 8))])
            b = b[:cut]
        elif r < 0.34 and n:
            i = rng.randint(0, n - 1)
            del b[i:i + rng.choice([1, 1, 2, 5, len(delim)])]
        elif r < 0.46:
            i = rng.randint(0, n)
            b[i:i] = rng.choice([b"\r\n", b"\n", b"\r", b"--", delim, delim + b"--", delim + b"\r\n", b"\r\n" + delim + b"--\r\n",
                                 bytes(rng.randrange(256) for _ in range(rng.randint(1, 6))), b"Content-Length: 5\r\n",
                                 b"Content-Length: 99999\r\n", b"Content-Length: 0\r\n", b"Content-Length: +3\r\n",
                                 b"Content-Transfer-Encoding: base64\r\n", b"X: " + b"y" * 100 + b"\r\n", b" folded\r\n", b": v\r\n",
                                 b"bad header\r\n", b"Content-Type: multipart/mixed; boundary=in\r\n"])
        elif r < 0.56 and n:
            i = rng.randint(0, n - 1)
            b[i] = rng.choice([0, 10, 13, 45, 58, 32, rng.randrange(256)])
        elif r < 0.64:
            b = bytearray(bytes(b).replace(b"\r\n", b"\n"))
        elif r < 0.72:
            b = bytearray(rng.choice([b"preamble\r\n", b"\r\n", b"junk", b"--\r\n"]) + bytes(b))
        elif r < 0.80:
            b = b + bytearray(rng.choice([b"epilogue", b"\r\n", b"--", delim + b"\r\n", b"\r\n" + delim + b"\r\nX: 1\r\n\r\nlate\r\n" + delim + b"--\r\n"]))
        elif r < 0.90:
            i = bytes(b).find(b"Content-Length: ")
            if i >= 0:
                j = bytes(b).find(b"\r\n", i)
                b[i + 16:j] = rng.choice([b"0", b"1", b"3", b"7", b"100", b"8192", b"99999999", b"-1", b"1_0", b"", b" 2", b"\xd9\xa1"])
        else:
            i = bytes(b).find(delim)
            if i >= 0:
                b[i:i + len(delim)] = delim[:-1] + bytes([delim[-1] ^ 1])
    return bytes(b)


def oracle_arbitrary(rec, total, nsegs):
    bad = []
    if rec["final"] == "NONTERMINATION":
        cur = rec.get("cur") or {}
        bad.append(("nontermination", f"reader did not terminate within {40 * total + 20000} stream operations on a {total}-byte body "
                    f"(phase {rec.get('phase')}, api {cur.get('api')})", {"api": cur.get("api"), "phase": list(rec.get("phase") or [])}))
    return bad


def suite_mutants(ctx, exe):
    rng = ctx.rng
    n = 1000 if ctx.quick else 20000
    cases, lines = [], []
    k = 0
    while k < n:
        spec = gen_spec(rng, allow_files=False)
        for p, _b in spec_leaves(spec):
            if len(p["content"]) > 1200:
                p["content"] = p["content"][:1200]
        if spec["kind"] == "formdata":
            spec["kind"] = "form-data"
        try:
            w, origs = build_writer(spec)
            wire, wparts, size = write_out(w, origs)
        except (ValueError, AssertionError, TypeError, FramingError):
            continue
        ctype = w.headers["Content-Type"]
        boundary = spec["boundary"].encode("ascii")
        blen = max([len(spec["boundary"])] + [len(b) for _p, b in spec_leaves(spec)]) + 4
        for _ in range(3):
            k += 1
            body = mutate(rng, wire, boundary)
            if not body:
                body = b"\r\n"
            segs, eager = gen_segs(rng, body, blen)
            sched = gen_sched(rng, len(spec_leaves(spec)) + 2, blen)
            limits = {}
            if rng.random() < 0.3:
                limits = {"max_field": rng.choice([8, 20, 40, 64]), "max_headers": rng.choice([1, 2, 3, 8]),
                          "client_max": rng.choice([0, 5, 50, 500, BIG])}
            rec = impl_run(ctype, segs, eager, sched, limits)
            case = {"suite": "mutants", "ctype": ctype, "wire": body.hex(), "segs": seg_lens(segs), "eager": eager, "sched": sched,
                    "limits": limits, "form": spec["kind"] == "form-data"}
            bad = oracle_arbitrary(rec, len(body), len(segs))
            impl = obs_of_impl(rec)
            rb = rec.get("boundary") or (b"--" + boundary)
            lines.append(model_line(rb[2:], case["form"], segs, eager, sched, limits))
            cases.append((case, impl, bad, rec["final"]))
    model = run_model_opt(exe, lines)
    for (case, impl, bad, final), m in zip(cases, model):
        ctx.case((case["wire"], json.dumps(case["segs"]), json.dumps(case["sched"]), impl), nontrivial=impl.startswith("P "))
        ctx.count("mutants:final:" + final.split("(")[0][:24])
        if m is not None and m.endswith("UNMODELLED"):
            ctx.count("model:unmodelled")
        if compare_obs(m, impl):
            ctx.disagreement("mutants", case, m[:2000], impl[:2000])
        report(ctx, case, bad)
    ctx.sample({"suite": "mutants", "wire": cases[-1][0]["wire"][:200], "sched": cases[-1][0]["sched"], "impl": cases[-1][1][:200]})
    ctx.close_suite("mutants", len(cases))


def limit_cases(rng, quick):
    """(wire, boundary, limits, sched, k, expect_final, fed_bound, what)"""
    out = []
    B = b"LIM"
    open_ = b"--LIM\r\n"
    for M in ([16, 64] if quick else [8, 16, 64, 100, 500]):
        for extra in (-3, 0, 1, 2, 40, 4000):
            for k in (1, 7, 50):
                name = b"X-Long: "
                L = max(0, M + extra - len(name) - 2)
                line = name + b"a" * L + b"\r\n"
                wire = open_ + line + b"\r\nbody\r\n--LIM--\r\n"
                too_long = len(line) > M
                out.append((wire, B, {"max_field": M}, [["R"]], k, "ERR linetoolong" if too_long else "END",
                            (len(open_) + M + k + 2) if too_long else None, f"header line of {len(line)} bytes, max_field_size {M}"))
    for H in ([2, 5] if quick else [1, 2, 5, 20]):
        for N in (H - 1, H, H + 1, H + 30):
            for k in (1, 7, 50):
                if N < 0:
                    continue
                hdrs = b"".join(b"X-%d: v\r\n" % i for i in range(N))
                wire = open_ + hdrs + b"\r\nbody\r\n--LIM--\r\n"
                too_many = N > H
                pre = len(open_) + len(b"".join(b"X-%d: v\r\n" % i for i in range(H + 1)))
                out.append((wire, B, {"max_headers": H}, [["R"]], k, "ERR badhttp" if too_many else "END",
                            (pre + k + 2) if too_many else None, f"{N} header lines, max_headers {H}"))
    for M in ([0, 100] if quick else [0, 1, 100, 8192, 10000]):
        for Lb in (M, M + 1, M + 6 * 8192):
            for k in ((50, 9000) if quick else (7, 50, 9000)):
                body = bytes(rng.choice(b"abc\r\n-") for _ in range(Lb)).replace(b"\r\n--LIM", b"\r\n--LIm")
                head = open_ + b"X: 1\r\n\r\n"
                wire = head + body + b"\r\n--LIM--\r\n"
                over = Lb > M
                out.append((wire, B, {"client_max": M}, [["R"]], k, "ERR maxsize" if over else "END",
                            (len(head) + M + 3 * 8192 + k + 64) if over else None, f"part of {Lb} bytes read(), client_max_size {M}"))
    # the limits a reader was built with also hold for the parts of a nested multipart part - in both directions
    def nested_wire(inner_headers):
        spec = {"kind": "mixed", "boundary": "LIM", "parts": [
            {"content": b"first".hex(), "str": True},
            {"nested": {"kind": "related", "boundary": "inner", "parts": [{"content": b"payload".hex(), "headers": inner_headers}]}},
            {"content": b"last".hex(), "str": True}]}
        w, origs = build_writer(spec)
        return write_out(w, origs)[0]
    for M, L in ((64, 50), (64, 60), (32768, 20000), (32768, 40000)):
        wire = nested_wire([["X-Long", "a" * L]])
        over = 8 + L + 2 > M
        for k in (50, 9000):
            out.append((wire, B, {"max_field": M}, [["R"], ["R"], ["R"]], k, "ERR linetoolong" if over else "END", None,
                        f"nested part with a header line of {10 + L} bytes, max_field_size {M}"))
    for H, nx in ((8, 4), (8, 12), (200, 150), (200, 220)):
        wire = nested_wire([["X-%d" % i, "v"] for i in range(nx)])
        over = nx + 2 > H
        for k in (50, 9000):
            out.append((wire, B, {"max_headers": H}, [["R"], ["R"], ["R"]], k, "ERR badhttp" if over else "END", None,
                        f"nested part with {nx + 2} header lines, max_headers {H}"))
    return out


def suite_limits(ctx, exe):
    cases, lines = [], []
    for wire, B, limits, sched, k, expect, fed_bound, what in limit_cases(ctx.rng, ctx.quick):
        segs = [[10 ** 9, wire[i:i + k]] for i in range(0, len(wire), k)]     # bytes arrive only when the reader waits
        stream_holder = {}
        rec = impl_run("multipart/mixed; boundary=LIM", segs, False, sched, limits)
        fed = rec["fed"]
        case = {"suite": "limits", "ctype": "multipart/mixed; boundary=LIM", "wire": wire.hex() if len(wire) < 4000 else None,
                "what": what, "k": k, "limits": limits, "sched": sched, "expect": expect, "fed_bound": fed_bound, "wire_len": len(wire)}
        bad = []
        if rec["final"].split(" (")[0] != expect:
            bad.append(("limit", f"{what}: reader ended with {rec['final']} ({rec.get('exc')}), expected {expect}", {}))
        elif expect == "END" and what.startswith("nested") and [b"".join(p["chunks"]) for p in rec["parts"]] != [b"first", b"payload", b"last"]:
            bad.append(("content", f"{what}: parts read back as {[b''.join(p['chunks'])[:20] for p in rec['parts']]}", {}))
        elif fed_bound is not None and fed > fed_bound:
            bad.append(("limit-late", f"{what}: the limit was enforced only after {fed} bytes had been taken from the transport "
                        f"(bound {fed_bound}: limit + one read-ahead window + one segment)", {"fed": fed}))
        impl = obs_of_impl(rec)
        lines.append(model_line(B, False, segs, False, sched, limits))
        cases.append((case, impl, bad, wire))
    model = run_model_opt(exe, lines)
    for (case, impl, bad, wire), m in zip(cases, model):
        ctx.case((case["what"], case["k"], impl[-40:]), nontrivial=True)
        ctx.count("limits:" + impl.split(" | ")[-1])
        if compare_obs(m, impl):
            ctx.disagreement("limits", case, m[-600:], impl[-600:])
        if bad and case["wire"] is None:
            case["wire"] = wire.hex()
        report(ctx, case, bad)
    ctx.close_suite("limits", len(cases))


# ----------------------------------------------------------------------------------------------
# BaseRequest.post(): form fields round trip and client_max_size enforced while the parts are read

def post_case(spec, M, k):
    """-> (outcome, bad) for FormData spec -> BaseRequest.post() with client_max_size M, k-byte segments on demand"""
    from aiohttp.test_utils import make_mocked_request
    from aiohttp.web_exceptions import HTTPRequestEntityTooLarge
    from aiohttp.web_request import FileField
    w, origs = build_writer(spec)
    wire, wparts, size = write_out(w, origs)
    fields = [(p["name"], "filename" in p, bytes.fromhex(p["content"])) for p in spec["parts"]]
    segs = [[10 ** 9, wire[i:i + k]] for i in range(0, len(wire), k)]
    stream = make_stream(segs, False)
    stream.max_ops = 40 * len(wire) + 20000
    req = make_mocked_request("POST", "/", headers={"Content-Type": w.headers["Content-Type"]}, payload=stream,
                              client_max_size=M)

    async def go():
        return await req.post()
    bad = []
    try:
        with warnings.catch_warnings():
            warnings.simplefilter("ignore")
            res = drive(go(), stream, max_waits=len(segs) + 1000)
        got = []
        for name, v in res.items():
            got.append((name, isinstance(v, FileField), v.file.read() if isinstance(v, FileField) else bytes(v)))
        if 0 < M < len(wire):
            bad.append(("limit", f"post(): body of {len(wire)} bytes accepted with client_max_size {M}", {}))
        elif got != fields:
            bad.append(("content", f"post(): fields read back differ from the fields written ({[(a, b, len(c)) for a, b, c in got]} vs "
                        f"{[(a, b, len(c)) for a, b, c in fields]})", {}))
        outcome = "ok"
    except HTTPRequestEntityTooLarge:
        outcome = "413"
        if not (0 < M < len(wire)):
            bad.append(("limit", f"post(): 413 for a body of {len(wire)} bytes with client_max_size {M}", {}))
        elif stream.total_bytes > M + 3 * 8192 + 2 * k + 64:
            bad.append(("limit-late", f"post(): client_max_size {M} enforced only after {stream.total_bytes} of {len(wire)} bytes had been taken "
                        f"from the transport", {"fed": stream.total_bytes}))
    except StepLimit:
        outcome = "nontermination"
        bad.append(("nontermination", "post() did not terminate within the step bound", {"api": None}))
    except Exception as e:  # noqa
        outcome = "exc:" + type(e).__name__
        bad.append(("final", f"post() raised {e!r}", {"api": None}))
    return outcome, bad, len(wire)


def suite_post(ctx):
    rng = ctx.rng
    n = 60 if ctx.quick else 1500
    ran = 0
    for _ in range(n):
        boundary = rng.choice(["BND", "0123456789abcdef0123456789abcdef", "x-y_z.0"])
        bb = boundary.encode()
        parts = []
        big = rng.random() < 0.35
        for i in range(rng.choice([1, 2, 3, 5])):
            size = rng.choice([60000, 100000]) if (big and i == 0) else None
            p = {"name": "f%d" % i, "content": gen_content(rng, bb, size).hex(), "ctype": "application/octet-stream"}
            if rng.random() < 0.5:
                p["filename"] = "up%d.bin" % i
            parts.append(p)
        spec = {"kind": "formdata", "boundary": boundary, "quote_fields": True, "parts": parts}
        wl = sum(len(p["content"]) // 2 + 120 + len(boundary) for p in parts)
        M = rng.choice([0, 0, 2 ** 20, wl, 1000, 20000])
        k = rng.choice([1000, 4096, 9000])
        try:
            outcome, bad, wire_len = post_case(spec, M, k)
        except (ValueError, AssertionError, TypeError, FramingError):
            continue
        if rng.random() < 0.3 and M == wl:      # exactly at / around the limit
            for M2 in (wire_len - 1, wire_len, wire_len + 1):
                o2, b2, _ = post_case(spec, M2, k)
                ran += 1
                ctx.case((json.dumps(spec, sort_keys=True), M2, k, o2), nontrivial=o2 == "ok")
                ctx.count("post:" + o2)
                report(ctx, {"suite": "post", "spec": spec, "client_max_size": M2, "k": k}, b2)
        ran += 1
        ctx.case((json.dumps(spec, sort_keys=True), M, k, outcome), nontrivial=outcome == "ok")
        ctx.count("post:" + outcome)
        report(ctx, {"suite": "post", "spec": spec, "client_max_size": M, "k": k}, bad)
    ctx.oblige("oracle:post", "correspondence", ran > 0, "" if ran else "no cases ran")
    ctx.count("suite:post", ran)
