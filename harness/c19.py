"""C19 — multipart codec round trip, truthful size, reader termination."""
from __future__ import annotations

import asyncio
import base64
import binascii
import json
import os
import warnings
import zlib
from unittest import mock

from harness.common import framework as fw

PROP = "C19"
GENERATED = ["MultipartGen.v", "HttpGen.v"]
RULE = ("bodies are produced by the real MultipartWriter / FormData (part contents from a grammar rich in CR/LF runs, "
        "boundary prefixes and near-boundary patterns, sizes around 8192 and around the boundary-length window; "
        "identity / base64 / quoted-printable / gzip / deflate parts) or derived from such bodies by byte mutation; "
        "each body is delivered under a generated segmentation (segment sizes, arrival delays counted in stream "
        "operations, eager or late EOF) and read with a generated API schedule per part (read, read_chunk sizes, "
        "readline, release, skip).  Non-trivial = at least one part was delivered without error; distinct by hash "
        "of (wire bytes, segmentation, schedule, observable).")
TRUSTED = [
    "translator/gen_multipart.py (size formula, framing shapes, constants, _BASE64_CHARS, window-search formula)",
    "extraction: ExtrOcamlBasic only; ocaml/common/conv.ml + ocaml/C19/driver.ml (hex/decimal I/O)",
    "correspondence harness harness/c19.py: sampled, not proved; the segmented stream (TickStream) subclasses the real "
    "StreamReader and only decides WHEN bytes arrive",
    "modelled, not verified: CPython bytes methods, multidict, base64/binascii/zlib (round-trip laws sampled), "
    "HeadersParser details beyond name/value splitting and the character classes generated for C01",
]
ASSUMPTIONS = [
    "Python implementation only (AIOHTTP_NO_EXTENSIONS=1).",
    "Model/implementation agreement is validated on the generated cases only.",
    "Stream segments are non-empty (feed_data(b'') is a no-op in StreamReader).",
]

HIGH = 2 ** 16  # StreamReader limit used by the harness (low water); high water = 2 * limit


# ----------------------------------------------------------------------------------------------
# implementation side: a StreamReader whose data arrives on a schedule counted in stream operations

def _mk_stream_cls():
    from aiohttp.streams import StreamReader

    class TickStream(StreamReader):
        """segs: list of [delay, bytes].  Before every read()/readuntil() the head delay is decremented and
        every head segment whose delay is 0 arrives; when the reader has to wait, the head segment arrives
        alone.  eager: feed_eof() together with the last segment; else only when the reader waits again."""

        def setup(self, segs, eager):
            self._segs = [[int(d), bytes(b)] for d, b in segs]
            self._eager = eager
            self.ops = 0
            self.waits = 0
            if eager and not self._segs:
                self.feed_eof()

        def _arrived(self):
            if self._eager and not self._segs and not self._eof:
                self.feed_eof()

        def _tick(self):
            self.ops += 1
            if self._eof:
                return
            if self._segs and self._segs[0][0] > 0:
                self._segs[0][0] -= 1
            while self._segs and self._segs[0][0] == 0:
                self.feed_data(self._segs.pop(0)[1])
            self._arrived()

        def force(self):
            self.waits += 1
            if self._segs:
                self.feed_data(self._segs.pop(0)[1])
                self._arrived()
            else:
                self.feed_eof()

        async def read(self, n=-1):
            self._tick()
            return await super().read(n)

        async def readuntil(self, separator=b"\n", *, max_size=None):
            self._tick()
            return await super().readuntil(separator, max_size=max_size)

    return TickStream


_loop = None
_TickStream = None


def get_loop():
    global _loop
    if _loop is None:
        _loop = asyncio.new_event_loop()
    return _loop


def make_stream(segs, eager):
    global _TickStream
    if _TickStream is None:
        _TickStream = _mk_stream_cls()
    proto = mock.Mock()
    proto.connected = True
    proto._reading_paused = False
    s = _TickStream(proto, HIGH, loop=get_loop())
    s.setup(segs, eager)
    return s


class StepLimit(Exception):
    pass


def drive(coro, stream, max_waits=1_000_000):
    """Run a coroutine by hand; whenever it blocks on the stream's waiter the next segment (or EOF) arrives."""
    loop = get_loop()
    asyncio._set_running_loop(loop)
    try:
        while True:
            try:
                fut = coro.send(None)
            except StopIteration as e:
                return e.value
            if fut is not None and fut is stream._waiter:
                stream.force()
                if stream.waits > max_waits:
                    coro.close()
                    raise StepLimit("waits")
            elif fut is None:
                continue
            else:
                asyncio._set_running_loop(None)
                try:
                    loop.run_until_complete(asyncio.wait([fut]))
                finally:
                    asyncio._set_running_loop(loop)
    finally:
        asyncio._set_running_loop(None)
