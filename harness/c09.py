"""C09 — body decoding is transparent, memory-bounded and always makes progress.

Implementation side: the real aiohttp.client_proto.ResponseHandler + HttpResponseParser +
HttpPayloadParser + DeflateBuffer + ZLibDecompressor/BrotliDecompressor/ZSTDDecompressor +
StreamReader, on an in-memory transport that honours (or, in one configuration, lacks)
pause_reading, driven by *histories* of external stimuli: the peer's bytes in a chosen
segmentation, the peer closing, and consumer calls (readany / read(n) / set_read_chunk_size)
with pauses.  A history is generated adaptively (a segment is delivered only while the
transport is reading) and recorded, so it can be replayed exactly on the model and later.

Model side: coq/Model/Decode.v extracted to OCaml (ocaml/C09/driver.ml).  For the exact
comparison the same run-length "zlib backend" (ToyZlib below mirrors ToyMember in the model)
is plugged into aiohttp with compression_utils.set_zlib_backend, so the glue code
(decompress_sync, _decompress_members, DeflateBuffer, payload parser, protocol, reader) is
compared token by token.  Real zlib/brotli/zstd run in separate suites against the property
oracle and against the codec laws the theorems assume.

Event tokens (shared with the driver): D<hex> deliver bytes | X peer closes | A readany() |
R<n> read(n) | S<n> set_read_chunk_size(n).  Observation tokens: <obs>/<flags>.<size>.<low>.
"""
from __future__ import annotations

import asyncio
import glob
import gzip as _gzip
import json
import logging
import os
import sys
import zlib as _zlib

from harness.common import framework as fw

PROP = "C09"
GENERATED = ["DecodeGen.v"]
RULE = ("a case = (read-buffer limit, framing length/chunked/until-EOF, encoding, body, segmentation, consumer "
        "schedule, close point); bodies are random, highly compressible (bomb), multi-member, empty-member, "
        "truncated or bit-flipped; histories are generated adaptively from the PRNG and recorded.  glue suites run "
        "the real classes with the toy run-length zlib backend against the extracted model and compare every "
        "observation token; oracle suites run real gzip/deflate/raw deflate/brotli/zstd and evaluate the property on "
        "the implementation's output only.  Non-trivial = the consumer received at least one byte; distinct by hash "
        "of the implementation's observation trace.")
TRUSTED = [
    "translator/gen_decode.py (constants, integer formulas and tests of compression_utils.py, http_parser.py "
    "DeflateBuffer/HttpPayloadParser, streams.py water marks, web_request.py read -> N definitions; ast shape checks)",
    "extraction: ExtrOcamlBasic only; ocaml/common/conv.ml + ocaml/C09/driver.ml (token parsing/printing)",
    "correspondence harness harness/c09.py (history generator, in-memory transport, ToyZlib mirror of the model's "
    "ToyMember, canonicaliser): sampled, not proved",
    "codec laws assumed by the theorems (C09_bounded: one decompress_sync(data, m) call returns at most capf(m) bytes, "
    "capf = id for zlib/zstd and 2m+32768 for the brotli binding; C09_progress_partial: an output-less call leaves "
    "data_available false) and the laws the oracle relies on (conservation, error on corrupt input) are validated on real "
    "zlib/brotli/zstd by sampling only (suite laws)",
    "modelled, not verified: CPython bytes/deque/Future semantics, asyncio task scheduling (the reader task is "
    "run to quiescence after every stimulus on the virtual-time loop), the C codecs; message heads and trailer "
    "fields are outside the model (C01/C03); the C parser is out of scope (AIOHTTP_NO_EXTENSIONS=1)",
]
ASSUMPTIONS = [
    "The transport delivers no bytes and no connection_lost while reading is paused (configuration flow=1); the "
    "configuration flow=0 (transport without flow control, tolerated by BaseProtocol) is compared with the model "
    "but excluded from the memory bound.",
    "One consumer task per body, never cancelled; no trace hook (_on_chunk_received), TimerNoop.",
    "read_bufsize >= 1 (read_bufsize = 0 is C08's finding).",
    "Model/implementation agreement is validated on the generated cases only.",
]

logging.getLogger("aiohttp.internal").disabled = True
MAXSIZE = sys.maxsize


# =================================================================================================
# toy zlib backend (mirror of ToyMember in coq/Model/Decode.v)

class ToyError(Exception):
    pass


class ToyDecomp:
    def __init__(self, mode):
        self.mode = mode
        self.stage = 1 if mode == 0 else 0
        self.cnt = 0
        self.byte = 0
        self.sum = 0
        self.unconsumed_tail = b""
        self.unused_data = b""

    @property
    def eof(self):
        return self.stage == 5

    def _emit(self, bud, out):
        if self.stage == 3:
            k = self.cnt if bud is None else min(self.cnt, bud)
            out += bytes([self.byte]) * k
            self.sum = (self.sum + k * self.byte) % 256
            self.cnt -= k
            self.stage = 1 if self.cnt == 0 else 3
            if bud is not None:
                bud -= k
        return bud

    def decompress(self, data, max_length=0):
        data = bytes(data)
        if self.stage == 5:
            self.unused_data += data
            self.unconsumed_tail = b""
            return b""
        bud = None if max_length == 0 else max_length
        out = bytearray()
        bud = self._emit(bud, out)
        i, n = 0, len(data)
        header = 31 if self.mode == 31 else 120
        while True:
            if bud == 0:
                self.unconsumed_tail = data[i:]
                break
            if i >= n:
                self.unconsumed_tail = b""
                break
            c = data[i]
            i += 1
            if self.stage == 0:
                if c != header:
                    raise ToyError("header")
                self.stage = 1
            elif self.stage == 1:
                if c == 0:
                    if self.mode == 0:
                        self.stage = 5
                        self.unused_data += data[i:]
                        self.unconsumed_tail = b""
                        break
                    self.stage = 4
                elif c < 240:
                    self.stage, self.cnt = 2, c
                else:
                    raise ToyError("token")
            elif self.stage == 2:
                self.stage, self.byte = 3, c
                bud = self._emit(bud, out)
            elif self.stage == 4:
                if c != self.sum:
                    raise ToyError("checksum")
                self.stage = 5
                self.unused_data += data[i:]
                self.unconsumed_tail = b""
                break
            else:
                raise ToyError("state")
        return bytes(out)

    def flush(self, length=0):
        import copy
        return copy.copy(self).decompress(self.unconsumed_tail, 0)


class ToyZlib:
    __name__ = "toyzlib"
    MAX_WBITS = 15
    Z_FULL_FLUSH = 3
    Z_SYNC_FLUSH = 2
    Z_BEST_SPEED = 1
    Z_FINISH = 4
    error = ToyError

    def decompressobj(self, wbits=15, zdict=b""):
        return ToyDecomp({31: 31, 15: 15, -15: 0}[wbits])

    def compressobj(self, *a, **k):
        raise NotImplementedError

    def compress(self, *a, **k):
        raise NotImplementedError

    def decompress(self, *a, **k):
        raise NotImplementedError


def toy_encode_member(plain: bytes, mode: int, rng) -> bytes:
    out = bytearray()
    if mode:
        out.append(31 if mode == 31 else 120)
    i = 0
    while i < len(plain):
        b = plain[i]
        j = i
        while j < len(plain) and plain[j] == b and j - i < 239:
            j += 1
        k = j - i
        if k > 1 and rng.random() < 0.3:
            k = rng.randint(1, k)
        out += bytes([k, b])
        i += k
    out.append(0)
    if mode:
        out.append(sum(plain) % 256)
    return bytes(out)


class Ambiguous(Exception):
    """The codec library accepts or rejects this stream depending on how it is cut."""


class Incomplete(Exception):
    """The stream ends inside a member (every byte so far is acceptable)."""


def toy_ref_decode(body: bytes, mode: int):
    """Whole-buffer reference decoder of the toy format (independent of ToyDecomp): concatenated
    members until the input ends; None = corrupt; raises Incomplete when the input ends inside a member."""
    out = bytearray()
    i, n = 0, len(body)
    while i < n:
        if mode:
            if body[i] != (31 if mode == 31 else 120):
                return None
            i += 1
        s = 0
        while True:
            if i >= n:
                raise Incomplete
            c = body[i]
            i += 1
            if c == 0:
                break
            if c >= 240:
                return None
            if i >= n:
                raise Incomplete
            out += bytes([body[i]]) * c
            s = (s + c * body[i]) % 256
            i += 1
        if mode:
            if i >= n:
                raise Incomplete
            if body[i] != s:
                return None
            i += 1
    return bytes(out)


def safe_ref(fn, *a):
    """-> (reference bytes or None, 'ok' | 'corrupt' | 'incomplete')"""
    try:
        r = fn(*a)
    except Incomplete:
        return None, "incomplete"
    except Ambiguous:
        return None, "ambiguous"
    return (r, "ok") if r is not None else (None, "corrupt")


def deflate_mode(body: bytes) -> int:
    """DeflateBuffer's sniff: zlib-wrapped unless the first byte's low nibble is not 8."""
    return 15 if (not body or body[0] & 0xF == 8) else 0


# =================================================================================================
# real codecs: encoders and reference decoders

def _members_ref(body: bytes, make):
    out = bytearray()
    data = body
    while data:
        d = make()
        try:
            out += d.decompress(data)
        except Exception:
            # a library may reject in one shot what it accepts piecewise (zstd: frame content size
            # mismatch): the stream counts as corrupt only if the byte-wise decode rejects it too;
            # otherwise what the implementation must do depends on the segmentation: no verdict
            if _bytewise_ref(body, make) is None:
                return None
            raise Ambiguous
        if not d.eof:
            raise Incomplete
        data = d.unused_data
    return bytes(out)


def _bytewise_ref(body: bytes, make):
    out = bytearray()
    d = make()
    fresh = True
    for i in range(len(body)):
        if d.eof:
            d = make()
            fresh = True
        try:
            out += d.decompress(body[i:i + 1])
        except Exception:
            return None
        fresh = False
    if not d.eof and not fresh:
        raise Incomplete
    return bytes(out)


def real_ref_decode(enc: str, body: bytes):
    if enc == "gzip":
        return _members_ref(body, lambda: _zlib.decompressobj(31))
    if enc == "deflate":
        wb = 15 if deflate_mode(body) == 15 else -15
        return _members_ref(body, lambda: _zlib.decompressobj(wb))
    if enc == "br":
        import brotli
        if not body:
            return b""
        d = brotli.Decompressor()
        try:
            out = d.process(body)
        except Exception:
            return None
        if not d.is_finished():
            raise Incomplete
        return out
    if enc == "zstd":
        from backports.zstd import ZstdDecompressor
        return _members_ref(body, ZstdDecompressor)
    return body


def real_encode(enc: str, plain: bytes, rng, raw=False) -> bytes:
    if enc == "gzip":
        return _gzip.compress(plain, compresslevel=rng.choice([1, 6, 9]), mtime=0)
    if enc == "deflate":
        if raw:
            c = _zlib.compressobj(rng.choice([1, 6, 9]), _zlib.DEFLATED, -15)
            return c.compress(plain) + c.flush()
        return _zlib.compress(plain, rng.choice([1, 6, 9]))
    if enc == "br":
        import brotli
        return brotli.compress(plain, quality=rng.choice([0, 5, 11]))
    if enc == "zstd":
        from backports.zstd import compress
        return compress(plain, rng.choice([1, 3, 10]))
    return plain


# =================================================================================================
# body / framing generators

def gen_plain(rng, kind=None):
    kind = kind or rng.choice(["empty", "short", "runs", "runs", "bomb", "bomb", "random"])
    if kind == "empty":
        return b""
    if kind == "short":
        return bytes(rng.randrange(256) for _ in range(rng.randint(1, 6)))
    if kind == "runs":
        return b"".join(bytes([rng.randrange(256)]) * rng.randint(1, 40) for _ in range(rng.randint(1, 12)))
    if kind == "bomb":
        return b"".join(bytes([rng.choice(b"AB\x00\xff")]) * rng.choice([239, 478, 1000, 3000]) for _ in range(rng.randint(1, 3)))
    return bytes(rng.randrange(256) for _ in range(rng.randint(7, 200)))


def corrupt(rng, body: bytes):
    """-> (body', tag)"""
    r = rng.random()
    if not body or r < 0.55:
        return body, "intact"
    if r < 0.72:
        return body[: rng.randrange(len(body))], "truncated"
    if r < 0.9:
        i = rng.randrange(len(body))
        return body[:i] + bytes([body[i] ^ (1 << rng.randrange(8))]) + body[i + 1:], "bitflip"
    if r < 0.95:
        i = rng.randrange(len(body) + 1)
        return body[:i] + bytes([rng.randrange(256)]) + body[i:], "insert"
    return body + bytes(rng.randrange(256) for _ in range(rng.randint(1, 3))), "trailing"


def chunked_frame(rng, body: bytes, lax: bool):
    """Valid chunked framing of body (no trailer fields); lax spellings only when the parser is lax."""
    out = bytearray()
    i = 0
    while i < len(body):
        k = rng.choice([1, 1, 2, 3, 5, 8, 13, 64, 1000]) if len(body) < 3000 else rng.choice([64, 1000, 4096, 20000])
        piece = body[i:i + k]
        i += len(piece)
        size = (b"%x" if rng.random() < 0.8 else b"%X") % len(piece)
        if rng.random() < 0.1:
            size = b"0" * rng.randint(1, 3) + size
        if rng.random() < 0.1:
            size += b";ext=" + bytes(rng.choice(b"abc123") for _ in range(rng.randint(0, 4)))
        eol = b"\r\n"
        if lax and rng.random() < 0.1:
            eol = b"\n"
        if lax and rng.random() < 0.05:
            size = b" " + size + b" "
        out += size + eol + piece + (b"\n" if lax and rng.random() < 0.05 else b"\r\n")
    out += b"0\r\n\r\n"
    return bytes(out)


def break_framing(rng, wire: bytes):
    r = rng.random()
    if r < 0.8 or not wire:
        return wire, "ok"
    if r < 0.88:
        return wire[: rng.randrange(len(wire))], "cut"
    i = rng.randrange(len(wire))
    repl = rng.choice([b"\n", b"\r", b"g", b";", b" ", b"\x00", b"ffffffff"])
    return wire[:i] + repl + wire[i + 1:], "mangled"


def segments(rng, wire: bytes):
    if not wire:
        return []
    style = rng.choice(["one", "bytes", "small", "mixed", "mixed"])
    if style in ("bytes", "small") and len(wire) > 400:
        style = "mixed"
    if style == "one":
        return [wire]
    out, i = [], 0
    while i < len(wire):
        k = 1 if style == "bytes" else rng.choice([1, 2, 3, 4, 7]) if style == "small" else rng.choice([1, 2, 5, 17, 64, 300, 4096])
        out.append(wire[i:i + k])
        i += k
    return out


# =================================================================================================
# implementation rig

def _transport_cls():
    from harness.common.transport import MemTransport

    class NoFlow(MemTransport):
        def pause_reading(self):
            self.reading = False
            raise NotImplementedError

        def resume_reading(self):
            self.reading = True
            raise NotImplementedError
    return MemTransport, NoFlow


_KIND = {"ContentEncodingError": "ContentEncoding", "TransferEncodingError": "TransferEncoding", "LineTooLong": "LineTooLong",
         "ContentLengthError": "ContentLength", "BadHttpMessage": "BadMessage", "AssertionError": "Assertion"}


def exc_kind(e: BaseException) -> str:
    from aiohttp import ClientPayloadError
    if type(e).__name__ in _KIND:      # a blocked reader is woken by the payload parser's own set_exception (unwrapped)
        return _KIND[type(e).__name__]
    if isinstance(e, ClientPayloadError):
        c = e.__cause__
        return _KIND.get(type(c).__name__, "Payload:" + type(c).__name__)
    if isinstance(e, RuntimeError) and "Connection closed" in str(e):
        return "ConnClosed"
    return "Other:" + type(e).__name__


def cap_of(enc):
    """Largest output of one decompress_sync(data, max_length=m) call: exact for zlib and zstd; the brotli binding
    fills whole blocks (32752 bytes, doubling) until the limit is reached, so it can return up to 2m + 32768."""
    return (lambda m: 2 * m + 32768) if enc == "br" else (lambda m: m)


class Peak:
    """Largest StreamReader._size seen right after any feed, with the marks at that moment."""
    worst = None  # (excess, size, low, high)


def _install_peak_reader():
    import aiohttp.http_parser as hp
    from aiohttp.streams import StreamReader
    if getattr(hp.StreamReader, "_c09_peak", False):
        return hp.StreamReader

    class PeakReader(StreamReader):
        _c09_peak = True

        def feed_data(self, data):
            r = super().feed_data(data)
            if self._low_water < MAXSIZE:
                ex = self._size - (self._high_water + PeakReader.capf(max(PeakReader.limit, self._low_water)) + PeakReader.slack)
                if Peak.worst is None or ex > Peak.worst[0]:
                    Peak.worst = (ex, self._size, self._low_water, self._high_water)
            return r
    PeakReader.limit = 0
    PeakReader.slack = 0
    PeakReader.capf = staticmethod(lambda m: m)
    PeakReader.__name__ = "StreamReader"
    hp.StreamReader = PeakReader
    return PeakReader


class Rig:
    """One response body on a real ResponseHandler."""

    def __init__(self, loop, cfg):
        from aiohttp.client_proto import ResponseHandler
        Mem, NoFlow = _transport_cls()
        self.loop, self.cfg = loop, cfg
        self.proto = ResponseHandler(loop)
        self.tr = (Mem if cfg["flow"] else NoFlow)(loop, self.proto)
        self.proto.connection_made(self.tr)
        self.proto.set_response_params(read_bufsize=cfg["limit"], read_until_eof=cfg["framing"] == "E",
                                       max_line_size=cfg["maxline"], max_field_size=cfg["maxfield"],
                                       max_headers=cfg["maxheaders"])
        pr = _install_peak_reader()
        pr.limit = cfg["limit"]
        pr.slack = 0 if (cfg["flow"] and cfg["enc"]) else 1 << 40
        pr.capf = staticmethod(cap_of(cfg["enc"]))
        Peak.worst = None
        self.proto.data_received(self.head())
        self.msg, self.payload = loop.run_until_complete(self.proto.read())
        self.task = None
        self.pending_tok = None
        self.max_seg = 0

    def head(self) -> bytes:
        c = self.cfg
        h = [b"HTTP/1.1 200 OK"]
        if c["enc"]:
            h.append(b"Content-Encoding: " + c["enc"].encode())
        if c["framing"] == "C":
            h.append(b"Transfer-Encoding: chunked")
        elif c["framing"] == "L":
            h.append(b"Content-Length: %d" % c["length"])
        return b"\r\n".join(h) + b"\r\n\r\n"

    @staticmethod
    def head_lines(cfg) -> int:
        return 2 + (1 if cfg["enc"] else 0) + (1 if cfg["framing"] in "CL" else 0)

    # -- predicates shared with the model's `step`
    def connected(self):
        return self.proto.transport is not None

    def deliverable(self):
        return self.connected() and (not self.cfg["flow"] or self.tr.reading)

    def parser_open(self):
        p = self.proto._parser
        return p is not None and p._payload_parser is not None

    def snap(self) -> str:
        p = self.proto
        hm = p._parser._payload_has_more_data if p._parser is not None else False
        r = self.payload
        return "%d%d%d%d%d.%d.%d" % (not self.tr.reading, p._reading_paused, self.parser_open(), r._eof, hm, r._size, r._low_water)

    def _poll(self) -> str:
        t = self.task
        if t is None or not t.done():
            return "-"
        self.task = None
        return self._result(t)

    @staticmethod
    def _result(t) -> str:
        e = t.exception()
        if e is not None:
            return "e" + exc_kind(e)
        v = t.result()
        return "d" + fw.hexs(v if v is not None else b"")

    def event(self, tok: str) -> str:
        k = tok[0]
        if k == "D":
            d = fw.unhex(tok[1:])
            if self.deliverable() and self.parser_open() and d:
                self.max_seg = max(self.max_seg, len(d))
                self.proto.data_received(d)
                self.loop.run_until_idle()
                return self._poll()
            return "s"
        if k == "X":
            if self.deliverable() and self.parser_open():
                self.tr.peer_close()
                self.loop.run_until_idle()
                return self._poll()
            return "s"
        if self.task is not None:
            return "s"
        if k == "S":
            self.payload.set_read_chunk_size(int(tok[1:]))
            return "d-"
        coro = self.payload.readany() if k == "A" else self.payload.read(int(tok[1:]))
        t = self.loop.create_task(coro)
        self.loop.run_until_idle()
        if t.done():
            return self._result(t)
        self.task = t
        return "b"

    def close(self):
        if self.task is not None:
            self.task.cancel()
            self.loop.run_until_idle()
            self.task = None
        if not self.tr.closed:
            self.tr.close()
        self.loop.run_until_idle()


# =================================================================================================
# histories

READ_SIZES = [1, 1, 2, 3, 5, 8, 16, 100, 1000, 70000]


def gen_history(rng, rig: Rig, segs: list[bytes], close_after: bool, max_steps=400):
    """Adaptive random history; returns (event tokens, observation tokens, summary)."""
    evs, obs = [], []
    i = 0
    received = bytearray()
    outcome = None     # "eof" | "err:<kind>"
    closed = False
    consumer = rng.choice(["any", "any", "small", "mixed", "mixed", "lazy"])
    p_read = {"any": 0.5, "small": 0.5, "mixed": 0.5, "lazy": 0.15}[consumer]
    fixed_n = rng.choice(READ_SIZES)

    close_flags = None

    def do(tok):
        nonlocal outcome, close_flags
        if tok == "X" and close_flags is None and rig.deliverable() and rig.parser_open():
            close_flags = rig.snap().split(".")[0]
        o = rig.event(tok)
        evs.append(tok)
        obs.append(o + "/" + rig.snap())
        if o.startswith("d") and tok[0] in "AR":
            if o == "d-" and not (tok[0] == "R" and tok[1:] == "0"):
                outcome = "eof"
            received.extend(fw.unhex(o[1:]))
        elif o.startswith("d") and tok[0] in "DX":
            # a blocked call completed
            v = fw.unhex(o[1:])
            if not v:
                outcome = "eof"
            received.extend(v)
        elif o.startswith("e"):
            outcome = "err:" + o[1:]
        return o

    def read_tok():
        if consumer == "any":
            return "A"
        if consumer == "small":
            return "R%d" % fixed_n
        r = rng.random()
        if r < 0.4:
            return "A"
        if r < 0.93:
            return "R%d" % rng.choice(READ_SIZES)
        return "S%d" % rng.choice([1, 7, 64, 500])

    steps = 0
    closed_early = False
    late_close = False
    early_close = (not close_after) and rng.random() < 0.08
    while outcome is None and steps < max_steps:
        steps += 1
        can_d = i < len(segs) and rig.deliverable() and rig.parser_open()
        if can_d and rng.random() > p_read:
            do("D" + fw.hexs(segs[i]))
            i += 1
            continue
        if early_close and not closed and i < len(segs) and rig.deliverable() and rig.parser_open() and rng.random() < 0.05:
            closed_early = True
            do("X")
            closed = True
            continue
        if i >= len(segs) and not closed and rig.deliverable() and rig.parser_open() and rng.random() < 0.3:
            late_close = True
            do("X")           # the peer sent everything and closes (its FIN is seen as soon as the transport reads)
            closed = True
            continue
        if rig.task is None:
            do(read_tok())
        elif can_d:
            do("D" + fw.hexs(segs[i]))
            i += 1
        else:
            break
    # final phase: keep the consumer reading with readany(), deliver what is left, then close
    stuck = False
    for _ in range(4 * len(segs) + 4000):
        if outcome is not None:
            break
        can_d = i < len(segs) and rig.deliverable() and rig.parser_open()
        if rig.task is None:
            do("A")
        elif can_d:
            do("D" + fw.hexs(segs[i]))
            i += 1
        elif not closed and rig.deliverable() and rig.parser_open() and (close_after or i >= len(segs)) and not stuck:
            # nothing more will arrive; for a complete length/chunked body the consumer should not be
            # blocked here at all
            stuck = True
            do("X")
            closed = True
        else:
            break
    else:
        outcome = outcome or "budget"
    summary = {"received": bytes(received), "outcome": outcome or "stuck", "blocked_before_close": stuck,
               "delivered_all": i >= len(segs), "closed": closed, "closed_early": closed_early, "late_close": late_close, "steps": len(evs),
               "close_flags": close_flags or rig.snap().split(".")[0], "exc_set": rig.payload._exception is not None,
               "close_processed": close_flags is not None, "final_flags": rig.snap().split(".")[0]}
    return evs, obs, summary


def replay_history(rig: Rig, evs):
    obs = []
    received = bytearray()
    outcome = None
    close_flags = None
    for tok in evs:
        if tok == "X" and close_flags is None and rig.deliverable() and rig.parser_open():
            close_flags = rig.snap().split(".")[0]
        o = rig.event(tok)
        obs.append(o + "/" + rig.snap())
        if o.startswith("d") and (tok[0] in "ARDX"):
            v = fw.unhex(o[1:])
            if not v and not (tok[0] == "R" and tok[1:] == "0") and outcome is None:
                outcome = "eof"
            received.extend(v)
        elif o.startswith("e") and outcome is None:
            outcome = "err:" + o[1:]
    return obs, {"received": bytes(received), "outcome": outcome or "stuck", "close_flags": close_flags or rig.snap().split(".")[0],
                 "exc_set": rig.payload._exception is not None,
                 "close_processed": close_flags is not None, "final_flags": rig.snap().split(".")[0]}


# =================================================================================================
# the property, evaluated on implementation output

def verdicts(case, summary, refst):
    """-> list of (kind, message).  refst = (reference decoding of the body bytes or None, 'ok'|'corrupt'|'incomplete').
    case['wire_state']: 'ok' (framing complete and valid) | 'cut' | 'mangled'."""
    ref, rstate = refst
    if summary["outcome"] == "stuck" and summary.get("exc_set"):
        return [("stuck_with_exception", "the payload has an exception set, yet the consumer's pending read never returns: it was woken "
                 "without data (end of an HTTP chunk), the exception arrived before it ran, and it went back to wait without looking")]
    ff = summary.get("final_flags") or ""
    if (summary["outcome"] == "stuck" and case["cfg"]["framing"] == "E" and not summary.get("close_processed", True)
            and len(ff) == 5 and ff[0] == "0" and ff[4] == "0"):
        # a recorded history whose close was skipped (transport paused at that moment): the until-EOF body is
        # still waiting for the peer's close with the transport reading and nothing pending - not a hang
        return []
    out = []
    rec, oc = summary["received"], summary["outcome"]
    ws = case["wire_state"]
    if summary.get("closed_early"):
        ws = "cut"          # the peer closed before the framing was complete
    framing = case["cfg"]["framing"]
    if ws == "ok" and ref is not None:
        if oc == "eof":
            if rec != ref:
                out.append(("not_transparent", f"consumer read {len(rec)} bytes != reference decoding ({len(ref)} bytes)"))
        elif oc == "stuck":
            out.append(("deadlock", "valid complete body: the consumer is blocked for ever (all bytes were handed to the protocol"
                        if summary.get("delivered_all") else "valid complete body: the consumer is blocked while the transport stays paused / undelivered"))
        elif oc in ("budget", "hang"):
            pass
        elif oc == "err:ConnClosed" or (summary.get("late_close") and oc in ("err:TransferEncoding", "err:ContentLength")):
            out.append(("lost_at_close", f"valid complete body, the peer closed after sending all of it: {oc[4:]} after {len(rec)} of {len(ref)} bytes"))
        else:
            out.append(("spurious_error", f"valid complete body rejected with {oc} after {len(rec)} bytes"))
        if summary.get("blocked_before_close") and framing != "E" and oc != "stuck":
            # what happens after the forced close is a consequence of the same defect: one verdict
            out = [("deadlock", "valid complete length/chunked body: every byte was handed to the protocol, the transport is "
                    "reading, and the consumer stayed blocked until the peer closed (then: " + oc + ")")]
        if not ref.startswith(rec):
            out.append(("not_transparent", "bytes read are not a prefix of the reference decoding"))
    elif ws == "ok" and rstate == "ambiguous":
        if oc == "stuck":
            out.append(("deadlock", "consumer blocked for ever"))
    elif ws == "ok" and ref is None:
        if oc == "eof":
            if rstate == "incomplete":
                out.append(("truncated_delivered", f"the compressed stream ends inside a member, yet the consumer got a clean EOF after {len(rec)} bytes"))
            else:
                out.append(("corrupt_delivered", f"corrupt encoding ended with a clean EOF after {len(rec)} bytes"))
        elif oc == "stuck":
            out.append(("deadlock", "corrupt body: consumer blocked for ever instead of an error"))
    else:  # framing cut or mangled: never a clean EOF with wrong bytes; never stuck once the peer closed
        if oc == "stuck" and summary.get("closed"):
            out.append(("deadlock", "broken framing: consumer blocked for ever after the peer closed"))
    return out


def bound_verdict(case):
    w = Peak.worst
    if w is not None and w[0] > 0:
        return [("unbounded", f"reader buffered {w[1]} bytes with low={w[2]} high={w[3]} limit={case['cfg']['limit']}: more than high + cap(max(limit, low))")]
    return []


# =================================================================================================
# known-finding signatures

def _sig(kind_set):
    def pred(case, params):
        if case.get("kind") not in kind_set:
            return False
        for k, v in params.items():
            if k == "framing":
                if case.get("cfg", {}).get("framing") not in v:
                    return False
            elif k == "enc":
                if case.get("cfg", {}).get("enc") not in v:
                    return False
            elif k == "tag":
                if case.get("tag") not in v:
                    return False
            elif k == "flow":
                if case.get("cfg", {}).get("flow") not in v:
                    return False
            elif k == "close_flags":
                # flags <tpaused><rpaused><parser open><eof><has_more> when the peer closed / the consumer got stuck
                f = case.get("close_flags") or ""
                if len(f) != 5 or any(want != "?" and want != got for want, got in zip(v, f)):
                    return False
        return True
    return pred


SIGNATURES = {
    "stale_pause_chunked_deadlock": _sig({"deadlock"}),
    "lost_at_close_while_pending": _sig({"lost_at_close"}),
    "rewait_ignores_exception": _sig({"stuck_with_exception"}),
}


# =================================================================================================
# model side

_MODEL = None


def build_model():
    global _MODEL
    if _MODEL is None or not _MODEL[0]:
        exe = os.path.join(fw.VERIF, "bin", "modelrun_C09")
        if os.environ.get("C09_REUSE_MODEL") == "1" and os.path.exists(exe):
            _MODEL = (True, exe)     # development only (mutation runs): skip the locked Coq build
        else:
            _MODEL = fw.ocaml_model("C09", ["Model/Decode.vo"])
    return _MODEL


ENC_NUM = {"": 0, "gzip": 1, "deflate": 2}


def model_line(cfg, evs, fuel=200000):
    maxtr = cfg["maxheaders"] - Rig.head_lines(cfg)
    return "RUN %d %d %d %d %d %d %s %d %d %d %s" % (
        cfg["limit"], 1, cfg["maxline"], cfg["maxfield"], maxtr, cfg["flow"], cfg["framing"], cfg.get("length", 0),
        ENC_NUM[cfg["enc"]], fuel, " ".join(evs))


# =================================================================================================
# suites

def _loop():
    from harness.common.loop import VLoop
    loop = VLoop()
    asyncio.set_event_loop(loop)
    return loop


def make_cfg(rng, enc, framing, length=0):
    return {"limit": rng.choice([1, 2, 3, 4, 5, 8, 16, 33, 64, 256, 4096, 2 ** 16]), "enc": enc, "framing": framing, "length": length,
            "maxline": rng.choice([8190, 8190, 16]), "maxfield": rng.choice([8190, 8190, 40]), "maxheaders": rng.choice([128, 128, 8]),
            "flow": 0 if rng.random() < 0.08 else 1}


def gen_toy_case(rng):
    enc = rng.choice(["gzip", "gzip", "deflate", "deflate", ""])
    framing = rng.choice(["C", "C", "L", "L", "E"])
    raw = enc == "deflate" and rng.random() < 0.4
    mode = 31 if enc == "gzip" else (0 if raw else 15)
    nmem = rng.choice([1, 1, 1, 2, 3, 8]) if enc else 1
    plains = [gen_plain(rng) for _ in range(nmem)]
    if enc:
        body = b"".join(toy_encode_member(p, mode, rng) for p in plains)
        if rng.random() < 0.05:
            body = b""
    else:
        body = b"".join(plains)
    tag = "intact"
    if enc:
        body, tag = corrupt(rng, body)
    if framing == "L" and not body:
        framing = "C"
    if framing == "C":
        wire = chunked_frame(rng, body, True)
    else:
        wire = body
    wire, ws = break_framing(rng, wire) if framing != "E" else (wire, "ok")
    cfg = make_cfg(rng, enc, framing, len(body))
    if framing == "L" and ws != "ok":
        if len(wire) < len(body):
            ws = "cut"
        else:                        # the parser takes the first Content-Length bytes: the *encoding* is what changed
            wire = wire[:len(body)]
            body, ws, tag = wire, "ok", tag + "+mangled"
    if enc:
        m = mode if enc == "gzip" else deflate_mode(body)
        ref = safe_ref(toy_ref_decode, body, m)
    else:
        ref = (body, "ok")
    return {"cfg": cfg, "body": body.hex(), "tag": tag, "wire_state": ws, "segs": [s.hex() for s in segments(rng, wire)],
            "codec": "toy" if enc else "identity"}, ref


class Hang(Exception):
    """The implementation did not return within the per-case wall-clock budget."""


def _alarm(signum, frame):
    raise Hang()


def run_case(loop, case, rng=None, evs=None):
    """Runs one case on the implementation; returns (evs, obs, summary, verdict list).
    A watchdog turns a livelock inside the implementation into a `hang` verdict."""
    import signal
    old = signal.signal(signal.SIGALRM, _alarm)
    signal.setitimer(signal.ITIMER_REAL, 30.0)
    try:
        return _run_case(loop, case, rng, evs)
    except Hang:
        return (evs or []), [], {"received": b"", "outcome": "hang"}, [("hang", "the implementation did not return within 30 s of wall-clock time (livelock)")]
    finally:
        signal.setitimer(signal.ITIMER_REAL, 0)
        signal.signal(signal.SIGALRM, old)


def _run_case(loop, case, rng=None, evs=None):
    rig = Rig(loop, case["cfg"])
    try:
        if evs is None:
            segs = [bytes.fromhex(s) for s in case["segs"]]
            evs, obs, summary = gen_history(rng, rig, segs, close_after=case["cfg"]["framing"] == "E")
        else:
            obs, summary = replay_history(rig, evs)
            summary.setdefault("delivered_all", True)
            summary.setdefault("closed", "X" in evs)
            summary["blocked_before_close"] = _blocked_before_close(evs, obs)
            summary["closed_early"] = bool(case.get("closed_early"))
            summary["late_close"] = bool(case.get("late_close"))
        bad = bound_verdict(case)
    finally:
        rig.close()
    return evs, obs, summary, bad


def case_ref(case):
    body = bytes.fromhex(case["body"])
    enc = case["cfg"]["enc"]
    if case.get("codec") == "toy":
        m = 31 if enc == "gzip" else deflate_mode(body)
        return safe_ref(toy_ref_decode, body, m)
    return safe_ref(real_ref_decode, enc, body)


def suite_glue(ctx, exe, n):
    """Toy backend plugged into aiohttp; implementation trace == model trace, token by token."""
    from aiohttp import compression_utils as cu
    rng = ctx.rng
    loop = _loop()
    cu.set_zlib_backend(ToyZlib())
    cases = []
    try:
        for path in sorted(glob.glob(os.path.join(fw.VERIF, "corpus", "C09", "*.json"))):
            c = json.load(open(path)).get("case")
            if c and c.get("codec") in ("toy", "identity") and c.get("suite", "glue") == "glue":
                evs, obs, summary, bad = run_case(loop, c, evs=c["events"])
                cases.append((c, case_ref(c), evs, obs, summary, bad, True))
        for _ in range(n):
            case, ref = gen_toy_case(rng)
            evs, obs, summary, bad = run_case(loop, case, rng=rng)
            cases.append((case, ref, evs, obs, summary, bad, False))
    finally:
        cu.set_zlib_backend(_zlib)
        asyncio.set_event_loop(None)
        loop.close()
    # without a model runner (its build broke, e.g. the translator rejected the tree) the oracle still runs
    model = fw.run_model(exe, [model_line(c["cfg"], evs) for c, _, evs, *_ in cases]) if exe else [None] * len(cases)
    ran = 0
    for (case, ref, evs, obs, summary, bad, from_corpus), m in zip(cases, model):
        ran += 1
        mobs = m.split() if m is not None else list(obs)
        cfg = case["cfg"]
        ctx.case((tuple(evs), tuple(obs)), nontrivial=bool(summary["received"]))
        ctx.count("glue:framing:" + cfg["framing"])
        ctx.count("glue:enc:" + (cfg["enc"] or "identity"))
        ctx.count("glue:outcome:" + summary["outcome"].split(":")[0])
        ctx.count("glue:body:" + case.get("tag", "?") + "/" + case["wire_state"])
        ctx.count("glue:events", len(evs))
        full = dict(case, suite="glue", events=evs, closed_early=bool(summary.get("closed_early")), late_close=bool(summary.get("late_close")), close_flags=summary.get("close_flags"))
        oom = next((i for i, t in enumerate(mobs) if t.startswith("eOutOfModel")), None)
        if oom is not None:          # trailer fields / message heads: outside the model from this token on
            ctx.count("glue:out_of_model")
            mobs, obs = mobs[:oom], obs[:oom]
        if mobs != obs:
            k = next((i for i, (a, b) in enumerate(zip(mobs, obs)) if a != b), min(len(mobs), len(obs)))
            ctx.disagreement("glue", dict(full, first_diff=k), mobs[max(0, k - 2):k + 2], obs[max(0, k - 2):k + 2])
        for kind, msg in verdicts(case, summary, ref) + bad:
            ctx.violation(dict(full, kind=kind), f"{kind}: {msg}")
    if cases:
        c, _, evs, obs, *_ = cases[-1]
        ctx.sample({"suite": "glue", "cfg": c["cfg"], "events": evs[:12], "obs": obs[:12]})
    ctx.traces_validated += ran
    ctx.close_suite("glue", ran)


def suite_handler(ctx, exe, n):
    """ZLibDecompressor (decompress_sync / _decompress_members / data_available) over the toy backend
    vs zh_step in the model: random call sequences with random max_length."""
    from aiohttp import compression_utils as cu
    rng = ctx.rng
    cu.set_zlib_backend(ToyZlib())
    lines, impl = [], []
    try:
        for _ in range(n):
            mode = rng.choice([31, 15, 0])
            nmem = rng.choice([1, 2, 3, 5, 20])
            body = b"".join(toy_encode_member(gen_plain(rng, rng.choice(["empty", "short", "runs", "bomb"])), mode, rng) for _ in range(nmem))
            body, _tag = corrupt(rng, body)
            z = cu.ZLibDecompressor(encoding="gzip" if mode == 31 else "deflate", suppress_deflate_header=mode == 0)
            pieces = segments(rng, body) + [b""] * rng.randint(0, 6)
            rng.shuffle(pieces) if False else None
            calls, outs = [], []
            i = 0
            while (i < len(pieces) or z.data_available) and len(calls) < 150:
                if i < len(pieces) and (not z.data_available or rng.random() < 0.5):
                    d = pieces[i]
                    i += 1
                else:
                    d = b""
                ml = rng.choice([0, 1, 2, 3, 7, 64, 239, 240, 1000])
                calls.append(f"{fw.hexs(d)}:{ml}")
                try:
                    o = z.decompress_sync(d, max_length=ml)
                except Exception:
                    outs.append("ERR")
                    break
                # <data_available><eof><mid_stream><DeflateBuffer.feed_eof's stream-end checks would pass>
                complete = not ((mode != 31 and not z.eof) or z.mid_stream)
                outs.append(f"{fw.hexs(o)}/{int(z.data_available)}{int(z.eof)}{int(z.mid_stream)}{int(complete)}")
                if ml and len(o) > ml:
                    ctx.violation({"suite": "handler", "kind": "cap", "mode": mode, "calls": calls}, f"decompress_sync returned {len(o)} bytes for max_length={ml}")
            lines.append("HS %d %s" % (mode, " ".join(calls)))
            impl.append(outs)
    finally:
        cu.set_zlib_backend(_zlib)
    model = fw.run_model(exe, lines)
    for ln, outs, m in zip(lines, impl, model):
        ctx.case((ln, tuple(outs)), nontrivial=any(o not in ("ERR",) and not o.startswith("-") for o in outs))
        ctx.count("handler:" + ("error" if "ERR" in outs else "ok"))
        if m.split() != outs:
            ctx.disagreement("handler", {"suite": "handler", "line": ln}, m.split()[:6], outs[:6])
    ctx.close_suite("handler", len(lines))


REAL_ENCS = ["gzip", "deflate", "deflate-raw", "br", "zstd"]


def exact_budget_members(rng, limit):
    """Decoded member sizes whose running sums hit the decompression budget (= read-buffer limit) exactly at
    member boundaries: _decompress_members then stops with the remaining members parked in
    _pending_unused_data, and only data_available tells the payload parser to come back for them."""
    sizes = []
    for _ in range(rng.randint(2, 4)):
        a = rng.randint(1, limit - 1) if limit > 1 else 1
        sizes += [a, limit - a] if limit > 1 else [1]
    if rng.random() < 0.5:
        sizes.append(rng.randint(1, 3 * limit))
    return [bytes([rng.randrange(256)]) * n for n in sizes if n > 0]


def gen_exact_case(rng):
    e = rng.choice(["zstd", "zstd", "gzip", "deflate", "deflate-raw"])
    enc, raw = ("deflate", True) if e == "deflate-raw" else (e, False)
    framing = rng.choice(["C", "L", "E"])
    limit = rng.choice([2, 16, 64, 256, 1024, 4096])
    plains = exact_budget_members(rng, limit)
    body = b"".join(real_encode(enc, p, rng, raw) for p in plains)
    wire = chunked_frame(rng, body, True) if framing == "C" else body
    cfg = {"limit": limit, "enc": enc, "framing": framing, "length": len(body), "maxline": 8190, "maxfield": 8190, "maxheaders": 128, "flow": 1}
    segs = [wire] if rng.random() < 0.6 else segments(rng, wire)
    return {"cfg": cfg, "body": body.hex(), "tag": "intact+exact-budget", "wire_state": "ok", "segs": [x.hex() for x in segs],
            "codec": e}, safe_ref(real_ref_decode, enc, body)


def gen_real_case(rng):
    if rng.random() < 0.2:
        return gen_exact_case(rng)
    e = rng.choice(REAL_ENCS)
    enc, raw = ("deflate", True) if e == "deflate-raw" else (e, False)
    framing = rng.choice(["C", "L", "E"])
    nmem = rng.choice([1, 1, 1, 2, 3]) if enc != "br" else 1
    kinds = ["empty", "short", "runs", "bomb", "random", "big"]
    plains = []
    for _ in range(nmem):
        k = rng.choice(kinds)
        plains.append(bytes([rng.randrange(256)]) * rng.choice([20000, 100000, 600000]) if k == "big" else gen_plain(rng, k))
    body = b"".join(real_encode(enc, p, rng, raw) for p in plains)
    body, tag = corrupt(rng, body)
    if raw and body and body[0] & 0xF == 8:
        tag = tag + "+sniffed-as-zlib"
    if framing == "L" and not body:
        framing = "C"
    wire = chunked_frame(rng, body, True) if framing == "C" else body
    wire, ws = break_framing(rng, wire) if framing == "C" else (wire, "ok")
    cfg = make_cfg(rng, enc, framing, len(body))
    cfg["limit"] = rng.choice([1, 16, 64, 256, 1024, 4096, 2 ** 16, 2 ** 18])
    cfg["maxline"] = cfg["maxfield"] = 8190
    cfg["maxheaders"] = 128
    return {"cfg": cfg, "body": body.hex(), "tag": tag, "wire_state": ws, "segs": [s.hex() for s in segments(rng, wire)],
            "codec": e}, safe_ref(real_ref_decode, enc, body)


def suite_real(ctx, n):
    """Real codecs through the real client protocol; property oracle only."""
    rng = ctx.rng
    loop = _loop()
    ran = 0
    try:
        corpus = []
        for path in sorted(glob.glob(os.path.join(fw.VERIF, "corpus", "C09", "*.json"))):
            c = json.load(open(path)).get("case")
            if c and c.get("suite") == "real":
                corpus.append(c)
        for c in corpus:
            evs, obs, summary, bad = run_case(loop, c, evs=c["events"])
            ran += 1
            for kind, msg in verdicts(c, summary, case_ref(c)) + bad:
                ctx.violation(dict(c, kind=kind, close_flags=summary.get("close_flags")), f"{kind}: {msg}")
        for _ in range(n):
            case, ref = gen_real_case(rng)
            evs, obs, summary, bad = run_case(loop, case, rng=rng)
            ran += 1
            ctx.case((case["codec"], tuple(obs)), nontrivial=bool(summary["received"]))
            ctx.count("real:codec:" + case["codec"])
            ctx.count("real:outcome:" + summary["outcome"].split(":")[0])
            ctx.count("real:body:" + case["tag"] + "/" + case["wire_state"])
            full = dict(case, suite="real", events=evs, closed_early=bool(summary.get("closed_early")), late_close=bool(summary.get("late_close")), close_flags=summary.get("close_flags"))
            for kind, msg in verdicts(case, summary, ref) + bad:
                ctx.violation(dict(full, kind=kind), f"{kind}: {msg}")
    finally:
        asyncio.set_event_loop(None)
        loop.close()
    ctx.oblige("oracle:real_codecs", "correspondence", ran > 0, "" if ran else "no cases ran")
    ctx.count("suite:real", ran)


def suite_laws(ctx, n):
    """The codec laws the theorems assume, sampled on the real handler classes:
       cap: len(decompress_sync(d, m)) <= m for m > 0;  progress: empty output => not data_available;
       conservation: concatenation of all outputs after draining == reference decoding (when it exists);
       error: a corrupt stream raises or (deflate) is not at eof when the input ends."""
    from aiohttp import compression_utils as cu
    rng = ctx.rng
    ran = 0
    for _ in range(n):
        e = rng.choice(REAL_ENCS)
        enc, raw = ("deflate", True) if e == "deflate-raw" else (e, False)
        nmem = rng.choice([1, 1, 2, 4]) if enc != "br" else 1
        exact = enc != "br" and rng.random() < 0.3
        if exact:
            lim = rng.choice([2, 16, 100, 4096])
            body, tag = b"".join(real_encode(enc, p, rng, raw) for p in exact_budget_members(rng, lim)), "intact"
        else:
            body = b"".join(real_encode(enc, gen_plain(rng), rng, raw) for _ in range(nmem))
            body, tag = corrupt(rng, body)
        if raw and body and body[0] & 0xF == 8:
            continue
        ref, _state = safe_ref(real_ref_decode, enc, body)
        if _state == "ambiguous":
            continue
        if enc == "br":
            h = cu.BrotliDecompressor()
        elif enc == "zstd":
            h = cu.ZSTDDecompressor()
        else:
            h = cu.ZLibDecompressor(encoding=enc, suppress_deflate_header=raw)
        out = bytearray()
        err = False
        calls = []
        pieces = [body] if exact and rng.random() < 0.7 else segments(rng, body)
        i = 0
        steps = 0
        while (i < len(pieces) or h.data_available) and steps < 100000:
            steps += 1
            if h.data_available:
                d = b""
            else:
                d = pieces[i]
                i += 1
            m = lim if exact else rng.choice([1, 2, 16, 100, 4096, 65536])
            calls.append((len(d), m))
            try:
                o = h.decompress_sync(d, max_length=m)
            except Exception:
                err = True
                break
            if len(o) > cap_of(enc)(m):
                ctx.violation({"suite": "laws", "kind": "law_cap", "codec": e, "body": body.hex(), "calls": calls},
                              f"codec law (cap): {e} returned {len(o)} bytes for max_length={m}")
            if not o and h.data_available and not d:
                ctx.violation({"suite": "laws", "kind": "law_progress", "codec": e, "body": body.hex(), "calls": calls},
                              f"codec law (progress): {e} empty output for empty input but data_available stays true")
            out += o
        ran += 1
        ctx.case((e, body, tuple(calls)), nontrivial=bool(out))
        ctx.count("laws:" + e + ":" + ("error" if err else "ok"))
        if ref is not None:
            if err or bytes(out) != ref:
                ctx.violation({"suite": "laws", "kind": "law_conservation", "codec": e, "body": body.hex(), "calls": calls},
                              f"codec law (conservation): {e} drained output ({len(out)} bytes, error={err}) != reference ({len(ref)} bytes)")
        elif not err and not ref_prefix_ok(enc, raw, body, bytes(out)):
            ctx.violation({"suite": "laws", "kind": "law_prefix", "codec": e, "body": body.hex(), "calls": calls},
                          f"codec law (prefix): {e} output of a corrupt stream is not a prefix of what the reference decoder produced")
    ctx.oblige("oracle:codec_laws", "correspondence", ran > 0, "")
    ctx.count("suite:laws", ran)


def ref_prefix_ok(enc, raw, body, out) -> bool:
    """For a corrupt/truncated stream: `out` must be what a one-shot streaming decode yields before failing."""
    try:
        if enc in ("gzip", "deflate"):
            wb = 31 if enc == "gzip" else (-15 if raw else 15)
            got = bytearray()
            data = body
            while data:
                d = _zlib.decompressobj(wb)
                for i in range(len(data)):
                    try:
                        got += d.decompress(data[i:i + 1])
                    except Exception:
                        return bytes(got).startswith(out) or out.startswith(bytes(got))
                if not d.eof:
                    break
                data = d.unused_data
            return bytes(got) == out or bytes(got).startswith(out)
    except Exception:
        return True
    return True


# -------------------------------------------------------------------------------------------------
# server side: BaseRequest.read() and client_max_size

def suite_server(ctx, exe, n):
    from aiohttp import web
    from harness.common.transport import start_server
    rng = ctx.rng
    loop = _loop()
    ran = 0
    lines, expect = [], []
    pr = _install_peak_reader()      # a StreamReader subclass without __slots__: readany can be wrapped per instance
    pr.slack = 1 << 40
    try:
        for _ in range(n):
            cms = rng.choice([0, 1, 10, 100, 1000, 5000, 70000])
            enc = rng.choice(["", "gzip", "deflate", "br", "zstd"])
            plain = gen_plain(rng, rng.choice(["empty", "short", "runs", "bomb", "random", "bomb"]))
            if rng.random() < 0.2:
                plain = bytes([65]) * rng.choice([5000, 70001, 300000])
            body = real_encode(enc, plain, rng) if enc else plain
            chunked = rng.random() < 0.5 or not body
            wire = chunked_frame(rng, body, False) if chunked else body
            head = b"POST / HTTP/1.1\r\nHost: x\r\n" + (b"Content-Encoding: " + enc.encode() + b"\r\n" if enc else b"") \
                + (b"Transfer-Encoding: chunked\r\n" if chunked else b"Content-Length: %d\r\n" % len(body)) + b"\r\n"
            segs = segments(rng, wire)
            rec = {"chunks": [], "result": None, "peak_total": 0}
            bufsize = rng.choice([16, 256, 4096, 2 ** 16])
            # graceful shutdown (Server.pre_shutdown() -> RequestHandler.close()) while the handler is reading the
            # body: the request being handled must still get the rest of its body, including input the paused
            # parser / decompressor already holds (it is pushed by resume_reading() -> data_received(b"")).
            close_at = rng.randrange(len(segs) + 1) if rng.random() < 0.2 else None
            # ... or from inside the handler, after its k-th readany() (everything may have been delivered by then)
            close_after_reads = rng.choice([1, 1, 2, 3, 5]) if close_at is None and rng.random() < 0.3 else None
            closed_mid = [False]

            async def handler(request, rec=rec, close_after_reads=close_after_reads, closed_mid=closed_mid):
                payload = request.content
                orig = payload.readany

                async def readany():
                    c = await orig()
                    if rec["result"] is None:      # later calls are the server draining the unread body
                        rec["chunks"].append(bytes(c))
                        if close_after_reads is not None and len(rec["chunks"]) == close_after_reads and not closed_mid[0]:
                            request.protocol.close()
                            closed_mid[0] = True
                    return c
                payload.readany = readany
                try:
                    data = await request.read()
                    rec["result"] = ("ok", data)
                except web.HTTPRequestEntityTooLarge:
                    rec["result"] = ("toolarge", None)
                    rec["peak_total"] = payload.total_bytes
                    raise
                return web.Response(text="ok")

            async def go():
                app = web.Application(client_max_size=cms)
                app.router.add_post("/", handler)
                runner, connect = await start_server(app, loop, read_bufsize=bufsize)
                proto, tr = connect()
                proto.data_received(head)

                async def shutdown_now():
                    for _ in range(3):
                        if proto._current_request is not None:
                            break
                        await asyncio.sleep(0)
                    if proto._current_request is not None and not tr.closed:
                        proto.close()
                        closed_mid[0] = True
                for i, s in enumerate(segs):
                    if close_at == i:
                        await shutdown_now()
                    for _ in range(200):
                        if tr.reading:
                            break
                        await asyncio.sleep(0)
                    if tr.closed:
                        break
                    proto.data_received(s)
                    for _ in range(rng.choice([0, 1, 3])):
                        await asyncio.sleep(0)
                if close_at == len(segs):
                    await shutdown_now()
                for _ in range(400):
                    if rec["result"] is not None:
                        break
                    await asyncio.sleep(0)
                out = bytes(tr.buf)
                tr.close()
                await asyncio.sleep(0)
                await runner.cleanup()
                return out
            case = {"suite": "server", "cms": cms, "bufsize": bufsize, "enc": enc, "plain_len": len(plain), "chunked": chunked, "body": body.hex(),
                    "segs": [len(x) for x in segs], "shutdown_before_seg": close_at, "shutdown_after_reads": close_after_reads}
            try:
                resp = loop.run_until_complete(asyncio.wait_for(go(), 600))
            except Exception as e:  # noqa
                ctx.violation(dict(case, kind="server_crash"), f"server_crash: {e!r}")
                continue
            ran += 1
            res = rec["result"]
            ctx.case((cms, enc, len(plain), res and res[0]), nontrivial=bool(res and res[0] == "ok" and res[1]))
            ctx.count("server:" + (res[0] if res else "noresult"))
            ctx.count("server:shutdown_mid_body:" + ("yes" if closed_mid[0] else "no"))
            too_big = cms and len(plain) > cms
            if res is None:
                ctx.violation(dict(case, kind="server_stuck"), "server_stuck: request.read() never returned for a complete request body"
                              + (" (graceful shutdown began while the handler was reading it)" if closed_mid[0] else ""))
                continue
            if res[0] == "ok":
                if too_big:
                    ctx.violation(dict(case, kind="max_size"), f"max_size: read() returned {len(res[1])} bytes with client_max_size={cms}")
                elif res[1] != plain:
                    ctx.violation(dict(case, kind="not_transparent"), "not_transparent: read() != reference decoding of the request body")
            else:
                if not too_big:
                    ctx.violation(dict(case, kind="spurious_413"), f"spurious_413: body of {len(plain)} bytes refused with client_max_size={cms}")
                if b" 413 " not in resp.split(b"\r\n", 1)[0]:
                    ctx.violation(dict(case, kind="no_413"), f"no_413: status line {resp[:40]!r}")
            acc = sum(len(c) for c in rec["chunks"])
            if cms:
                # accumulated before the test fires: at most client_max_size + one readany() result, and one
                # readany() result is bounded by the reader's marks: high + cap(max_length), low = max(cms, limit)
                big = max(cms, bufsize)
                # an uncompressed body reaches the reader one network segment at a time, whatever its size
                lim = cms + 2 * big + (cap_of(enc)(big) if enc else max(map(len, segs), default=0)) + 4096
                if acc > lim:
                    ctx.violation(dict(case, kind="max_size_accumulate"), f"max_size_accumulate: read() accumulated {acc} bytes with client_max_size={cms}")
            lines.append("RR %d %s" % (cms, " ".join(fw.hexs(c) for c in rec["chunks"])))
            expect.append("TOOLARGE" if res[0] == "toolarge" else "OK.%d" % len(res[1]))
    finally:
        asyncio.set_event_loop(None)
        loop.close()
    if lines and exe:
        model = fw.run_model(exe, lines)
        for ln, ex, m in zip(lines, expect, model):
            if not m.startswith(ex):
                ctx.disagreement("server_read", {"suite": "server", "line": ln[:300]}, m, ex)
    ctx.close_suite("server_read", ran)


def suite_closing_gate(ctx, exe):
    """The translated closing-connection gate of RequestHandler.data_received (dg_srv_closing_feeds) against the
    implementation, over its whole truth table: does a call reach HttpParser.feed_data?"""
    from unittest import mock
    from aiohttp import web
    from harness.common.transport import start_server
    loop = _loop()
    rows = []
    try:
        async def go():
            async def handler(request):
                return web.Response()
            app = web.Application()
            app.router.add_get("/", handler)
            runner, connect = await start_server(app, loop)
            for bits in range(128):
                b = [(bits >> (6 - i)) & 1 for i in range(7)]
                nonempty, has_req, at_eof, has_tr, has_parser, custom_pp, upgraded = b
                proto, tr = connect()
                for flag in ("_close", "_force_close"):
                    p = mock.Mock()
                    p.feed_data.return_value = ((), False, b"")
                    req = mock.Mock()
                    req.content.is_eof.return_value = bool(at_eof)
                    saved = (proto._current_request, proto.transport, proto._parser, proto._payload_parser, proto._upgraded)
                    proto._current_request = req if has_req else None
                    proto.transport = tr if has_tr else None
                    proto._parser = p if has_parser else None
                    proto._payload_parser = mock.Mock() if custom_pp else None
                    proto._upgraded = bool(upgraded)
                    setattr(proto, flag, True)
                    try:
                        proto.data_received(b"x" if nonempty else b"")
                        fed = p.feed_data.called
                    except Exception as e:  # noqa
                        fed = "raised " + type(e).__name__
                    setattr(proto, flag, False)
                    proto._current_request, proto.transport, proto._parser, proto._payload_parser, proto._upgraded = saved
                    rows.append(("".join(map(str, b)), flag, fed))
                tr.close()
                await asyncio.sleep(0)
            await runner.cleanup()
        loop.run_until_complete(asyncio.wait_for(go(), 600))
    finally:
        asyncio.set_event_loop(None)
        loop.close()
    model = fw.run_model(exe, ["GATE " + bits for bits, _, _ in rows]) if exe else [None] * len(rows)
    for (bits, flag, fed), m in zip(rows, model):
        ctx.case(("gate", bits, flag, fed), nontrivial=fed is True)
        ctx.count("gate:" + ("fed" if fed is True else "ignored" if fed is False else str(fed)))
        if m is not None and m.strip() != ("1" if fed is True else "0"):
            ctx.disagreement("closing_gate", {"suite": "closing_gate", "bits(nonempty,has_req,at_eof,has_tr,has_parser,custom_pp,upgraded)": bits,
                                              "flag": flag}, m.strip(), fed)
        # the property: the request being handled keeps getting its body, whatever the data argument
        arg = "non-empty data" if bits[0] == "1" else "b''"
        if bits[1:] == "101100" and fed is not True:
            ctx.violation({"suite": "closing_gate", "kind": "closing_starves_body", "bits": bits, "flag": flag},
                          f"closing_starves_body: with {flag} set, data_received({arg}) does not reach the parser "
                          "although a request is being handled and its body is not at EOF (resume_reading() pushes pending input with b'')")
    ctx.close_suite("closing_gate", len(rows))


# =================================================================================================

def run(ctx):
    ok, exe = build_model()
    ctx.oblige("model-runner-build", "correspondence", ok, "" if ok else exe)
    if not ok:
        exe = None          # the property oracle does not need the model
    q = ctx.quick
    import time
    for name, fn, args in (("handler", suite_handler, (exe, 400 if q else 6000)), ("glue", suite_glue, (exe, 900 if q else 20000)),
                           ("real", suite_real, (220 if q else 5000,)), ("laws", suite_laws, (250 if q else 5000,)),
                           ("server", suite_server, (exe, 150 if q else 1500))):
        t0 = time.time()
        if name == "handler" and exe is None:
            continue
        fn(ctx, *args)
        ctx.notes.append(f"suite {name}: {time.time() - t0:.1f}s")
    suite_closing_gate(ctx, exe)


def replay(ctx, case):
    from aiohttp import compression_utils as cu
    suite = case.get("suite", "glue")
    if suite not in ("glue", "real"):
        return {"violates": None, "note": f"suite {suite}: re-run with the recorded seed"}
    ok, exe = build_model()
    loop = _loop()
    toy = case.get("codec") in ("toy", "identity")
    if toy:
        cu.set_zlib_backend(ToyZlib())
    try:
        evs, obs, summary, bad = run_case(loop, case, evs=case["events"])
    finally:
        cu.set_zlib_backend(_zlib)
        asyncio.set_event_loop(None)
        loop.close()
    v = verdicts(case, summary, case_ref(case)) + bad
    res = {"events": evs, "impl": obs, "outcome": summary["outcome"], "received": len(summary["received"]),
           "violates": bool([k for k, _ in v if case.get("kind") in (None, k)]), "why": [f"{k}: {m}" for k, m in v]}
    if toy and ok:
        m = fw.run_model(exe, [model_line(case["cfg"], evs)])[0].split()
        res["model"] = m
        res["agree"] = m == obs
    return res


def _blocked_before_close(evs, obs) -> bool:
    """The consumer was blocked when the peer closed, after the last data event."""
    blocked = False
    for tok, o in zip(evs, obs):
        r = o.split("/")[0]
        if tok == "X" and r != "s":
            return blocked
        if tok[0] in "AR":
            blocked = r == "b"
        elif r not in ("-", "s"):
            blocked = False
    return False
