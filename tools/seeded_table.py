#!/usr/bin/env python3
"""Markdown table of the seeded (adversary) changes and what the checks reported; from seeded/*/meta.json."""
import json, glob, os
VERIF = os.path.dirname(os.path.dirname(os.path.abspath(__file__)))
rows = []
for f in sorted(glob.glob(os.path.join(VERIF, "seeded", "*", "meta.json"))):
    m = json.load(open(f))
    name = os.path.basename(os.path.dirname(f))
    for p, c in (m.get("checks") or {}).items():
        fv = c.get("first_violation") or {}
        how = "concrete replay" if c.get("concrete_input") else ("no-failing-input-found (broken obligation)" if c.get("detected") else "")
        rows.append((name, p, (m.get("what_breaks") or "")[:150].replace("|", "/").replace("\n", " "),
                     (m.get("needs_to_manifest") or "")[:130].replace("|", "/").replace("\n", " "),
                     "caught" if c.get("detected") else "MISSED", how, (fv.get("what") or "")[:140].replace("|", "/").replace("\n", " ")))
print("| change | check | what it breaks | needs | result | how | first report |\n|---|---|---|---|---|---|---|")
for r in rows:
    print("| " + " | ".join(r) + " |")
