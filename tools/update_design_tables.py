#!/usr/bin/env python3
import subprocess, os, re
VERIF = os.path.dirname(os.path.dirname(os.path.abspath(__file__)))
tab = subprocess.run(["python3", os.path.join(VERIF, "tools", "seeded_table.py")], stdout=subprocess.PIPE, text=True).stdout
p = os.path.join(VERIF, "DESIGN.md")
s = open(p).read()
s = re.sub(r"<!-- SEEDED-TABLE-BEGIN -->.*?<!-- SEEDED-TABLE-END -->", "<!-- SEEDED-TABLE-BEGIN -->\n" + tab + "<!-- SEEDED-TABLE-END -->", s, flags=re.S)
open(p, "w").write(s)
print(tab.count("\n") - 2, "rows")
