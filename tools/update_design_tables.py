#!/usr/bin/env python3
import subprocess, os, re
VERIF = os.path.dirname(os.path.dirname(os.path.abspath(__file__)))
tab = subprocess.run(["python3", os.path.join(VERIF, "tools", "seeded_table.py")], stdout=subprocess.PIPE, text=True).stdout
p = os.path.join(VERIF, "DESIGN.md")
s = open(p).read()
a = s.index("<!-- SEEDED-TABLE-BEGIN -->"); b = s.index("<!-- SEEDED-TABLE-END -->"); s = s[:a] + "<!-- SEEDED-TABLE-BEGIN -->\n" + tab + s[b:]
open(p, "w").write(s)
print(tab.count("\n") - 2, "rows")
