#!/usr/bin/env python3
"""Run every claimed check (quick tier by default) on /repo, one after the other; validate evidence; summary.
usage: run_all.py [--tier quick|thorough] [--seed N] [C01 C02 ...]"""
import json, os, subprocess, sys, time
VERIF = os.path.dirname(os.path.dirname(os.path.abspath(__file__)))
args = sys.argv[1:]
tier, seed, only = "quick", "0", []
while args:
    a = args.pop(0)
    if a == "--tier": tier = args.pop(0)
    elif a == "--seed": seed = args.pop(0)
    else: only.append(a)
m = json.load(open(os.path.join(VERIF, "MANIFEST.json")))
schema = os.path.join("/root/.vp/EVIDENCE.schema.json")
rows = []
for c in m["checks"]:
    p = c["property_id"]
    if only and p not in only:
        continue
    t0 = time.time()
    r = subprocess.run(["./check", p, "--tier", tier, "--seed", seed], cwd=VERIF, stdout=subprocess.PIPE, stderr=subprocess.STDOUT, text=True)
    dt = time.time() - t0
    viol = [l for l in r.stdout.splitlines() if l.startswith("VIOLATION")]
    known = [l for l in r.stdout.splitlines() if l.startswith("KNOWN-FINDING")]
    summ = [l for l in r.stdout.splitlines() if l.startswith(f"[{p}] tier")]
    v = subprocess.run(["python3-vt", "-c", f"import json,jsonschema; jsonschema.validate(json.load(open('{VERIF}/evidence/{p}.json')), json.load(open('{schema}')))"],
                       stdout=subprocess.PIPE, stderr=subprocess.STDOUT, text=True)
    rows.append((p, r.returncode, len(viol), len(known), f"{dt:.0f}s", "evidence ok" if v.returncode == 0 else "EVIDENCE INVALID", summ[-1] if summ else r.stdout[-300:]))
    print(rows[-1], flush=True)
    if viol:
        print("\n".join(viol[:3]), flush=True)
print("\nSUMMARY")
for r in rows:
    print(" ".join(str(x) for x in r[:6]))
sys.exit(1 if any(r[1] != 0 or r[5] != "evidence ok" for r in rows) else 0)
