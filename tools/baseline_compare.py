#!/usr/bin/env python3
"""Compare a junit xml of the repository's suite with BASELINE.json stable_pass.
usage: baseline_compare.py <junit.xml>   -> exit 0 iff every stable_pass test passed"""
import json, sys
import xml.etree.ElementTree as ET
b = json.load(open("/root/.vp/BASELINE.json"))
stable = set(b["stable_pass"])
passed, failed = set(), set()
for tc in ET.parse(sys.argv[1]).getroot().iter("testcase"):
    tid = f"{tc.get('classname')}::{tc.get('name')}"
    bad = any(ch.tag in ("failure", "error", "skipped") for ch in tc)
    (failed if bad else passed).add(tid)
missing = sorted(stable - passed)
print(f"passed={len(passed)} failed_or_skipped={len(failed)} stable={len(stable)} stable_not_passed={len(missing)}")
for m in missing[:40]:
    print("  NOT PASSED:", m)
sys.exit(1 if missing else 0)
