#!/usr/bin/env python3
"""Markdown table of the fix: commits in /repo with the properties whose known-findings files reference them."""
import json, glob, os, subprocess
VERIF = os.path.dirname(os.path.dirname(os.path.abspath(__file__)))
refs = {}
for f in sorted(glob.glob(os.path.join(VERIF, "known_findings.d", "C*.json"))):
    for e in json.load(open(f)):
        st = str(e.get("status", ""))
        if st.startswith("fixed:"):
            refs.setdefault(st.split(":", 1)[1][:7], set()).add(e["property"])
log = subprocess.run(["git", "-C", "/repo", "log", "--reverse", "--format=%h\t%s"], stdout=subprocess.PIPE, text=True).stdout
print("| commit | recorded under | subject |\n|---|---|---|")
n = 0
for line in log.splitlines():
    h, subj = line.split("\t", 1)
    if subj.startswith("fix:"):
        n += 1
        print(f"| {h} | {', '.join(sorted(refs.get(h[:7], []))) or '(see 10.2)'} | {subj[4:].strip()} |")
