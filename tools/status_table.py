#!/usr/bin/env python3
"""Per-property status table for DESIGN.md §10.5 (between <!-- STATUS-TABLE-BEGIN/END -->)."""
import glob, json, os, re
VERIF = os.path.dirname(os.path.dirname(os.path.abspath(__file__)))
rows = ["| property | statements in `Props/Cxx.v` (full / `_partial` / `_refuted` / examples) | obligations discharged (last evidence file) | open findings | repaired | seeded changes caught by own check (concrete) |",
        "|---|---|---|---|---|---|"]
for i in range(1, 21):
    p = f"C{i:02d}"
    src = open(os.path.join(VERIF, "coq", "Props", p + ".v")).read()
    names = re.findall(r"^\s*(Theorem|Lemma|Example|Corollary)\s+([A-Za-z0-9_']+)", src, re.M)
    ex = sum(1 for k, n in names if k == "Example" or "example" in n.lower() or "witness" in n.lower())
    part = sum(1 for k, n in names if "_partial" in n)
    ref = sum(1 for k, n in names if "_refuted" in n)
    full = len(names) - ex - part - ref
    kf = json.load(open(os.path.join(VERIF, "known_findings.d", p + ".json"))) if os.path.exists(os.path.join(VERIF, "known_findings.d", p + ".json")) else []
    op = sum(1 for e in kf if e["status"] == "open")
    fx = sum(1 for e in kf if str(e["status"]).startswith("fixed"))
    ev = json.load(open(os.path.join(VERIF, "evidence", p + ".json")))
    cov = ev.get("coverage", {})
    suites = cov.get("obligations", "?")
    caught = conc = tot = 0
    for d in sorted(glob.glob(os.path.join(VERIF, "seeded", p + "-*"))):
        m = json.load(open(os.path.join(d, "meta.json")))
        c = (m.get("checks") or {}).get(p)
        tot += 1
        if c and c.get("detected"):
            caught += 1
            conc += bool(c.get("concrete_input"))
    rows.append(f"| {p} | {full} / {part} / {ref} / {ex} | {cov.get('discharged', '?')}/{suites} | {op} | {fx} | {caught}/{tot} ({conc}) |")
tab = "\n".join(rows) + "\n"
dp = os.path.join(VERIF, "DESIGN.md")
s = open(dp).read()
if "<!-- STATUS-TABLE-BEGIN -->" in s:
    a = s.index("<!-- STATUS-TABLE-BEGIN -->"); b = s.index("<!-- STATUS-TABLE-END -->")
    s = s[:a] + "<!-- STATUS-TABLE-BEGIN -->\n" + tab + s[b:]
    open(dp, "w").write(s)
print(tab)
