#!/usr/bin/env python3
"""Verify an adversary change and run the registered quick check(s) against it.
usage: run_seeded.py <src dir with patch.diff/demo/meta.json> [--props C01,C03] [--keep]
Copies the change to /verif/seeded/<name>/, checks in a scratch export of /repo HEAD that the demo passes
without and fails with the patch, runs ./check <prop> with VERIF_REPO pointing at the patched export, and
records everything in seeded/<name>/meta.json (keys lead_verified, checks)."""
import json, os, shutil, subprocess, sys, glob, time
VERIF = os.path.dirname(os.path.dirname(os.path.abspath(__file__)))
src = sys.argv[1].rstrip("/")
name = os.path.basename(src)
props = None
for i, a in enumerate(sys.argv):
    if a == "--props":
        props = sys.argv[i + 1].split(",")
dst = os.path.join(VERIF, "seeded", name)
os.makedirs(dst, exist_ok=True)
for f in os.listdir(src):
    if os.path.isfile(os.path.join(src, f)) and os.path.realpath(src) != os.path.realpath(dst):
        shutil.copy(os.path.join(src, f), os.path.join(dst, f))
meta = json.load(open(os.path.join(dst, "meta.json")))
props = props or [meta.get("property", name.split("-")[0])]
scratch = f"/tmp/seedrun-{name}"
shutil.rmtree(scratch, ignore_errors=True)
os.makedirs(scratch)
subprocess.run(f"git -C /repo archive HEAD | tar -x -C {scratch}", shell=True, check=True)
demos = [f for f in os.listdir(dst) if f.startswith(("demo", "test_demo")) and f.endswith(".py")]
env = dict(os.environ, AIOHTTP_NO_EXTENSIONS="1", PYTHONPATH=scratch, PYTHONDONTWRITEBYTECODE="1")
def run_demo():
    out = []
    for d in demos:
        shutil.copy(os.path.join(dst, d), os.path.join(scratch, d))
        cmd = ["/venv/bin/python", "-m", "pytest", "-q", "-p", "no:cacheprovider", d] if d.startswith("test_") else ["/venv/bin/python", d]
        p = subprocess.run(cmd, cwd=scratch, env=env, stdout=subprocess.PIPE, stderr=subprocess.STDOUT, text=True, timeout=600)
        out.append((d, p.returncode, p.stdout[-600:]))
    return out
before = run_demo()
ap = subprocess.run(["git", "apply", "--unsafe-paths", "--directory", scratch, os.path.join(dst, "patch.diff")], cwd="/", stdout=subprocess.PIPE, stderr=subprocess.STDOUT, text=True)
if ap.returncode != 0:
    ap = subprocess.run(["patch", "-p1", "-i", os.path.join(dst, "patch.diff")], cwd=scratch, stdout=subprocess.PIPE, stderr=subprocess.STDOUT, text=True)
after = run_demo()
meta["lead_verified"] = {"patch_applies": ap.returncode == 0, "demo_before": [(d, rc) for d, rc, _ in before],
                         "demo_after": [(d, rc) for d, rc, _ in after],
                         "ok": ap.returncode == 0 and all(rc == 0 for _, rc, _ in before) and any(rc != 0 for _, rc, _ in after)}
print(name, "verified:", meta["lead_verified"])
if not meta["lead_verified"]["ok"]:
    print(ap.stdout[-500:]); print(before); print(after)
checks = {}
for p in props:
    t0 = time.time()
    r = subprocess.run(["./check", p, "--tier", "quick"], cwd=VERIF, env=dict(os.environ, VERIF_REPO=scratch),
                       stdout=subprocess.PIPE, stderr=subprocess.STDOUT, text=True, timeout=3000)
    lines = [l for l in r.stdout.splitlines() if l.startswith(("VIOLATION", "KNOWN-FINDING")) or "obligation BROKEN" in l or l.startswith(f"[{p}] tier")]
    viol = [l for l in lines if l.startswith("VIOLATION")]
    replay = None
    if viol:
        path = viol[0].split("replay=")[1].split()[0]
        try:
            rp = json.load(open(os.path.join(VERIF, path)))
            replay = {"what": rp.get("what"), "case": json.dumps(rp.get("case"))[:600], "broken": [b if isinstance(b, str) else b.get("name") for b in rp.get("broken_obligations", [])][:8]}
        except Exception as e:  # noqa
            replay = {"error": repr(e)}
    checks[p] = {"exit": r.returncode, "detected": r.returncode == 1 and bool(viol),
                 "concrete_input": bool(viol) and not any("no-failing-input-found" in v for v in viol[:1]),
                 "first_violation": replay, "lines": [l[:300] for l in lines][:12], "wall_s": round(time.time() - t0)}
    print(name, p, "exit", r.returncode, "detected" if checks[p]["detected"] else "MISSED", "concrete" if checks[p]["concrete_input"] else "", f"{time.time()-t0:.0f}s")
meta.setdefault("checks", {}).update(checks)
json.dump(meta, open(os.path.join(dst, "meta.json"), "w"), indent=1)
if "--keep" not in sys.argv:
    shutil.rmtree(scratch, ignore_errors=True)
    import hashlib
    shutil.rmtree("/tmp/verif-work-" + hashlib.sha256(os.path.realpath(scratch).encode()).hexdigest()[:12], ignore_errors=True)
# the check ran against the patched copy: regenerate Generated files / evidence from the real tree afterwards
