#!/bin/bash
# Build everything the registered checks need, offline, from files on disk only.
# Best effort per property: a property whose closure does not build is reported here and again (as a
# broken obligation) by its own check, which always rebuilds what it needs; it never blocks the others.
HERE="$(cd "$(dirname "$0")" && pwd)"
cd "$HERE"
export PYTHONPATH="${VERIF_REPO:-/repo}:$HERE" AIOHTTP_NO_EXTENSIONS=1 PYTHONHASHSEED=0 PYTHONDONTWRITEBYTECODE=1
/venv/bin/python - <<'PY'
import json, sys, os, importlib, time
sys.path.insert(0, os.getcwd())
from harness.common import framework as fw
from translator import gen
t0 = time.time()
r = gen.regenerate()
for k, v in r.items():
    print("translator", k, "ok" if v["ok"] else "FAIL " + v["error"], flush=True)
m = json.load(open("MANIFEST.json"))
props = sorted({c["property_id"] for c in m["checks"]})
built, failed = [], []
for p in props:
    if not os.path.exists(f"coq/Props/{p}.v"):
        failed.append(p); print(p, "has no coq/Props file", flush=True); continue
    ok, log, dt = fw.coq_make([f"Props/{p}.vo"], timeout=900)
    print(f"coq closure of Props/{p}.v: {'ok' if ok else 'FAILED'} in {dt:.0f}s", flush=True)
    if not ok:
        print(log[-1500:], flush=True)
    (built if ok else failed).append(p)
for p in props:
    try:
        mod = importlib.import_module(f"harness.{p.lower()}")
        if hasattr(mod, "build_model"):
            okm, msg = mod.build_model()
            print(p, "model runner:", "ok" if okm else "FAILED\n" + str(msg)[-1500:], flush=True)
    except Exception as e:  # noqa
        print(p, "harness import/build failed:", repr(e), flush=True)
print(f"setup: {len(built)}/{len(props)} property closures built in {time.time()-t0:.0f}s; failed: {failed}", flush=True)
sys.exit(0 if built else 1)
PY
