#!/bin/bash
# Build everything the registered checks need, offline, from files on disk only.
set -e
HERE="$(cd "$(dirname "$0")" && pwd)"
cd "$HERE"
export PYTHONPATH="${VERIF_REPO:-/repo}:$HERE" AIOHTTP_NO_EXTENSIONS=1 PYTHONHASHSEED=0 PYTHONDONTWRITEBYTECODE=1
/venv/bin/python - <<'PY'
import json, sys, os
sys.path.insert(0, os.getcwd())
from harness.common import framework as fw
from translator import gen
r = gen.regenerate()
for k, v in r.items():
    print("translator", k, "ok" if v["ok"] else "FAIL " + v["error"])
m = json.load(open("MANIFEST.json"))
props = sorted({c["property_id"] for c in m["checks"]})
targets = [f"Props/{p}.vo" for p in props if os.path.exists(f"coq/Props/{p}.v")]
ok, log, dt = fw.coq_make(targets, timeout=3400)
print(log[-3000:])
print(f"coq build of {len(targets)} property files: {'ok' if ok else 'FAILED'} in {dt:.0f}s")
bad = 0 if ok else 1
import importlib
for p in props:
    mod = importlib.import_module(f"harness.{p.lower()}")
    if hasattr(mod, "build_model"):
        okm, msg = mod.build_model()
        print(p, "model runner:", "ok" if okm else "FAILED\n" + msg[-2000:])
        bad |= (not okm)
sys.exit(bad)
PY
