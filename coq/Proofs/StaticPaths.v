(* C15 — lemmas about the string-level path functions: an absolute normpath result parses into
   segments none of which is "..", and the path realpath returns when it gives up is absolute. *)
From AV Require Import Lib.Base Generated.StaticGen Model.Static Model.StaticSpec.
Open Scope N_scope.

Lemma memN_app x a b : memN x (a ++ b) = memN x a || memN x b.
Proof. induction a as [|y a IH]; cbn [memN app]; [reflexivity|]. rewrite IH, orb_assoc. reflexivity. Qed.

(* ---- split / join ---- *)
Lemma split_on_nonempty sep s : split_on sep s <> [].
Proof. destruct s as [|c r]; cbn [split_on]; [discriminate|]. destruct (c =? sep); [discriminate|]. destruct (split_on sep r); discriminate. Qed.

Lemma split_on_no_sep sep s : forall x, In x (split_on sep s) -> memN sep x = false.
Proof.
  induction s as [|c r IH]; cbn [split_on]; intros x Hx.
  - destruct Hx as [<-|[]]. reflexivity.
  - destruct (c =? sep) eqn:E.
    + destruct Hx as [<-|Hx]; [reflexivity|auto].
    + destruct (split_on sep r) as [|h t] eqn:Es.
      * destruct Hx as [<-|[]]. cbn [memN]. rewrite N.eqb_sym, E. reflexivity.
      * destruct Hx as [<-|Hx].
        -- cbn [memN]. rewrite N.eqb_sym, E. cbn [orb]. apply IH. left. reflexivity.
        -- apply IH. right. exact Hx.
Qed.

Lemma split_on_free sep x : memN sep x = false -> split_on sep x = [x].
Proof.
  induction x as [|c r IH]; cbn [split_on memN]; intro H; [reflexivity|].
  apply orb_false_iff in H as [H1 H2]. rewrite N.eqb_sym, H1. rewrite (IH H2). reflexivity.
Qed.

Lemma split_on_app_sep sep x r : memN sep x = false -> split_on sep (x ++ sep :: r) = x :: split_on sep r.
Proof.
  induction x as [|c x IH]; cbn [split_on memN app]; intro H.
  - rewrite N.eqb_refl. reflexivity.
  - apply orb_false_iff in H as [H1 H2]. rewrite N.eqb_sym, H1. rewrite (IH H2). reflexivity.
Qed.

Lemma split_join sep l : l <> [] -> (forall x, In x l -> memN sep x = false) -> split_on sep (join_with sep l) = l.
Proof.
  induction l as [|x l IH]; intros Hne Hl; [congruence|].
  destruct l as [|y l].
  - cbn [join_with]. apply split_on_free. apply Hl. left. reflexivity.
  - change (join_with sep (x :: y :: l)) with (x ++ sep :: join_with sep (y :: l)).
    rewrite split_on_app_sep by (apply Hl; left; reflexivity).
    f_equal. apply IH; [discriminate|]. intros z Hz. apply Hl. right. exact Hz.
Qed.

(* ---- normpath of an absolute string has no ".." ---- *)
Definition no_dd (l : list seg) : bool := forallb (fun x => negb (is_dotdot x)) l.

Lemma no_dd_rev l : no_dd l = true -> no_dd (rev l) = true.
Proof.
  unfold no_dd. rewrite !forallb_forall. intros H x Hx. apply H. apply in_rev. exact Hx.
Qed.

Lemma norm_comps_no_dd : forall comps acc, no_dd acc = true -> no_dd (norm_comps true comps acc) = true.
Proof.
  induction comps as [|c r IH]; intros acc Ha; cbn [norm_comps].
  - apply no_dd_rev. exact Ha.
  - destruct (is_empty c || is_dot c); [apply IH; exact Ha|].
    cbn [negb andb orb].
    assert (Hh : match acc with h :: _ => is_dotdot h | [] => false end = false).
    { destruct acc as [|h t]; [reflexivity|]. unfold no_dd in Ha. cbn [forallb] in Ha.
      apply andb_true_iff in Ha as [Ha _]. apply negb_true_iff in Ha. exact Ha. }
    rewrite Hh, !orb_false_r.
    destruct (is_dotdot c) eqn:Ed; cbn [negb].
    + apply IH. destruct acc as [|h t]; [reflexivity|]. unfold no_dd in *. cbn [forallb tl] in *.
      apply andb_true_iff in Ha as [_ Ha]. exact Ha.
    + apply IH. unfold no_dd in *. cbn [forallb]. rewrite Ed. cbn [negb andb]. exact Ha.
Qed.

Lemma norm_comps_in abs : forall comps acc x, In x (norm_comps abs comps acc) -> In x comps \/ In x acc.
Proof.
  induction comps as [|c r IH]; intros acc x Hx; cbn [norm_comps] in Hx.
  - right. apply in_rev. exact Hx.
  - destruct (is_empty c || is_dot c).
    + destruct (IH _ _ Hx); [left; right; assumption|right; assumption].
    + match type of Hx with context [if ?b then _ else _] => destruct b end.
      * destruct (IH _ _ Hx) as [H|[H|H]]; [left; right; assumption|left; left; assumption|right; assumption].
      * destruct (IH _ _ Hx) as [H|H]; [left; right; assumption|].
        right. destruct acc; [destruct H|right; exact H].
Qed.

Lemma no_dd_filter P l : no_dd l = true -> no_dd (filter P l) = true.
Proof.
  unfold no_dd. rewrite !forallb_forall. intros H x Hx. apply filter_In in Hx as [Hx _]. auto.
Qed.

Lemma normpath_abs_no_dd s : is_abs s = true -> no_dd (snd (parse_posix (py_normpath s))) = true.
Proof.
  intro Habs. unfold parse_posix. cbn [snd]. apply no_dd_filter.
  unfold py_normpath. destruct s as [|c0 s0] eqn:Es; [discriminate|]. rewrite <- Es.
  set (i := initial_slashes s). set (comps := norm_comps (negb (Nat.eqb i 0)) (split_on SLASH s) []).
  assert (Hi : i = 1%nat \/ i = 2%nat).
  { unfold i, initial_slashes. subst s. cbn [is_abs] in Habs. rewrite Habs.
    destruct s0 as [|b [|c s1]]; [auto| destruct (b =? SLASH); auto | destruct (b =? SLASH); [destruct (c =? SLASH)|]; auto]. }
  assert (Hc : no_dd comps = true /\ (forall x, In x comps -> memN SLASH x = false)).
  { unfold comps. destruct Hi as [-> | ->]; cbn [Nat.eqb negb]; (split; [apply norm_comps_no_dd; reflexivity|]);
      intros x Hx; apply norm_comps_in in Hx as [Hx|[]]; eapply split_on_no_sep; exact Hx. }
  destruct Hc as [Hc1 Hc2].
  assert (Hs : forall pre, no_dd pre = true -> no_dd (pre ++ split_on SLASH (join_with SLASH comps)) = true).
  { intros pre Hp. unfold no_dd. rewrite forallb_app. fold (no_dd pre). rewrite Hp. cbn [andb].
    destruct comps as [|x l] eqn:Ec.
    - reflexivity.
    - rewrite split_join; [exact Hc1|discriminate|exact Hc2]. }
  destruct Hi as [Hi|Hi]; rewrite Hi; cbn [repeat app].
  - cbn [split_on]. change (SLASH =? SLASH) with true. cbv iota. exact (Hs [[]] eq_refl).
  - cbn [split_on]. change (SLASH =? SLASH) with true. cbv iota. exact (Hs [[]; []] eq_refl).
Qed.

(* ---- what realpath returns when it gives up is an absolute string ---- *)
Lemma py_join_abs a b : is_abs a = true -> is_abs (py_join a b) = true.
Proof.
  intro Ha. unfold py_join. destruct (is_abs b) eqn:Eb; [exact Eb|].
  destruct a as [|c a]; [discriminate|].
  destruct (rev (c :: a)) as [|l r] eqn:Er.
  - apply (f_equal (@length _)) in Er. rewrite rev_length in Er. discriminate.
  - destruct (l =? SLASH); cbn [app is_abs] in *; exact Ha.
Qed.

Lemma abandon_at_abs : forall work acc level, is_abs acc = true -> is_abs (abandon_at acc level work) = true.
Proof.
  induction work as [|[s|p] w IH]; intros acc level Ha; cbn [abandon_at].
  - apply py_join_abs. exact Ha.
  - apply IH. exact Ha.
  - apply IH. apply py_join_abs. exact Ha.
Qed.

Lemma joinreal_partial_abs f : forall fuel inprog cur work s,
  joinreal fuel f inprog cur work = RP_partial s -> is_abs s = true.
Proof.
  induction fuel as [|k IH]; intros inprog cur work s H; cbn [joinreal] in H; [discriminate|].
  destruct work as [|[sg|lp] w]; [discriminate| |eapply IH; exact H].
  destruct (is_empty sg || is_dot sg); [eapply IH; exact H|].
  destruct (is_dotdot sg); [eapply IH; exact H|].
  destruct (memN 0 sg); [discriminate|].
  destruct (child f cur sg) as [[c| |t|]|]; try (eapply IH; exact H).
  destruct (path_mem (cur ++ [sg]) inprog); [|eapply IH; exact H].
  inversion H; subst. apply abandon_at_abs. unfold path_str. cbn [is_abs]. apply N.eqb_refl.
Qed.
