(* C09: decoded data held by the reader is bounded by high + cap(max(limit, low)), whatever the
   compression ratio, the segmentation and the consumer's schedule.

   The codec is abstract (Section variables); the only law used is the output cap
       hstep h x m = Some (Some (h', out)) -> m <> 0 -> |out| <= capf m
   (capf = id for zlib/zstd, 2m+32768 for the brotli binding; validated by sampling in harness/c09.py).

   Invariant:  B  rsize <= high + capf (max_length)            (when max_length is not "unlimited")
               G  inside one parser call: over the high-water mark => the payload parser is paused
                  (so the next guarded feed is not executed)
               K  between parser calls:   over the high-water mark => reading is paused
               Sz rsize = total length of the buffered blocks
   together with high = 2*low, "the transport honours pause_reading", "compressed body". *)
From AV Require Import Lib.Base Generated.DecodeGen Model.Decode.
From Coq Require Import ZifyBool ZifyN.
Ltac Zify.zify_post_hook ::= Z.to_euclidean_division_equations.
Open Scope N_scope.

Arguments cf {H} s. Arguments pr {H} s. Arguments pa {H} s. Arguments de {H} s. Arguments re {H} s. Arguments fed {H} s.
Arguments comp {H} d. Arguments d_enc {H} d. Arguments d_h {H} d. Arguments d_size {H} d. Arguments d_started {H} d.
Arguments core {H} s. Arguments pend {H} s.
Arguments BNext {H} s chunk. Arguments BCont {H} s chunk. Arguments BRet {H} s r.

Lemma lenN_concat_snoc (l : list bytes) (x : bytes) : lenN (concat (l ++ [x])) = lenN (concat l) + lenN x.
Proof. rewrite concat_app, lenN_app. cbn [concat]. rewrite app_nil_r. reflexivity. Qed.

Lemma lenN_firstn_skipn (n : nat) (l : bytes) : lenN (firstn n l) + lenN (skipn n l) = lenN l.
Proof. rewrite <- lenN_app, firstn_skipn. reflexivity. Qed.

Lemma take_drop_len (k : N) (l : bytes) : lenN (take k l) + lenN (drop k l) = lenN l.
Proof. unfold take, drop. destruct (lenN l <=? k); [cbn; lia|apply lenN_firstn_skipn]. Qed.

Section Bound.
  Variable H : Type.
  Variable hnew : N -> H.
  Variable hstep : H -> bytes -> N -> option (option (H * bytes)).
  Variable havail : H -> bool.
  Variable heof : H -> bool.
  Variable hflush : H -> option bytes.
  Variable capf : N -> N.
  Hypothesis cap_law : forall h x m h' out, hstep h x m = Some (Some (h', out)) -> m <> 0 -> lenN out <= capf m.
  Hypothesis capf_mono : forall a b, a <= b -> capf a <= capf b.

  Notation st := (st H).
  Notation sys := (sys H).

  (* ---- the quantities the invariant speaks about ------------------------------------------- *)
  Definition Mx (s : st) : N := dg_max_length (c_limit (cf s)) (low (re s)).
  Definition B (s : st) : Prop := Mx s <> 0 -> rsize (re s) <= high (re s) + capf (Mx s).
  Definition Sz (s : st) : Prop := rsize (re s) = lenN (concat (buf (re s))).
  Definition over (s : st) : Prop := high (re s) < rsize (re s).
  Definition E (s : st) : Prop := reof (re s) = true \/ ~ over s.
  Definition G (s : st) : Prop :=
    reof (re s) = true \/ (over s -> ppaused (pa s) = true /\ rpaused (pr s) = true /\ (connected (pr s) = true -> tpaused (pr s) = true)).
  Definition K (s : st) : Prop :=
    reof (re s) = true \/ parser_alive (pr s) = false \/
    (over s -> rpaused (pr s) = true /\ (connected (pr s) = true -> tpaused (pr s) = true)).
  (* things no parser function changes *)
  Definition frame (s s' : st) : Prop :=
    cf s' = cf s /\ low (re s') = low (re s) /\ high (re s') = high (re s) /\
    (comp (de s) = true -> comp (de s') = true) /\ ptyp (pa s') = ptyp (pa s) /\
    connected (pr s') = connected (pr s) /\ parser_alive (pr s') = parser_alive (pr s) /\
    (reof (re s) = true -> reof (re s') = true /\ rsize (re s') = rsize (re s)) /\
    (Sz s -> Sz s') /\ (closing (pr s) = true -> closing (pr s') = true).

  Lemma frame_refl s : frame s s.
  Proof. unfold frame; intuition. Qed.
  Lemma frame_trans a b c : frame a b -> frame b c -> frame a c.
  Proof.
    unfold frame. intros (A1 & A2 & A3 & A4 & A5 & A6 & A7 & A8 & A9 & A10) (B1 & B2 & B3 & B4 & B5 & B6 & B7 & B8 & B9 & B10).
    split; [congruence|]. split; [congruence|]. split; [congruence|]. split; [auto|]. split; [congruence|].
    split; [congruence|]. split; [congruence|]. split; [|split; auto].
    intros Hr. destruct (A8 Hr) as [Hr' Hs]. destruct (B8 Hr') as [Hr'' Hs']. split; congruence.
  Qed.

  Lemma E_G s : E s -> G s.
  Proof. unfold E, G. intros [He|Hn]; [left; exact He|right; intro Ho; contradiction]. Qed.
  Lemma G_K s : G s -> K s.
  Proof. unfold G, K. intros [He|Hg]; [left; exact He|right; right; intro Ho; destruct (Hg Ho) as (_ & A & C); split; assumption]. Qed.

  Ltac inv_some := repeat match goal with Hs : Some _ = Some _ |- _ => inversion Hs; clear Hs; subst end.
  Ltac crush := repeat split; intros; subst; inv_some; try reflexivity; try discriminate; try tauto; try congruence; try lia; intuition (try congruence; try lia).
  Ltac bust s :=
    destruct s as [c p q d rr fd]; destruct p as [co tp rp al ppr hm cl]; destruct q as [pt pl ppz cs csz ctl mo ep pd ntr btr];
    destruct d as [cm en dh dsz dst]; destruct rr as [bf rs lo hi lc hc eo ex tt cu sp w dl].
  Ltac unf := unfold frame in *; unfold B, Sz, E, G, K, over, Mx in *.

  (* ---- primitives ------------------------------------------------------------------------------ *)
  (* payload.feed_data(chunk) through the DeflateBuffer *)
  Lemma db_feed_spec s chunk s' r :
    comp (de s) = true -> B s -> E s -> db_feed H hnew hstep havail s chunk = (s', r) -> frame s s' /\ B s' /\ G s'.
  Proof.
    bust s. unf. cbn. intros -> Hb He. unfold db_feed. cbn.
    match goal with |- context [hstep ?a ?b ?m] => destruct (hstep a b m) as [[[h2 out]|]|] eqn:Eh end.
    - pose proof (cap_law _ _ _ _ _ Eh) as Hcap.
      destruct (isnil out) eqn:En; cbn.
      + intros [= <- <-]; cbn. crush.
      + unfold rd_feed; cbn. destruct eo; cbn.
        * intros [= <- <-]; cbn. crush.
        * rewrite En. unfold wake_ok; cbn. unfold dg_feed_pause.
          destruct w; cbn; destruct (hi <? rs + lenN out) eqn:Ep; cbn; intros [= <- <-]; cbn;
            rewrite ?lenN_concat_snoc; destruct co; cbn; crush.
    - intros [= <- <-]; cbn. crush.
    - intros [= <- <-]; cbn. crush.
  Qed.

  Lemma db_feed_err s chunk s' e : db_feed H hnew hstep havail s chunk = (s', FErr e) -> is_framing e = false.
  Proof.
    unfold db_feed. destruct (negb (comp (de (set_fed H s (fed s ++ chunk))))).
    - destruct (rd_feed H _ chunk); intros [= <- <-]; reflexivity.
    - match goal with |- context [hstep ?a ?b ?m] => destruct (hstep a b m) as [[[h2 out]|]|] end; try (intros [= <- <-]; reflexivity).
      destruct (isnil out); [discriminate|]. destruct (rd_feed H _ out); [discriminate|]. intros [= <- <-]; reflexivity.
  Qed.

  (* payload.feed_eof() *)
  Lemma db_feed_eof_spec s s' r :
    db_feed_eof H heof hflush s = (s', r) ->
    frame s s' /\ (B s -> B s') /\ (G s -> G s') /\ (K s -> K s') /\ (forall e, r = Some e -> is_framing e = false).
  Proof.
    bust s. unf. unfold db_feed_eof, rd_feed_eof, wake_ok. cbn.
    destruct cm; cbn; [destruct (hflush dh) as [fl|]; [destruct (isnil fl); cbn; [destruct ((0 <? dsz) && (en =? 2) && negb (heof dh)); cbn|]|]|];
      destruct w; cbn; intros [= <- <-]; cbn; destruct co; cbn; crush.
  Qed.

  Lemma rd_begin_chunk_spec s : let s' := rd_begin_chunk H s in frame s s' /\ (B s -> B s') /\ (G s -> G s') /\ (K s -> K s') /\ pa s' = pa s.
  Proof. bust s. unf. unfold rd_begin_chunk. cbn. destruct sp; cbn; crush. Qed.

  Lemma rd_end_chunk_spec s : let s' := rd_end_chunk H s in frame s s' /\ (B s -> B s') /\ (G s -> G s') /\ (K s -> K s').
  Proof.
    bust s. unf. unfold rd_end_chunk. cbn. destruct sp as [l|]; cbn; [|crush].
    destruct (tt =? last_or l 0); cbn; [crush|].
    unfold dg_chunk_pause. destruct (hc <? lenN (l ++ [tt])); cbn; unfold wake_ok; cbn; destruct w; cbn; destruct co; cbn; crush.
  Qed.

  Lemma rd_set_exn_spec s e : let s' := rd_set_exn H s e in frame s s' /\ (B s -> B s') /\ (G s -> G s') /\ (K s -> K s') /\ pa s' = pa s /\ pr s' = pr s.
  Proof. bust s. unf. unfold rd_set_exn. cbn. crush. Qed.

  (* setters of the payload parser's own fields *)
  Definition keeps (f : pp -> pp) : Prop := forall q, ppaused (f q) = ppaused q /\ ptyp (f q) = ptyp q.
  Definition keeps_typ (f : pp -> pp) : Prop := forall q, ptyp (f q) = ptyp q.

  Lemma upd_keep s f : keeps f ->
    let s' := upd_pa H s f in
    frame s s' /\ (B s -> B s') /\ (G s -> G s') /\ (K s -> K s') /\ (E s -> E s') /\ re s' = re s /\ pr s' = pr s /\ de s' = de s.
  Proof. intros Hk. bust s. unf. unfold upd_pa. cbn. destruct (Hk (mkPp pt pl ppz cs csz ctl mo ep pd ntr btr)) as [K1 K2]. cbn in *. rewrite K1, K2. crush. Qed.

  Lemma upd_unpause s f : keeps_typ f ->
    let s' := upd_pa H s f in
    frame s s' /\ (B s -> B s') /\ (G s -> K s') /\ (K s -> K s') /\ (E s -> E s') /\ re s' = re s /\ pr s' = pr s /\ de s' = de s.
  Proof. intros Hk. bust s. unf. unfold upd_pa. cbn. pose proof (Hk (mkPp pt pl ppz cs csz ctl mo ep pd ntr btr)) as K2. cbn in *. rewrite K2. crush. Qed.

  Ltac keeps_tac := unfold keeps, keeps_typ; let q := fresh "q" in (intro q; destruct q; cbn; auto).

  Definition nonframing (r : pres) : Prop := forall e, r = PRaise e -> is_framing e = false.

  (* ---- the data_available loop ------------------------------------------------------------------- *)
  Ltac err_tac := intros; unfold nonframing in *; intros;
    match goal with
    | Hq : DErr _ = DErr _ |- _ => inversion Hq; subst
    | Hq : PRaise _ = PRaise _ |- _ => inversion Hq; subst
    | Hq : Some _ = Some _ |- _ => inversion Hq; subst
    | Hq : _ = _ |- is_framing _ = false => discriminate Hq
    end; try reflexivity.
  Ltac ft := repeat (first [eassumption | apply frame_refl | (eapply frame_trans; [eassumption|])]).

  Lemma drain_spec f : forall s s' r,
    comp (de s) = true -> B s -> G s -> drain H hnew hstep havail f s = (s', r) ->
    frame s s' /\ B s' /\ K s' /\ (forall e, r = DErr e -> is_framing e = false).
  Proof.
    induction f as [|f IH]; intros s s' r Hc Hb Hg; cbn [drain].
    - intros [= <- <-]. split; [apply frame_refl|]. split; [assumption|]. split; [apply G_K; assumption|]. err_tac.
    - destruct (more (pa s)) eqn:Em.
      + destruct (ppaused (pa s)) eqn:Ep.
        * intros [= <- <-]. destruct (upd_unpause s (fun q => pa_paused q false)) as (F & Bp & Gk & _); [keeps_tac|].
          split; [exact F|]. split; [auto|]. split; [auto|]. err_tac.
        * assert (He : E s). { unfold E, G in *. destruct Hg as [?|Hg]; [left; assumption|]. right. intro Ho. destruct (Hg Ho) as (X & _). congruence. }
          destruct (db_feed H hnew hstep havail s []) as [s1 [e|m]] eqn:Ed.
          -- intros [= <- <-]. destruct (db_feed_spec _ _ _ _ Hc Hb He Ed) as (F & B1 & G1).
             split; [exact F|]. split; [auto|]. split; [apply G_K; auto|]. err_tac. eapply db_feed_err; eauto.
          -- destruct (db_feed_spec _ _ _ _ Hc Hb He Ed) as (F & B1 & G1).
             destruct (upd_keep s1 (fun q => pa_more q m)) as (F2 & B2 & G2 & _ & _ & _ & _ & D2); [keeps_tac|].
             intros Hd. apply IH in Hd; auto.
             ++ destruct Hd as (F3 & B3 & K3 & E3). split; [ft|]. split; [auto|]. split; auto.
             ++ rewrite D2. destruct F as (_ & _ & _ & Fc & _). auto.
      + intros [= <- <-]. split; [apply frame_refl|]. split; [assumption|]. split; [apply G_K; assumption|]. err_tac.
  Qed.

  Lemma finish_eof_spec s rest s' r :
    finish_eof H heof hflush s rest = (s', r) ->
    frame s s' /\ (B s -> B s') /\ (K s -> K s') /\ (G s -> G s') /\ nonframing r.
  Proof.
    unfold finish_eof. destruct (db_feed_eof H heof hflush s) as [s1 [e|]] eqn:Ed; intros [= <- <-];
      destruct (db_feed_eof_spec _ _ _ Ed) as (F & Bp & Gp & Kp & Ep);
      (split; [exact F|]; split; [auto|]; split; [auto|]; split; [auto|]); err_tac. apply Ep; reflexivity.
  Qed.

  (* ---- PARSE_LENGTH ----------------------------------------------------------------------------------- *)
  Lemma len_feed_spec f s c s' r :
    comp (de s) = true -> B s -> E s -> len_feed H hnew hstep havail heof hflush f s c = (s', r) ->
    frame s s' /\ B s' /\ K s' /\ nonframing r.
  Proof.
    intros Hc Hb He. unfold len_feed.
    set (chunk := ctail (pa s) ++ c). set (req := plength (pa s)).
    destruct (upd_keep s (fun q => pa_length (pa_tail q []) (dg_remaining req (lenN chunk)))) as (F0 & B0 & _ & _ & E0 & _ & _ & D0); [keeps_tac|].
    set (s0 := upd_pa H s _) in *.
    assert (Hc0 : comp (de s0) = true) by (rewrite D0; exact Hc).
    destruct (db_feed H hnew hstep havail s0 (take req chunk)) as [s1 [e|m]] eqn:Ed;
      destruct (db_feed_spec _ _ _ _ Hc0 (B0 Hb) (E0 He) Ed) as (F1 & B1 & G1).
    - intros [= <- <-]. split; [ft|]. split; [auto|]. split; [apply G_K; auto|]. err_tac. eapply db_feed_err; eauto.
    - destruct (upd_keep s1 (fun q => pa_more q m)) as (F2 & B2 & G2 & _ & _ & _ & _ & D2); [keeps_tac|].
      set (s2 := upd_pa H s1 _) in *.
      assert (Hc2 : comp (de s2) = true). { rewrite D2. destruct F1 as (_ & _ & _ & X & _). auto. }
      destruct (drain H hnew hstep havail f s2) as [s3 [| |e]] eqn:Edr;
        destruct (drain_spec _ _ _ _ Hc2 (B2 B1) (G2 G1) Edr) as (F3 & B3 & K3 & E3).
      + destruct (plength (pa s3) =? 0).
        * intros Hf. destruct (finish_eof_spec _ _ _ _ Hf) as (F4 & B4 & K4 & _ & E4).
          split; [ft|]. split; [auto|]. split; auto.
        * intros [= <- <-]. split; [ft|]. split; [auto|]. split; [auto|]. err_tac.
      + intros [= <- <-]. destruct (upd_keep s3 (fun q => pa_tail q (drop req chunk))) as (F4 & B4 & _ & K4 & _); [keeps_tac|].
        split; [ft|]. split; [auto|]. split; [auto|]. err_tac.
      + intros [= <- <-]. split; [ft|]. split; [auto|]. split; [auto|]. err_tac. apply E3; reflexivity.
  Qed.

  (* ---- PARSE_UNTIL_EOF -------------------------------------------------------------------------------- *)
  Lemma eof_feed_spec f s c s' r :
    comp (de s) = true -> B s -> E s -> eof_feed H hnew hstep havail heof hflush f s c = (s', r) ->
    frame s s' /\ B s' /\ K s' /\ nonframing r.
  Proof.
    intros Hc Hb He. unfold eof_feed.
    destruct (db_feed H hnew hstep havail s c) as [s1 [e|m]] eqn:Ed;
      destruct (db_feed_spec _ _ _ _ Hc Hb He Ed) as (F1 & B1 & G1).
    - intros [= <- <-]. split; [ft|]. split; [auto|]. split; [apply G_K; auto|]. err_tac. eapply db_feed_err; eauto.
    - destruct (upd_keep s1 (fun q => pa_more q m)) as (F2 & B2 & G2 & _ & _ & _ & _ & D2); [keeps_tac|].
      set (s2 := upd_pa H s1 _) in *.
      assert (Hc2 : comp (de s2) = true). { rewrite D2. destruct F1 as (_ & _ & _ & X & _). auto. }
      destruct (drain H hnew hstep havail f s2) as [s3 [| |e]] eqn:Edr;
        destruct (drain_spec _ _ _ _ Hc2 (B2 B1) (G2 G1) Edr) as (F3 & B3 & K3 & E3).
      + destruct (eof_pending (pa s3)).
        * destruct (db_feed_eof H heof hflush s3) as [s4 [e|]] eqn:Ede; destruct (db_feed_eof_spec _ _ _ Ede) as (F4 & B4 & _ & K4 & E4); intros [= <- <-].
          -- split; [ft|]. split; [auto|]. split; [auto|]. err_tac. apply E4; reflexivity.
          -- destruct (upd_keep s4 (fun q => pa_eofp (pa_done q true) false)) as (F5 & B5 & _ & K5 & _); [keeps_tac|].
             split; [ft|]. split; [auto|]. split; [auto|]. err_tac.
        * intros [= <- <-]. split; [ft|]. split; [auto|]. split; [auto|]. err_tac.
      + intros [= <- <-]. split; [ft|]. split; [auto|]. split; [auto|]. err_tac.
      + intros [= <- <-]. split; [ft|]. split; [auto|]. split; [auto|]. err_tac. apply E3; reflexivity.
  Qed.

  (* ---- PARSE_CHUNKED ---------------------------------------------------------------------------------- *)
  (* steps that feed nothing *)
  Definition R (s s' : st) : Prop := frame s s' /\ (B s -> B s') /\ (G s -> G s') /\ (K s -> K s').
  Lemma R_refl s : R s s.
  Proof. unfold R. split; [apply frame_refl|]. auto. Qed.
  Lemma R_trans a b c : R a b -> R b c -> R a c.
  Proof. unfold R. intros (F1 & B1 & G1 & K1) (F2 & B2 & G2 & K2). split; [eapply frame_trans; eauto|]. split; [auto|]. split; auto. Qed.
  Lemma R_upd s f : keeps f -> R s (upd_pa H s f).
  Proof. intros Hk. destruct (upd_keep s f Hk) as (F & Bp & Gp & Kp & _). unfold R; auto. Qed.
  Lemma R_begin s : R s (rd_begin_chunk H s).
  Proof. destruct (rd_begin_chunk_spec s) as (F & Bp & Gp & Kp & _). unfold R; auto. Qed.
  Lemma R_end s : R s (rd_end_chunk H s).
  Proof. destruct (rd_end_chunk_spec s) as (F & Bp & Gp & Kp). unfold R; auto. Qed.
  Lemma R_exn s e : R s (rd_set_exn H s e).
  Proof. destruct (rd_set_exn_spec s e) as (F & Bp & Gp & Kp & _). unfold R; auto. Qed.
  Ltac solveR :=
    first [ apply R_refl
          | (eapply R_trans; [|apply R_begin]); solveR
          | (eapply R_trans; [|apply R_end]); solveR
          | (eapply R_trans; [|apply R_exn]); solveR
          | (eapply R_trans; [|apply R_upd; keeps_tac]); solveR ].

  Definition bok (s : st) (r : bres H) : Prop :=
    match r with
    | BNext s1 _ | BCont s1 _ => frame s s1 /\ B s1 /\ G s1
    | BRet s1 x => frame s s1 /\ B s1 /\ K s1 /\ (ptyp (pa s) = PChunked \/ nonframing x)
    end.
  Lemma bok_of_R s s1 : B s -> G s -> R s s1 -> frame s s1 /\ B s1 /\ G s1.
  Proof. intros Hb Hg (F & Bp & Gp & _). auto. Qed.
  Lemma bokK_of_R s s1 : B s -> G s -> R s s1 -> frame s s1 /\ B s1 /\ K s1.
  Proof. intros Hb Hg (F & Bp & Gp & _). auto using G_K. Qed.
  Lemma bokK_unpause s s1 f : B s -> G s -> R s s1 -> keeps_typ f -> frame s (upd_pa H s1 f) /\ B (upd_pa H s1 f) /\ K (upd_pa H s1 f).
  Proof.
    intros Hb Hg (F & Bp & Gp & _) Hk. destruct (upd_unpause s1 f Hk) as (F2 & B2 & G2 & _).
    split; [eapply frame_trans; eauto|]. auto.
  Qed.

  Ltac leafG := apply bok_of_R; [assumption|assumption|solveR].
  Ltac leafK := (split; [|split; [|split]]); [..|left; assumption];
                [eapply (proj1 (bokK_of_R _ _ _ _ _)) | eapply (proj1 (proj2 (bokK_of_R _ _ _ _ _))) | eapply (proj2 (proj2 (bokK_of_R _ _ _ _ _)))].

  Lemma blk_size_spec s chunk : ptyp (pa s) = PChunked -> B s -> G s -> bok s (blk_size H s chunk).
  Proof.
    intros Ht Hb Hg. unfold blk_size.
    repeat match goal with
           | |- bok _ (match ?x with _ => _ end) => destruct x eqn:?
           | |- bok _ (if ?x then _ else _) => destruct x eqn:?
           | |- bok _ (let _ := _ in _) => cbv zeta
           end; cbn [bok];
      first [ leafG
            | (destruct (bokK_of_R s _ Hb Hg ltac:(solveR)) as (X1 & X2 & X3); split; [exact X1|split; [exact X2|split; [exact X3|left; exact Ht]]]) ].
  Qed.
End Bound.
