(* C09: decoded data held by the reader is bounded by high + cap(max(limit, low)), whatever the
   compression ratio, the segmentation and the consumer's schedule.

   The codec is abstract (Section variables); the only law used is the output cap
       hstep h x m = Some (Some (h', out)) -> m <> 0 -> |out| <= capf m
   (capf = id for zlib/zstd, 2m+32768 for the brotli binding; validated by sampling in harness/c09.py).

   Invariant:  B  rsize <= high + capf (max_length)            (when max_length is not "unlimited")
               G  inside one parser call: over the high-water mark => the payload parser is paused
                  (so the next guarded feed is not executed)
               K  between parser calls:   over the high-water mark => reading is paused
               Sz rsize = total length of the buffered blocks
   together with high = 2*low, "the transport honours pause_reading", "compressed body". *)
From AV Require Import Lib.Base Generated.DecodeGen Model.Decode Proofs.DecodeCommon.
From Coq Require Import ZifyBool ZifyN.
Ltac Zify.zify_post_hook ::= Z.to_euclidean_division_equations.
Open Scope N_scope.

Section Bound.
  Variable H : Type.
  Variable hnew : N -> H.
  Variable hstep : H -> bytes -> N -> option (option (H * bytes)).
  Variable havail : H -> bool.
  Variable heof : H -> bool.
  Variable hflush : H -> option bytes.
  Variable capf : N -> N.
  Hypothesis cap_law : forall h x m h' out, hstep h x m = Some (Some (h', out)) -> m <> 0 -> lenN out <= capf m.
  Hypothesis capf_mono : forall a b, a <= b -> capf a <= capf b.

  Notation st := (st H).
  Notation sys := (sys H).

  (* ---- the quantities the invariant speaks about ------------------------------------------- *)
  Definition Mx (s : st) : N := dg_max_length (c_limit (cf s)) (low (re s)).
  Definition B (s : st) : Prop := Mx s <> 0 -> rsize (re s) <= high (re s) + capf (Mx s).
  Definition Sz (s : st) : Prop := rsize (re s) = lenN (concat (buf (re s))).
  Definition over (s : st) : Prop := high (re s) < rsize (re s).
  Definition E (s : st) : Prop := reof (re s) = true \/ ~ over s.
  Definition G (s : st) : Prop :=
    reof (re s) = true \/ (over s -> ppaused (pa s) = true /\ rpaused (pr s) = true /\ (connected (pr s) = true -> tpaused (pr s) = true)).
  Definition K (s : st) : Prop :=
    reof (re s) = true \/ connected (pr s) = false \/
    (over s -> rpaused (pr s) = true /\ (connected (pr s) = true -> tpaused (pr s) = true)).
  (* things no parser function changes *)
  Definition frame (s s' : st) : Prop :=
    cf s' = cf s /\ low (re s') = low (re s) /\ high (re s') = high (re s) /\
    (comp (de s) = true -> comp (de s') = true) /\ ptyp (pa s') = ptyp (pa s) /\
    connected (pr s') = connected (pr s) /\ parser_alive (pr s') = parser_alive (pr s) /\
    (reof (re s) = true -> reof (re s') = true /\ rsize (re s') = rsize (re s)) /\
    (Sz s -> Sz s') /\ closing (pr s') = closing (pr s).

  Lemma frame_refl s : frame s s.
  Proof. unfold frame; intuition. Qed.
  Lemma frame_trans a b c : frame a b -> frame b c -> frame a c.
  Proof.
    unfold frame. intros (A1 & A2 & A3 & A4 & A5 & A6 & A7 & A8 & A9 & A10) (B1 & B2 & B3 & B4 & B5 & B6 & B7 & B8 & B9 & B10).
    split; [congruence|]. split; [congruence|]. split; [congruence|]. split; [auto|]. split; [congruence|].
    split; [congruence|]. split; [congruence|]. split; [|split; [auto|congruence]].
    intros Hr. destruct (A8 Hr) as [Hr' Hs]. destruct (B8 Hr') as [Hr'' Hs']. split; congruence.
  Qed.

  Lemma E_G s : E s -> G s.
  Proof. unfold E, G. intros [He|Hn]; [left; exact He|right; intro Ho; contradiction]. Qed.
  Lemma G_K s : G s -> K s.
  Proof. unfold G, K. intros [He|Hg]; [left; exact He|right; right; intro Ho; destruct (Hg Ho) as (_ & A & C); split; assumption]. Qed.

  Ltac inv_some := repeat match goal with Hs : Some _ = Some _ |- _ => inversion Hs; clear Hs; subst end.
  Ltac crush := repeat split; intros; subst; inv_some; try reflexivity; try discriminate; try tauto; try congruence; try lia; intuition (try congruence; try lia).
  Ltac bust s :=
    destruct s as [cg p q d rr fd]; destruct p as [co tp rp al ppr hm cl]; destruct q as [pt pl ppz cs csz ctl mo ep pd ntr btr];
    destruct d as [cm en dh dsz dst]; destruct rr as [bf rs lo hi lc hc eo ex tt cu sp w dl].
  Ltac unf := unfold frame in *; unfold B, Sz, E, G, K, over, Mx in *.

  (* ---- primitives ------------------------------------------------------------------------------ *)
  (* payload.feed_data(chunk) through the DeflateBuffer *)
  Lemma db_feed_spec s chunk s' r :
    comp (de s) = true -> B s -> E s -> db_feed H hnew hstep havail s chunk = (s', r) -> frame s s' /\ B s' /\ G s'.
  Proof.
    bust s. unf. cbn. intros -> Hb He. unfold db_feed. cbn.
    match goal with |- context [hstep ?a ?b ?m] => destruct (hstep a b m) as [[[h2 out]|]|] eqn:Eh end.
    - pose proof (cap_law _ _ _ _ _ Eh) as Hcap.
      destruct (isnil out) eqn:En; cbn.
      + intros [= <- <-]; cbn. crush.
      + unfold rd_feed; cbn. destruct eo; cbn.
        * intros [= <- <-]; cbn. crush.
        * rewrite En. unfold wake_ok; cbn. unfold dg_feed_pause.
          destruct w; cbn; destruct (hi <? rs + lenN out) eqn:Ep; cbn; intros [= <- <-]; cbn;
            rewrite ?lenN_concat_snoc; destruct co; cbn; crush.
    - intros [= <- <-]; cbn. crush.
    - intros [= <- <-]; cbn. crush.
  Qed.


  (* payload.feed_eof() *)
  Lemma db_feed_eof_spec s s' r :
    db_feed_eof H heof hflush s = (s', r) ->
    frame s s' /\ (B s -> B s') /\ (G s -> G s') /\ (K s -> K s') /\ (forall e, r = Some e -> is_framing e = false).
  Proof.
    bust s. unf. unfold db_feed_eof, rd_feed_eof, wake_ok. cbn.
    destruct cm; cbn; [destruct (hflush dh) as [fl|]; [destruct (isnil fl); cbn; [destruct ((0 <? dsz) && negb (heof dh)); cbn|]|]|];
      destruct w; cbn; intros [= <- <-]; cbn; destruct co; cbn; crush.
  Qed.

  Lemma rd_begin_chunk_spec s : let s' := rd_begin_chunk H s in frame s s' /\ (B s -> B s') /\ (G s -> G s') /\ (K s -> K s') /\ pa s' = pa s.
  Proof. bust s. unf. unfold rd_begin_chunk. cbn. destruct sp; cbn; crush. Qed.

  Lemma rd_end_chunk_spec s : let s' := rd_end_chunk H s in frame s s' /\ (B s -> B s') /\ (G s -> G s') /\ (K s -> K s').
  Proof.
    bust s. unf. unfold rd_end_chunk. cbn. destruct sp as [l|]; cbn; [|crush].
    destruct (tt =? last_or l 0); cbn; [crush|].
    unfold dg_chunk_pause. destruct (hc <? lenN (l ++ [tt])); cbn; unfold wake_ok; cbn; destruct w; cbn; destruct co; cbn; crush.
  Qed.

  Lemma rd_set_exn_spec s e : let s' := rd_set_exn H s e in frame s s' /\ (B s -> B s') /\ (G s -> G s') /\ (K s -> K s') /\ pa s' = pa s /\ pr s' = pr s.
  Proof. bust s. unf. unfold rd_set_exn. cbn. crush. Qed.

  (* setters of the payload parser's own fields *)
  Definition keeps (f : pp -> pp) : Prop := forall q, ppaused (f q) = ppaused q /\ ptyp (f q) = ptyp q.
  Definition keeps_typ (f : pp -> pp) : Prop := forall q, ptyp (f q) = ptyp q.

  Lemma upd_keep s f : keeps f ->
    let s' := upd_pa H s f in
    frame s s' /\ (B s -> B s') /\ (G s -> G s') /\ (K s -> K s') /\ (E s -> E s') /\ re s' = re s /\ pr s' = pr s /\ de s' = de s.
  Proof. intros Hk. bust s. unf. unfold upd_pa. cbn. destruct (Hk (mkPp pt pl ppz cs csz ctl mo ep pd ntr btr)) as [K1 K2]. cbn in *. rewrite K1, K2. crush. Qed.

  Lemma upd_unpause s f : keeps_typ f ->
    let s' := upd_pa H s f in
    frame s s' /\ (B s -> B s') /\ (G s -> K s') /\ (K s -> K s') /\ (E s -> E s') /\ re s' = re s /\ pr s' = pr s /\ de s' = de s.
  Proof. intros Hk. bust s. unf. unfold upd_pa. cbn. pose proof (Hk (mkPp pt pl ppz cs csz ctl mo ep pd ntr btr)) as K2. cbn in *. rewrite K2. crush. Qed.

  Ltac keeps_tac := unfold keeps, keeps_typ; let q := fresh "q" in (intro q; destruct q; cbn; auto).

  Definition nonframing (r : pres) : Prop := forall e, r = PRaise e -> is_framing e = false.

  (* ---- the data_available loop ------------------------------------------------------------------- *)
  Ltac err_tac := intros; unfold nonframing in *; intros;
    match goal with
    | Hq : DErr _ = DErr _ |- _ => inversion Hq; subst
    | Hq : PRaise _ = PRaise _ |- _ => inversion Hq; subst
    | Hq : Some _ = Some _ |- _ => inversion Hq; subst
    | Hq : _ = _ |- is_framing _ = false => discriminate Hq
    end; try reflexivity.
  Ltac ft := repeat (first [eassumption | apply frame_refl | (eapply frame_trans; [eassumption|])]).

  Lemma drain_spec f : forall s s' r,
    comp (de s) = true -> B s -> G s -> drain H hnew hstep havail f s = (s', r) ->
    frame s s' /\ B s' /\ K s' /\ (forall e, r = DErr e -> is_framing e = false).
  Proof.
    induction f as [|f IH]; intros s s' r Hc Hb Hg; cbn [drain].
    - intros [= <- <-]. split; [apply frame_refl|]. split; [assumption|]. split; [apply G_K; assumption|]. err_tac.
    - destruct (more (pa s)) eqn:Em.
      + destruct (ppaused (pa s)) eqn:Ep.
        * intros [= <- <-]. destruct (upd_unpause s (fun q => pa_paused q false)) as (F & Bp & Gk & _); [keeps_tac|].
          split; [exact F|]. split; [auto|]. split; [auto|]. err_tac.
        * assert (He : E s). { unfold E, G in *. destruct Hg as [?|Hg]; [left; assumption|]. right. intro Ho. destruct (Hg Ho) as (X & _). congruence. }
          destruct (db_feed H hnew hstep havail s []) as [s1 [e|m]] eqn:Ed.
          -- intros [= <- <-]. destruct (db_feed_spec _ _ _ _ Hc Hb He Ed) as (F & B1 & G1).
             split; [exact F|]. split; [auto|]. split; [apply G_K; auto|]. err_tac. eapply (db_feed_err H hnew hstep havail); eauto.
          -- destruct (db_feed_spec _ _ _ _ Hc Hb He Ed) as (F & B1 & G1).
             destruct (upd_keep s1 (fun q => pa_more q m)) as (F2 & B2 & G2 & _ & _ & _ & _ & D2); [keeps_tac|].
             intros Hd. apply IH in Hd; auto.
             ++ destruct Hd as (F3 & B3 & K3 & E3). split; [ft|]. split; [auto|]. split; auto.
             ++ rewrite D2. destruct F as (_ & _ & _ & Fc & _). auto.
      + intros [= <- <-]. split; [apply frame_refl|]. split; [assumption|]. split; [apply G_K; assumption|]. err_tac.
  Qed.

  Lemma finish_eof_spec s rest s' r :
    finish_eof H heof hflush s rest = (s', r) ->
    frame s s' /\ (B s -> B s') /\ (K s -> K s') /\ (G s -> G s') /\ nonframing r.
  Proof.
    unfold finish_eof. destruct (db_feed_eof H heof hflush s) as [s1 [e|]] eqn:Ed; intros [= <- <-];
      destruct (db_feed_eof_spec _ _ _ Ed) as (F & Bp & Gp & Kp & Ep);
      (split; [exact F|]; split; [auto|]; split; [auto|]; split; [auto|]); err_tac. apply Ep; reflexivity.
  Qed.

  (* ---- PARSE_LENGTH ----------------------------------------------------------------------------------- *)
  Lemma len_feed_spec f s c s' r :
    comp (de s) = true -> B s -> E s -> len_feed H hnew hstep havail heof hflush f s c = (s', r) ->
    frame s s' /\ B s' /\ K s' /\ nonframing r.
  Proof.
    intros Hc Hb He. unfold len_feed.
    set (chunk := ctail (pa s) ++ c). set (req := plength (pa s)).
    destruct (upd_keep s (fun q => pa_length (pa_tail q []) (dg_remaining req (lenN chunk)))) as (F0 & B0 & _ & _ & E0 & _ & _ & D0); [keeps_tac|].
    set (s0 := upd_pa H s _) in *.
    assert (Hc0 : comp (de s0) = true) by (rewrite D0; exact Hc).
    destruct (db_feed H hnew hstep havail s0 (take req chunk)) as [s1 [e|m]] eqn:Ed;
      destruct (db_feed_spec _ _ _ _ Hc0 (B0 Hb) (E0 He) Ed) as (F1 & B1 & G1).
    - intros [= <- <-]. split; [ft|]. split; [auto|]. split; [apply G_K; auto|]. err_tac. eapply (db_feed_err H hnew hstep havail); eauto.
    - destruct (upd_keep s1 (fun q => pa_more q m)) as (F2 & B2 & G2 & _ & _ & _ & _ & D2); [keeps_tac|].
      set (s2 := upd_pa H s1 _) in *.
      assert (Hc2 : comp (de s2) = true). { rewrite D2. destruct F1 as (_ & _ & _ & X & _). auto. }
      destruct (drain H hnew hstep havail f s2) as [s3 [| |e]] eqn:Edr;
        destruct (drain_spec _ _ _ _ Hc2 (B2 B1) (G2 G1) Edr) as (F3 & B3 & K3 & E3).
      + destruct (plength (pa s3) =? 0).
        * intros Hf. destruct (finish_eof_spec _ _ _ _ Hf) as (F4 & B4 & K4 & _ & E4).
          split; [ft|]. split; [auto|]. split; auto.
        * intros [= <- <-]. destruct (upd_unpause s3 (fun q => pa_paused q false)) as (F4 & B4 & _ & K4 & _); [keeps_tac|].
          split; [ft|]. split; [auto|]. split; [auto|]. err_tac.
      + intros [= <- <-]. destruct (upd_keep s3 (fun q => pa_tail q (drop req chunk))) as (F4 & B4 & _ & K4 & _); [keeps_tac|].
        split; [ft|]. split; [auto|]. split; [auto|]. err_tac.
      + intros [= <- <-]. split; [ft|]. split; [auto|]. split; [auto|]. err_tac. apply E3; reflexivity.
  Qed.

  (* ---- PARSE_UNTIL_EOF -------------------------------------------------------------------------------- *)
  Lemma eof_feed_spec f s c s' r :
    comp (de s) = true -> B s -> E s -> eof_feed H hnew hstep havail heof hflush f s c = (s', r) ->
    frame s s' /\ B s' /\ K s' /\ nonframing r.
  Proof.
    intros Hc Hb He. unfold eof_feed.
    destruct (db_feed H hnew hstep havail s c) as [s1 [e|m]] eqn:Ed;
      destruct (db_feed_spec _ _ _ _ Hc Hb He Ed) as (F1 & B1 & G1).
    - intros [= <- <-]. split; [ft|]. split; [auto|]. split; [apply G_K; auto|]. err_tac. eapply (db_feed_err H hnew hstep havail); eauto.
    - destruct (upd_keep s1 (fun q => pa_more q m)) as (F2 & B2 & G2 & _ & _ & _ & _ & D2); [keeps_tac|].
      set (s2 := upd_pa H s1 _) in *.
      assert (Hc2 : comp (de s2) = true). { rewrite D2. destruct F1 as (_ & _ & _ & X & _). auto. }
      destruct (drain H hnew hstep havail f s2) as [s3 [| |e]] eqn:Edr;
        destruct (drain_spec _ _ _ _ Hc2 (B2 B1) (G2 G1) Edr) as (F3 & B3 & K3 & E3).
      + destruct (eof_pending (pa s3)).
        * destruct (db_feed_eof H heof hflush s3) as [s4 [e|]] eqn:Ede; destruct (db_feed_eof_spec _ _ _ Ede) as (F4 & B4 & _ & K4 & E4); intros [= <- <-].
          -- split; [ft|]. split; [auto|]. split; [auto|]. err_tac. apply E4; reflexivity.
          -- destruct (upd_keep s4 (fun q => pa_eofp (pa_done q true) false)) as (F5 & B5 & _ & K5 & _); [keeps_tac|].
             split; [ft|]. split; [auto|]. split; [auto|]. err_tac.
        * intros [= <- <-]. destruct (upd_unpause s3 (fun q => pa_paused q false)) as (F4 & B4 & _ & K4 & _); [keeps_tac|].
          split; [ft|]. split; [auto|]. split; [auto|]. err_tac.
      + intros [= <- <-]. split; [ft|]. split; [auto|]. split; [auto|]. err_tac.
      + intros [= <- <-]. split; [ft|]. split; [auto|]. split; [auto|]. err_tac. apply E3; reflexivity.
  Qed.

  (* ---- PARSE_CHUNKED ---------------------------------------------------------------------------------- *)
  (* steps that feed nothing *)
  Definition R (s s' : st) : Prop := frame s s' /\ (B s -> B s') /\ (G s -> G s') /\ (K s -> K s').
  Lemma R_refl s : R s s.
  Proof. unfold R. split; [apply frame_refl|]. auto. Qed.
  Lemma R_trans a b c : R a b -> R b c -> R a c.
  Proof. unfold R. intros (F1 & B1 & G1 & K1) (F2 & B2 & G2 & K2). split; [eapply frame_trans; eauto|]. split; [auto|]. split; auto. Qed.
  Lemma R_upd s f : keeps f -> R s (upd_pa H s f).
  Proof. intros Hk. destruct (upd_keep s f Hk) as (F & Bp & Gp & Kp & _). unfold R; auto. Qed.
  Lemma R_begin s : R s (rd_begin_chunk H s).
  Proof. destruct (rd_begin_chunk_spec s) as (F & Bp & Gp & Kp & _). unfold R; auto. Qed.
  Lemma R_end s : R s (rd_end_chunk H s).
  Proof. destruct (rd_end_chunk_spec s) as (F & Bp & Gp & Kp). unfold R; auto. Qed.
  Lemma R_exn s e : R s (rd_set_exn H s e).
  Proof. destruct (rd_set_exn_spec s e) as (F & Bp & Gp & Kp & _). unfold R; auto. Qed.
  Ltac solveR :=
    first [ apply R_refl
          | (eapply R_trans; [|apply R_begin]); solveR
          | (eapply R_trans; [|apply R_end]); solveR
          | (eapply R_trans; [|apply R_exn]); solveR
          | (eapply R_trans; [|apply R_upd; keeps_tac]); solveR ].

  Definition bok (s : st) (r : bres H) : Prop :=
    match r with
    | BNext s1 _ | BCont s1 _ => frame s s1 /\ B s1 /\ G s1
    | BRet s1 x => frame s s1 /\ B s1 /\ K s1 /\ (ptyp (pa s) = PChunked \/ nonframing x)
    end.
  Lemma bok_of_R s s1 : B s -> G s -> R s s1 -> frame s s1 /\ B s1 /\ G s1.
  Proof. intros Hb Hg (F & Bp & Gp & _). auto. Qed.
  Lemma bokK_of_R s s1 : B s -> G s -> R s s1 -> frame s s1 /\ B s1 /\ K s1.
  Proof. intros Hb Hg (F & Bp & Gp & _). auto using G_K. Qed.
  Lemma bokK_unpause s s1 f : B s -> G s -> R s s1 -> keeps_typ f -> frame s (upd_pa H s1 f) /\ B (upd_pa H s1 f) /\ K (upd_pa H s1 f).
  Proof.
    intros Hb Hg (F & Bp & Gp & _) Hk. destruct (upd_unpause s1 f Hk) as (F2 & B2 & G2 & _).
    split; [eapply frame_trans; eauto|]. auto.
  Qed.

  Ltac leafG := apply bok_of_R; [assumption|assumption|solveR].
  Ltac leafKc1 Ht Hb Hg s := destruct (bokK_of_R s _ Hb Hg ltac:(solveR)) as (X1 & X2 & X3); split; [exact X1|split; [exact X2|split; [exact X3|left; exact Ht]]].
  Ltac leafKc2 Ht Hb Hg s := destruct (bokK_unpause s s _ Hb Hg (R_refl s)) as (X1 & X2 & X3); [keeps_tac|]; split; [exact X1|split; [exact X2|split; [exact X3|left; exact Ht]]].
  Ltac leafKc Ht Hb Hg s := first [leafKc1 Ht Hb Hg s | leafKc2 Ht Hb Hg s].
  Ltac walk :=
    repeat match goal with
           | |- bok _ (match ?x with _ => _ end) => destruct x eqn:?
           | |- bok _ (if ?x then _ else _) => destruct x eqn:?
           | |- bok _ (let _ := _ in _) => cbv zeta
           end; cbn [bok].

  Lemma blk_size_spec s chunk : ptyp (pa s) = PChunked -> B s -> G s -> bok s (blk_size H s chunk).
  Proof. intros Ht Hb Hg. unfold blk_size. walk; first [leafG | leafKc Ht Hb Hg s]. Qed.

  Lemma blk_eof_spec s chunk : ptyp (pa s) = PChunked -> B s -> G s -> bok s (blk_eof H s chunk).
  Proof. intros Ht Hb Hg. unfold blk_eof. walk; first [leafG | leafKc Ht Hb Hg s]. Qed.

  Lemma blk_trailers_spec s chunk : ptyp (pa s) = PChunked -> B s -> G s -> bok s (blk_trailers H heof hflush s chunk).
  Proof.
    intros Ht Hb Hg. unfold blk_trailers.
    repeat match goal with
           | |- bok _ (match finish_eof _ _ _ _ _ with _ => _ end) => fail 1
           | |- bok _ (match ?x with _ => _ end) => destruct x eqn:?
           | |- bok _ (if ?x then _ else _) => destruct x eqn:?
           | |- bok _ (let _ := _ in _) => cbv zeta
           end; cbn [bok]; try first [leafG | leafKc Ht Hb Hg s].
    match goal with |- bok _ (match finish_eof _ _ _ ?t ?c with _ => _ end) => destruct (finish_eof H heof hflush t c) as [s2 r2] eqn:Ef; set (t0 := t) in * end.
    cbn [bok]. destruct (finish_eof_spec _ _ _ _ Ef) as (F4 & B4 & K4 & G4 & E4).
    assert (Rt : R s t0) by (subst t0; solveR). destruct Rt as (F0 & B0 & G0 & K0).
    split; [eapply frame_trans; eauto|]. split; [auto|]. split; [auto using G_K|]. left; exact Ht.
  Qed.

  Lemma blk_chunk_spec s chunk :
    comp (de s) = true -> ptyp (pa s) = PChunked -> B s -> G s -> bok s (blk_chunk H hnew hstep havail s chunk).
  Proof.
    intros Hc Ht Hb Hg. unfold blk_chunk. destruct (cst (pa s)); cbn [bok]; try leafG.
    destruct (ppaused (pa s)) eqn:Ep; cbn [bok].
    - destruct (bokK_unpause s s (fun q => pa_tail (pa_paused q false) chunk) Hb Hg (R_refl s)) as (X1 & X2 & X3); [keeps_tac|].
      split; [exact X1|split; [exact X2|split; [exact X3|left; exact Ht]]].
    - cbv zeta.
      assert (He : E s). { unfold E, G in *. destruct Hg as [?|Hg]; [left; assumption|]. right. intro Ho. destruct (Hg Ho) as (X & _). congruence. }
      destruct (upd_keep s (fun q => pa_csize q (dg_remaining (csize (pa s)) (lenN chunk)))) as (F0 & B0 & _ & _ & E0 & _ & _ & D0); [keeps_tac|].
      set (s0 := upd_pa H s _) in *.
      assert (Hc0 : comp (de s0) = true) by (rewrite D0; exact Hc).
      destruct (db_feed H hnew hstep havail s0 (take (csize (pa s)) chunk)) as [s1 [e|m]] eqn:Ed;
        destruct (db_feed_spec _ _ _ _ Hc0 (B0 Hb) (E0 He) Ed) as (F1 & B1 & G1); cbn [bok].
      + split; [ft|]. split; [auto|]. split; [apply G_K; auto|]. left; exact Ht.
      + assert (F01 : frame s s1) by ft.
        destruct m; [|destruct (negb (csize (pa (upd_pa H s1 (fun q => pa_more q false))) =? 0))]; cbn [bok].
        * destruct (bok_of_R s1 (upd_pa H s1 (fun q => pa_more q true)) B1 G1 ltac:(solveR)) as (Y1 & Y2 & Y3).
          split; [ft|]. auto.
        * destruct (bokK_unpause s1 (upd_pa H s1 (fun q => pa_more q false)) (fun q => pa_paused q false) B1 G1 ltac:(solveR)) as (Y1 & Y2 & Y3); [keeps_tac|].
          split; [ft|]. split; [auto|]. split; [auto|]. left; exact Ht.
        * destruct (bok_of_R s1 (rd_end_chunk H (upd_pa H (upd_pa H s1 (fun q => pa_more q false)) (fun q => pa_cst q CChunkEof))) B1 G1 ltac:(solveR)) as (Y1 & Y2 & Y3).
          split; [ft|]. auto.
  Qed.

  Lemma chunk_loop_spec f : forall s chunk s' r,
    comp (de s) = true -> ptyp (pa s) = PChunked -> B s -> G s ->
    chunk_loop H hnew hstep havail heof hflush f s chunk = (s', r) -> frame s s' /\ B s' /\ K s'.
  Proof.
    induction f as [|f IH]; intros s chunk s' r Hc Ht Hb Hg; cbn [chunk_loop].
    - intros [= <- <-]. split; [apply frame_refl|]. auto using G_K.
    - destruct (isnil chunk && negb (more (pa s))).
      { intros [= <- <-]. destruct (upd_unpause s (fun q => pa_paused q false)) as (F0 & B0 & G0 & _); [keeps_tac|]. auto. }
      assert (next : forall t c, frame s t -> B t -> G t -> chunk_loop H hnew hstep havail heof hflush f t c = (s', r) -> frame s s' /\ B s' /\ K s').
      { intros t c Ft Bt Gt Hl. apply IH in Hl; auto.
        - destruct Hl as (F' & B' & K'). split; [eapply frame_trans; eauto|]. auto.
        - destruct Ft as (_ & _ & _ & X & _); auto.
        - destruct Ft as (_ & _ & _ & _ & X & _); congruence. }
      assert (CT : forall t, frame s t -> comp (de t) = true /\ ptyp (pa t) = PChunked).
      { intros t Ft. destruct Ft as (_ & _ & _ & X & Y & _). split; [auto|congruence]. }
      pose proof (blk_size_spec s chunk Ht Hb Hg) as S1.
      destruct (blk_size H s chunk) as [s1 c1|s1 c1|s1 r1]; cbn [bok] in S1.
      2: { destruct S1 as (F1 & B1 & G1). eauto. }
      2: { destruct S1 as (F1 & B1 & K1 & _). intros [= <- <-]. auto. }
      destruct S1 as (F1 & B1 & G1). destruct (CT _ F1) as (C1 & T1).
      pose proof (blk_chunk_spec s1 c1 C1 T1 B1 G1) as S2.
      destruct (blk_chunk H hnew hstep havail s1 c1) as [s2 c2|s2 c2|s2 r2]; cbn [bok] in S2.
      2: { destruct S2 as (F2 & B2 & G2). apply next; auto. eapply frame_trans; eauto. }
      2: { destruct S2 as (F2 & B2 & K2 & _). intros [= <- <-]. split; [eapply frame_trans; eauto|]. auto. }
      destruct S2 as (F2 & B2 & G2). assert (F02 : frame s s2) by (eapply frame_trans; eauto). destruct (CT _ F02) as (C2 & T2).
      pose proof (blk_eof_spec s2 c2 T2 B2 G2) as S3.
      destruct (blk_eof H s2 c2) as [s3 c3|s3 c3|s3 r3]; cbn [bok] in S3.
      2: { destruct S3 as (F3 & B3 & G3). apply next; auto. eapply frame_trans; eauto. }
      2: { destruct S3 as (F3 & B3 & K3 & _). intros [= <- <-]. split; [eapply frame_trans; eauto|]. auto. }
      destruct S3 as (F3 & B3 & G3). assert (F03 : frame s s3) by (eapply frame_trans; eauto). destruct (CT _ F03) as (C3 & T3).
      pose proof (blk_trailers_spec s3 c3 T3 B3 G3) as S4.
      destruct (blk_trailers H heof hflush s3 c3) as [s4 c4|s4 c4|s4 r4]; cbn [bok] in S4.
      + destruct S4 as (F4 & B4 & G4). apply next; auto. eapply frame_trans; eauto.
      + destruct S4 as (F4 & B4 & G4). apply next; auto. eapply frame_trans; eauto.
      + destruct S4 as (F4 & B4 & K4 & _). intros [= <- <-]. split; [eapply frame_trans; eauto|]. auto.
  Qed.

  Lemma chunked_feed_spec f s c s' r :
    comp (de s) = true -> ptyp (pa s) = PChunked -> B s -> E s ->
    chunked_feed H hnew hstep havail heof hflush f s c = (s', r) -> frame s s' /\ B s' /\ K s'.
  Proof.
    intros Hc Ht Hb He. unfold chunked_feed.
    match goal with |- (if ?x then _ else _) = _ -> _ => destruct x end.
    - intros [= <- <-]. split; [apply frame_refl|]. auto using G_K, E_G.
    - destruct (upd_keep s (fun q => pa_tail q [])) as (F0 & B0 & G0 & _ & _ & _ & _ & D0); [keeps_tac|].
      assert (Hc0 : comp (de (upd_pa H s (fun q => pa_tail q []))) = true) by (rewrite D0; auto).
      assert (Ht0 : ptyp (pa (upd_pa H s (fun q => pa_tail q []))) = PChunked) by (destruct F0 as (_ & _ & _ & _ & X & _); congruence).
      intros Hl. destruct (chunk_loop_spec _ _ _ _ _ Hc0 Ht0 (B0 Hb) (G0 (E_G _ He)) Hl) as (F1 & B1 & K1).
      split; [eapply frame_trans; [exact F0|exact F1]|]. split; [exact B1|exact K1].
  Qed.

  (* HttpPayloadParser.feed_data *)
  Lemma payload_feed_spec f s c s' r :
    comp (de s) = true -> B s -> E s ->
    payload_feed H hnew hstep havail heof hflush f s c = (s', r) ->
    frame s s' /\ B s' /\ K s' /\ (ptyp (pa s) = PChunked \/ nonframing r).
  Proof.
    intros Hc Hb He. unfold payload_feed. destruct (ptyp (pa s)) eqn:Et.
    - intros Hf. destruct (len_feed_spec _ _ _ _ _ Hc Hb He Hf) as (X1 & X2 & X3 & X4). auto.
    - intros Hf. destruct (chunked_feed_spec _ _ _ _ _ Hc Et Hb He Hf) as (X1 & X2 & X3). auto.
    - intros Hf. destruct (eof_feed_spec _ _ _ _ _ Hc Hb He Hf) as (X1 & X2 & X3 & X4). auto.
  Qed.

  (* ---- protocol level ------------------------------------------------------------------------------------ *)
  Definition pr_keep (f : prot -> prot) : Prop :=
    forall p, connected (f p) = connected p /\ tpaused (f p) = tpaused p /\ rpaused (f p) = rpaused p /\
              parser_alive (f p) = parser_alive p /\ closing (f p) = closing p.
  Lemma R_pr s f : pr_keep f -> R s (pr_set H s f) /\ (E s -> E (pr_set H s f)) /\ pa (pr_set H s f) = pa s /\ de (pr_set H s f) = de s /\ re (pr_set H s f) = re s /\ pr (pr_set H s f) = f (pr s).
  Proof.
    intros Hk. bust s. unfold R. unf. unfold pr_set. cbn.
    destruct (Hk (mkProt co tp rp al ppr hm cl)) as (K1 & K2 & K3 & K4 & K5). cbn in *. rewrite K1, K2, K3, K4, K5. crush.
  Qed.
  Ltac prk := unfold pr_keep; let p := fresh "p" in (intro p; destruct p; cbn; auto).

  (* HttpPayloadParser.feed_eof() *)
  Lemma payload_feed_eof_spec f s s' r :
    comp (de s) = true -> B s -> K s -> (ptyp (pa s) = PChunked \/ G s) ->
    payload_feed_eof H hnew hstep havail heof hflush f s = (s', r) -> frame s s' /\ B s' /\ K s'.
  Proof.
    intros Hc Hb Hk Hg. unfold payload_feed_eof. destruct (ptyp (pa s)) eqn:Et.
    - destruct Hg as [?|Hg]; [discriminate|].
      destruct (negb (plength (pa s) =? 0)); [intros [= <- <-]; split; [apply frame_refl|]; auto|].
      destruct (drain H hnew hstep havail f s) as [s1 [| |e]] eqn:Edr; destruct (drain_spec _ _ _ _ Hc Hb Hg Edr) as (F1 & B1 & K1 & _).
      + destruct (db_feed_eof H heof hflush s1) as [s2 [e|]] eqn:Ede; destruct (db_feed_eof_spec _ _ _ Ede) as (F2 & B2 & _ & K2 & _); intros [= <- <-].
        * split; [ft|]. auto.
        * destruct (upd_keep s2 (fun q => pa_done q true)) as (F3 & B3 & _ & K3 & _); [keeps_tac|]. split; [ft|]. auto.
      + intros [= <- <-]. auto.
      + intros [= <- <-]. auto.
    - intros [= <- <-]. split; [apply frame_refl|]. auto.
    - destruct Hg as [?|Hg]; [discriminate|].
      destruct (upd_keep s (fun q => pa_eofp q true)) as (F0 & B0 & G0 & _ & _ & _ & _ & D0); [keeps_tac|].
      set (s0 := upd_pa H s _) in *. assert (Hc0 : comp (de s0) = true) by (rewrite D0; auto).
      destruct (drain H hnew hstep havail f s0) as [s1 [| |e]] eqn:Edr; destruct (drain_spec _ _ _ _ Hc0 (B0 Hb) (G0 Hg) Edr) as (F1 & B1 & K1 & _).
      + destruct (db_feed_eof H heof hflush s1) as [s2 [e|]] eqn:Ede; destruct (db_feed_eof_spec _ _ _ Ede) as (F2 & B2 & _ & K2 & _); intros [= <- <-].
        * split; [ft|]. auto.
        * destruct (upd_keep s2 (fun q => pa_eofp (pa_done q true) false)) as (F3 & B3 & _ & K3 & _); [keeps_tac|]. split; [ft|]. auto.
      + intros [= <- <-]. split; [ft|]. auto.
      + intros [= <- <-]. split; [ft|]. auto.
  Qed.

  (* what survives connection_lost (connected changes, so this is weaker than frame) *)
  Definition marks (s s' : st) : Prop :=
    cf s' = cf s /\ low (re s') = low (re s) /\ high (re s') = high (re s) /\ (comp (de s) = true -> comp (de s') = true) /\
    ptyp (pa s') = ptyp (pa s) /\ (Sz s -> Sz s').
  Lemma frame_marks s s' : frame s s' -> marks s s'.
  Proof. unfold frame, marks. intuition. Qed.
  Lemma marks_trans a b c : marks a b -> marks b c -> marks a c.
  Proof. unfold marks. intros (A1 & A2 & A3 & A4 & A5 & A6) (B1 & B2 & B3 & B4 & B5 & B6). repeat split; try congruence; auto. Qed.

  Lemma connection_lost_spec f s :
    comp (de s) = true -> B s -> K s -> (ptyp (pa s) = PChunked \/ G s) ->
    let s' := connection_lost H hnew hstep havail heof hflush f s in
    marks s s' /\ B s' /\ connected (pr s') = false /\ closing (pr s') = false.
  Proof.
    intros Hc Hb Hk Hg. unfold connection_lost.
    destruct (if parser_alive (pr s) && pp_present (pr s) then _ else _) as [s1 keep] eqn:Ex.
    assert (H1 : frame s s1 /\ B s1).
    { destruct (parser_alive (pr s) && pp_present (pr s)); [|inversion Ex; subst; split; [apply frame_refl|assumption]].
      destruct (payload_feed_eof H hnew hstep havail heof hflush f s) as [s2 [e|]] eqn:Ef;
        destruct (payload_feed_eof_spec _ _ _ _ Hc Hb Hk Hg Ef) as (F2 & B2 & K2).
      - inversion Ex; subst. destruct (R_exn s2 e) as (F3 & B3 & _). split; [ft|auto].
      - destruct (pdone (pa s2)); inversion Ex; subst; [|auto].
        destruct (R_pr s2 (fun p => mkProt (connected p) (tpaused p) (rpaused p) (parser_alive p) false (has_more p) (closing p))) as ((F3 & B3 & _) & _); [prk|].
        split; [ft|auto]. }
    clear Ex. destruct H1 as (F1 & B1). apply frame_marks in F1. clear - F1 B1. cbv zeta.
    bust s1. unfold marks in *. unf. unfold pr_set. cbn in *. crush.
  Qed.

  (* HttpParser.feed_data (payload branch) inside data_received *)
  Definition frame0 (s s' : st) : Prop :=
    cf s' = cf s /\ low (re s') = low (re s) /\ high (re s') = high (re s) /\
    (comp (de s) = true -> comp (de s') = true) /\ ptyp (pa s') = ptyp (pa s) /\
    connected (pr s') = connected (pr s) /\ parser_alive (pr s') = parser_alive (pr s) /\ (Sz s -> Sz s').
  Lemma frame_frame0 s s' : frame s s' -> frame0 s s'.
  Proof. unfold frame, frame0. intuition. Qed.
  Lemma frame0_trans a b c : frame0 a b -> frame0 b c -> frame0 a c.
  Proof. unfold frame0. intros (A1 & A2 & A3 & A4 & A5 & A6 & A7 & A8) (B1 & B2 & B3 & B4 & B5 & B6 & B7 & B8). repeat split; try congruence; auto. Qed.
  Lemma frame0_marks s s' : frame0 s s' -> marks s s'.
  Proof. unfold frame0, marks. intuition. Qed.

  Lemma pr_close_spec s :
    let s' := pr_set H s (fun p => mkProt (connected p) (tpaused p) (rpaused p) (parser_alive p) (pp_present p) (has_more p) true) in
    frame0 s s' /\ (B s -> B s') /\ (K s -> K s').
  Proof. bust s. unfold frame0. unf. unfold pr_set. cbn. crush. Qed.

  Lemma parser_feed_spec f s data :
    comp (de s) = true -> B s -> E s ->
    let s' := parser_feed H hnew hstep havail heof hflush f s data in
    frame0 s s' /\ B s' /\ K s' /\ (closing (pr s') = true -> closing (pr s) = true \/ ptyp (pa s) = PChunked).
  Proof.
    intros Hc Hb He. unfold parser_feed. cbv zeta.
    assert (Hs : frame0 s s /\ B s /\ K s /\ (closing (pr s) = true -> closing (pr s) = true \/ ptyp (pa s) = PChunked)).
    { split; [apply frame_frame0, frame_refl|]. auto using G_K, E_G. }
    destruct (negb (parser_alive (pr s))); [exact Hs|].
    destruct (isnil data && negb (has_more (pr s))); [exact Hs|].
    destruct (negb (pp_present (pr s))); [exact Hs|]. clear Hs.
    destruct (payload_feed H hnew hstep havail heof hflush f s data) as [s1 r] eqn:Ef.
    destruct (payload_feed_spec _ _ _ _ _ Hc Hb He Ef) as (F1 & B1 & K1 & N1).
    assert (Cl : closing (pr s1) = closing (pr s)) by (destruct F1 as (_ & _ & _ & _ & _ & _ & _ & _ & _ & X); exact X).
    destruct r as [| |rest|e].
    all: try (match goal with |- context [pr_set H ?t ?g] =>
              destruct (R_pr t g) as ((F2 & B2 & _ & K2) & _ & _ & _ & _ & P2); [prk|];
              split; [apply frame_frame0; ft|]; split; [auto|]; split; [auto|]; rewrite P2; cbn; rewrite Cl; auto end).
    destruct (R_exn s1 e) as (F2 & B2 & _ & K2). destruct (rd_set_exn_spec s1 e) as (_ & _ & _ & _ & _ & P2). cbv zeta in *.
    destruct (is_framing e) eqn:Efr.
    - destruct (pr_close_spec (rd_set_exn H s1 e)) as (F3 & B3 & K3). cbv zeta in *.
      split; [eapply frame0_trans; [apply frame_frame0; ft|exact F3]|]. split; [auto|]. split; [auto|]. intros _. right.
      destruct N1 as [?|N1]; [assumption|]. specialize (N1 e eq_refl). congruence.
    - match goal with |- context [pr_set H ?t ?g] =>
        destruct (R_pr t g) as ((F3 & B3 & _ & K3) & _ & _ & _ & _ & P3); [prk|] end.
      split; [apply frame_frame0; ft|]. split; [auto|]. split; [auto|]. rewrite P3, P2. cbn. rewrite Cl. auto.
  Qed.

  (* ---- the invariant between stimuli ------------------------------------------------------------------------ *)
  Definition Inv (c : cfg) (s : st) : Prop :=
    cf s = c /\ comp (de s) = true /\ c_flow c = true /\ 1 <= c_limit c /\
    B s /\ K s /\ Sz s /\ high (re s) = low (re s) * 2 /\
    (closing (pr s) = true -> ptyp (pa s) = PChunked) /\ True.

  Lemma resume_spec f s :
    comp (de s) = true -> B s -> ~ over s ->
    let s' := resume_reading H hnew hstep havail heof hflush f s in
    frame0 s s' /\ B s' /\ K s' /\ (closing (pr s') = true -> closing (pr s) = true \/ ptyp (pa s) = PChunked).
  Proof.
    intros Hc Hb Ho. unfold resume_reading. cbv zeta.
    match goal with |- context [parser_feed H hnew hstep havail heof hflush f ?t []] => set (s1 := t) end.
    assert (H1 : frame0 s s1 /\ B s1 /\ E s1 /\ comp (de s1) = true /\ closing (pr s1) = closing (pr s) /\ ptyp (pa s1) = ptyp (pa s)).
    { subst s1. clear - Hc Hb Ho. bust s. unfold frame0, E. unf. unfold pr_set. cbn in *. crush. }
    destruct H1 as (F1 & B1 & E1 & C1 & Cl1 & T1).
    destruct (parser_feed_spec f s1 [] C1 B1 E1) as (F2 & B2 & K2 & Cl2). cbv zeta in *.
    set (s2 := parser_feed H hnew hstep havail heof hflush f s1 []) in *.
    assert (F02 : frame0 s s2) by (eapply frame0_trans; [exact F1|exact F2]).
    assert (Cl02 : closing (pr s2) = true -> closing (pr s) = true \/ ptyp (pa s) = PChunked) by (intro X; destruct (Cl2 X); [left|right]; congruence).
    destruct (negb (rpaused (pr s2)) && connected (pr s2)) eqn:Er; [|auto].
    clearbody s2. clear - F02 B2 K2 Cl02 Er. apply andb_true_iff in Er as [Er1 Er2]. apply negb_true_iff in Er1.
    bust s2. unfold frame0 in *. unf. unfold pr_set. cbn in *. subst. crush.
  Qed.

  Lemma Inv_of c s s' :
    Inv c s -> frame0 s s' -> B s' -> K s' ->
    (closing (pr s') = true -> closing (pr s) = true \/ ptyp (pa s) = PChunked) -> Inv c s'.
  Proof.
    unfold Inv, frame0. intros (I1 & I2 & I3 & I4 & I5 & I6 & I7 & I8 & I9 & I10) (F1 & F2 & F3 & F4 & F5 & F6 & F7 & F8) Hb Hk Hcl.
    split; [congruence|]. split; [auto|]. split; [assumption|]. split; [assumption|]. split; [assumption|]. split; [assumption|].
    split; [auto|]. split; [congruence|]. split; [intro X; rewrite F5; destruct (Hcl X); auto|].
    exact I.
  Qed.

  (* _read_nowait_chunk *)
  Lemma rd_take_inv c f s n s' d : Inv c s -> rd_take H hnew hstep havail heof hflush f s n = (s', d) -> Inv c s'.
  Proof.
    intros Hi. unfold rd_take. destruct (buf (re s)) as [|blk0 rest] eqn:Eb; [intros [= <- <-]; exact Hi|].
    match goal with |- (let '(data, buf') := ?x in _) = _ -> _ => destruct x as [data buf'] eqn:Ex end.
    assert (Hlen : lenN data + lenN (concat buf') = lenN (concat (blk0 :: rest))).
    { cbn [concat]. rewrite lenN_app. destruct n as [k|].
      - destruct (k <? lenN blk0) eqn:Ek; inversion Ex; subst; cbn [concat]; rewrite ?lenN_app; [pose proof (take_drop_len k blk0); lia|lia].
      - inversion Ex; subst. lia. }
    cbv zeta.
    match goal with |- context [set_re H s ?r] => set (r1 := r) end.
    set (s1 := set_re H s r1).
    assert (Hs : rsize (re s) = lenN data + lenN (concat buf')).
    { destruct Hi as (_ & _ & _ & _ & _ & _ & I7 & _). unfold Sz in I7. rewrite Eb in I7. lia. }
    assert (I1 : Inv c s1 /\ (rsize (re s1) < low (re s1) \/ buf' = [] -> ~ over s1)).
    { subst s1 r1. clear - Hi Hs. bust s. unfold Inv in *. unf. unfold set_re. cbn in *.
      destruct Hi as (I1 & I2 & I3 & I4 & I5 & I6 & I7 & I8 & I9 & I10).
      split; [split; [assumption|]; split; [assumption|]; split; [assumption|]; split; [assumption|]; split; [|split; [|split; [lia|split; [assumption|split; assumption]]]]|].
      - intro Hm. specialize (I5 Hm). lia.
      - destruct I6 as [?|[?|I6]]; auto. right; right. intro Ho. apply I6. lia.
      - intros [Hl|He] Ho; [lia|]. subst buf'. cbn in Hs. lia. }
    destruct I1 as (I1 & Hno).
    match goal with |- ((if ?x then _ else _), _) = _ -> _ => destruct x eqn:Ec end; intros [= <- <-]; [|exact I1].
    assert (Ho : ~ over s1).
    { apply Hno. apply andb_true_iff in Ec as [Ec _]. apply andb_true_iff in Ec as [_ Ec]. apply orb_true_iff in Ec as [Ec|Ec].
      - left. unfold dg_resume_size in Ec. subst s1 r1. destruct s; cbn in *. lia.
      - right. apply andb_true_iff in Ec as [_ Ec]. destruct buf'; [reflexivity|discriminate]. }
    pose proof I1 as (J1 & J2 & J3 & J4 & J5 & J6 & J7 & J8 & J9 & J10).
    destruct (resume_spec f s1 J2 J5 Ho) as (F2 & B2 & K2 & Cl2).
    apply (Inv_of c s1); auto; intro X; destruct (Cl2 X); auto.
  Qed.

  Lemma take_k_inv c f k : forall s acc s' d, Inv c s -> take_k H hnew hstep havail heof hflush f k s acc = (s', d) -> Inv c s'.
  Proof.
    induction k as [|k IH]; intros s acc s' d Hi; cbn [take_k]; [intros [= <- <-]; exact Hi|].
    destruct (rd_take H hnew hstep havail heof hflush f s None) as [s1 d1] eqn:Et. intros Hk.
    eapply IH; [|exact Hk]. eapply rd_take_inv; eauto.
  Qed.

  Lemma read_upto_inv c f g : forall s n acc s' d, Inv c s -> read_upto H hnew hstep havail heof hflush f g s n acc = (s', d) -> Inv c s'.
  Proof.
    induction g as [|g IH]; intros s n acc s' d Hi; cbn [read_upto]; [intros [= <- <-]; exact Hi|].
    destruct (isnil (buf (re s))); [intros [= <- <-]; exact Hi|].
    destruct (rd_take H hnew hstep havail heof hflush f s (Some n)) as [s1 d1] eqn:Et.
    assert (I1 : Inv c s1) by (eapply rd_take_inv; eauto).
    destruct (n - lenN d1 =? 0); [intros [= <- <-]; exact I1|]. intros Hk. eapply IH; eauto.
  Qed.

  Lemma set_chunk_inv c s n : Inv c s -> Inv c (set_chunk_size H s n).
  Proof.
    intros Hi. unfold set_chunk_size. destruct (dg_raises n (low (re s))) eqn:Er; [|exact Hi].
    unfold dg_raises, dg_raise_low, dg_raise_high in *.
    bust s. unfold Inv in *. unf. unfold set_re. cbn in *.
    destruct Hi as (I1 & I2 & I3 & I4 & I5 & I6 & I7 & I8 & I9 & I10). subst c.
    repeat split; auto.
    - unfold dg_max_length in *. intro Hm.
      destruct (dg_maxsize <=? n) eqn:E1; [congruence|]. destruct (dg_maxsize <=? lo) eqn:E2; [lia|].
      assert (Hm0 : N.max (c_limit cg) lo <> 0) by (cbn in I4; lia). specialize (I5 Hm0).
      pose proof (capf_mono (N.max (c_limit cg) lo) (N.max (c_limit cg) n) ltac:(lia)). lia.
    - destruct I6 as [?|[?|I6]]; auto. right; right. intro Ho. apply I6. lia.
  Qed.

  Lemma set_wt_inv c s w0 : Inv c s -> Inv c (set_wt H s w0).
  Proof. intros Hi. bust s. unfold Inv in *. unf. unfold set_wt, set_re. cbn in *. exact Hi. Qed.

  Lemma op_body_inv c f s o s' r : Inv c s -> op_body H hnew hstep havail heof hflush f s o = (s', r) -> Inv c s'.
  Proof.
    intros Hi. unfold op_body. cbv zeta.
    destruct (isnil (buf (re s)) && negb (reof (re s))).
    - destruct (rexn (re s)); [|destruct (connected (pr s))]; intros [= <- <-]; apply set_wt_inv; exact Hi.
    - pose proof (set_wt_inv c s WNone Hi) as H1. destruct o as [|n|n].
      + destruct (take_k H hnew hstep havail heof hflush f (length (buf (re s))) (set_wt H s WNone) []) as [s1 d] eqn:Et.
        intros [= <- <-]. eapply take_k_inv; eauto.
      + destruct (read_upto H hnew hstep havail heof hflush f f (set_wt H s WNone) n []) as [s1 [d|]] eqn:Et;
          intros [= <- <-]; eapply read_upto_inv; eauto.
      + intros [= <- <-]. exact H1.
  Qed.

  Lemma op_start_inv c f s o s' r : Inv c s -> op_start H hnew hstep havail heof hflush f s o = (s', r) -> Inv c s'.
  Proof.
    intros Hi. unfold op_start. destruct o as [|n|n].
    - destruct (rexn (re s)); [intros [= <- <-]; exact Hi|]. apply op_body_inv; exact Hi.
    - destruct (rexn (re s)); [intros [= <- <-]; exact Hi|]. destruct (n =? 0); [intros [= <- <-]; exact Hi|].
      apply op_body_inv. apply set_chunk_inv; exact Hi.
    - intros [= <- <-]. apply set_chunk_inv; exact Hi.
  Qed.

  Lemma op_wake_inv c f s o s' r : Inv c s -> op_wake H hnew hstep havail heof hflush f s o = (s', r) -> Inv c s'.
  Proof.
    intros Hi. unfold op_wake. destruct (wt (re s)).
    - intros [= <- <-]; exact Hi.
    - intros [= <- <-]; exact Hi.
    - destruct (op_body H hnew hstep havail heof hflush f s o) as [s1 r1] eqn:Eo. intros [= <- <-]. eapply op_body_inv; eauto.
    - intros [= <- <-]. apply set_wt_inv; exact Hi.
  Qed.

  Lemma poll_inv c f (y y' : sys) o : Inv c (core y) -> poll H hnew hstep havail heof hflush f y = (y', o) -> Inv c (core y').
  Proof.
    intros Hi. unfold poll. destruct (pend y) as [op0|]; [|intros [= <- <-]; exact Hi].
    destruct (op_wake H hnew hstep havail heof hflush f (core y) op0) as [s1 [r|]] eqn:Ew;
      pose proof (op_wake_inv _ _ _ _ _ _ Hi Ew) as I1; [destruct r|]; intros [= <- <-]; exact I1.
  Qed.

  Lemma connection_lost_inv c f s : Inv c s -> (ptyp (pa s) = PChunked \/ G s) -> Inv c (connection_lost H hnew hstep havail heof hflush f s).
  Proof.
    intros (I1 & I2 & I3 & I4 & I5 & I6 & I7 & I8 & I9 & I10) Hg.
    destruct (connection_lost_spec f s I2 I5 I6 Hg) as ((M1 & M2 & M3 & M4 & M5 & M6) & B1 & C1 & Cl1). cbv zeta in *.
    unfold Inv. split; [congruence|]. split; [auto|]. split; [assumption|]. split; [assumption|]. split; [assumption|].
    split; [unfold K; right; left; exact C1|]. split; [auto|]. split; [congruence|]. split; [intro X; congruence|exact I].
  Qed.

  (* a stimulus may only reach the protocol while the transport is reading: then nothing is over the mark *)
  Lemma deliverable_E c s : Inv c s -> deliverable H s = true -> E s.
  Proof.
    intros (I1 & I2 & I3 & I4 & I5 & I6 & I7 & I8 & I9 & I10) Hd. unfold deliverable in Hd. rewrite I1, I3 in Hd. cbn in Hd.
    apply andb_true_iff in Hd as [Hc Ht]. unfold E, K in *. destruct I6 as [?|[?|I6]]; [left; assumption|congruence|].
    right. intro Ho. destruct (I6 Ho) as (_ & X). specialize (X Hc). rewrite X in Ht. discriminate.
  Qed.

  Lemma settle_inv c f (y : sys) (o : obs) (y' : sys) (o' : obs) :
    Inv c (core y) -> settle H hnew hstep havail heof hflush f (y, o) = (y', o') -> Inv c (core y').
  Proof.
    intros Hi. unfold settle. destruct (closing (pr (core y))) eqn:Ec; [|intros [= <- <-]; exact Hi].
    destruct (poll H hnew hstep havail heof hflush f (mkSys H (connection_lost H hnew hstep havail heof hflush f (core y)) (pend y))) as [y1 o1] eqn:Ep.
    intros [= <- _]. eapply poll_inv in Ep; [exact Ep|]. cbn [core].
    apply connection_lost_inv; [exact Hi|]. left. destruct Hi as (_ & _ & _ & _ & _ & _ & _ & _ & I9 & _). auto.
  Qed.

  Lemma step_inv c f (y y' : sys) ev o : Inv c (core y) -> step H hnew hstep havail heof hflush f y ev = (y', o) -> Inv c (core y').
  Proof.
    intros Hi. unfold step. cbv zeta. destruct ev as [d| |op0].
    - destruct (deliverable H (core y) && pp_present (pr (core y)) && parser_alive (pr (core y)) && negb (isnil d)) eqn:Ed; [|intros [= <- <-]; exact Hi].
      apply andb_true_iff in Ed as [Ed _]. apply andb_true_iff in Ed as [Ed Ha]. apply andb_true_iff in Ed as [Ed _].
      pose proof (deliverable_E c _ Hi Ed) as He.
      pose proof Hi as (I1 & I2 & I3 & I4 & I5 & I6 & I7 & I8 & I9 & I10).
      destruct (parser_feed_spec f (core y) d I2 I5 He) as (F1 & B1 & K1 & Cl1). cbv zeta in *.
      assert (J : Inv c (parser_feed H hnew hstep havail heof hflush f (core y) d)).
      { apply (Inv_of c (core y)); auto. }
      intros Hs.
      destruct (poll H hnew hstep havail heof hflush f (mkSys H (parser_feed H hnew hstep havail heof hflush f (core y) d) (pend y))) as [y1 o1] eqn:Ep.
      eapply poll_inv in Ep; [|exact J]. eapply settle_inv in Hs; [exact Hs|exact Ep].
    - destruct (deliverable H (core y) && pp_present (pr (core y)) && parser_alive (pr (core y))) eqn:Ed; [|intros [= <- <-]; exact Hi].
      apply andb_true_iff in Ed as [Ed Ha]. apply andb_true_iff in Ed as [Ed _].
      pose proof (deliverable_E c _ Hi Ed) as He.
      intros Hp. eapply poll_inv in Hp; [exact Hp|]. cbn [core]. apply connection_lost_inv; [exact Hi|]. right. apply E_G; exact He.
    - destruct (pend y); [intros [= <- <-]; exact Hi|].
      destruct (op_start H hnew hstep havail heof hflush f (core y) op0) as [s1 r] eqn:Eo.
      pose proof (op_start_inv _ _ _ _ _ _ Hi Eo) as J.
      destruct r as [d| |e].
      + intros Hs. eapply settle_inv in Hs; [exact Hs|exact J].
      + destruct (settle H hnew hstep havail heof hflush f (mkSys H s1 (Some op0), ONone)) as [y1 o1] eqn:Es.
        eapply settle_inv in Es; [|exact J]. destruct o1; intros [= <- <-]; exact Es.
      + intros Hs. eapply settle_inv in Hs; [exact Hs|exact J].
  Qed.

  Lemma run_inv c f : forall evs (y y' : sys) os, Inv c (core y) -> run H hnew hstep havail heof hflush f y evs = (y', os) -> Inv c (core y').
  Proof.
    induction evs as [|ev evs IH]; intros y y' os Hi; cbn [run]; [intros [= <- <-]; exact Hi|].
    destruct (step H hnew hstep havail heof hflush f y ev) as [y1 o] eqn:Es.
    destruct (run H hnew hstep havail heof hflush f y1 evs) as [y2 os2] eqn:Er. intros [= <- <-].
    eapply IH; [|exact Er]. eapply step_inv; eauto.
  Qed.

  Lemma init_inv c t len enc : c_flow c = true -> 1 <= c_limit c -> enc <> 0 -> Inv c (core (init H hnew c t len enc)).
  Proof.
    intros Hf Hl He. unfold init, Inv. unf. cbn. unfold dg_low, dg_high.
    repeat split; auto; try lia; try discriminate.
    all: try (destruct (enc =? 0) eqn:E0; [lia|reflexivity]).
    all: try (right; right; intro Ho; lia).
  Qed.

  Theorem bounded_memory : forall f c t len enc evs (y : sys) os,
    c_flow c = true -> 1 <= c_limit c -> enc <> 0 ->
    run H hnew hstep havail heof hflush f (init H hnew c t len enc) evs = (y, os) ->
    let r := re (core y) in
    dg_max_length (c_limit c) (low r) <> 0 ->
    rsize r <= high r + capf (dg_max_length (c_limit c) (low r)) /\ high r = low r * 2.
  Proof.
    intros f c t len enc evs y os Hf Hl He Hr. cbv zeta.
    pose proof (run_inv c f evs _ _ _ (init_inv c t len enc Hf Hl He) Hr) as (I1 & I2 & I3 & I4 & I5 & I6 & I7 & I8 & I9 & I10).
    intro Hm. split; [|exact I8]. unfold B, Mx in I5. rewrite I1 in I5. auto.
  Qed.
End Bound.
