(* C01: the incremental parser model (Model/Http.v, fed in one read or in any accepted
   segmentation) refines the strict whole-stream reading Model/HttpSpec.v, for ALL streams. *)
From Coq Require Import ZifyBool ZifyN.
From AV Require Import Lib.Base Lib.BytesX Generated.HttpGen Model.Http Model.HttpSpec
  Proofs.HttpSegBase Proofs.HttpSegChunk Proofs.HttpSeg
  Proofs.HttpSpecRefinePart Proofs.HttpSpecRefineBase Proofs.HttpSpecRefineChunk.
Ltac Zify.zify_post_hook ::= Z.to_euclidean_division_equations.
Open Scope N_scope.

(* ------------------------------------------------------------------ vocabulary *)
(* a delivered message record is the completed spec message: same head (method, target, version,
   headers, close / compression / upgrade / chunked flags), same body bytes, same chunk ends,
   end-of-stream set, no exception *)
Definition msg_match (sm : smsg) (r : mrec) : Prop :=
  r_msg r = s_msg sm /\ r_data r = s_body sm /\ r_splits r = s_chunk_ends sm /\
  r_eof r = true /\ r_exc r = None.

(* acc is newest first *)
Definition delivered (ms : list smsg) (a : acc) : Prop := Forall2 msg_match ms (rev a).

(* all of ms delivered, plus possibly one newer message still in progress (head delivered, body not
   complete: end-of-stream not set) *)
Definition delivered_upto (ms : list smsg) (a : acc) : Prop :=
  delivered ms a \/ exists cur old, a = cur :: old /\ delivered ms old /\ r_eof cur = false.

Definition idle (st : pst) : Prop :=
  lines st = [] /\ tail st = [] /\ payload st = None /\ upgraded st = false.

Definition refines (v : sverdict) (x : fres) : Prop :=
  let '(st, a, r) := x in
  match v with
  | SAccept ms _ => r = ROk [] /\ idle st /\ delivered ms a
  | SUpgraded ms rest =>
    (r = ROk rest /\ upgraded st = true /\ payload st = None /\ delivered ms a) \/
    (* CONNECT: the bytes after the head are fed to the tunnel payload *)
    (r = ROk [] /\ exists p cur old pre last,
        payload st = Some p /\ pk p = PUntilEof /\ a = cur :: old /\ ms = pre ++ [last] /\
        delivered pre old /\ r_msg cur = s_msg last /\ r_data cur = rest /\
        r_eof cur = false /\ r_exc cur = None)
  | SIncomplete ms _ =>
    (r = ROk [] \/ exists e, r = RErr e /\ early e) /\ delivered_upto ms a
  | SReject ms e =>
    exists e', r = RErr e' /\ (e' = e \/ (e = ELineTooLong /\ e' = EBadMessage)) /\ delivered_upto ms a
  | SAsk c t => r = RAsk c t
  end.

Lemma delivered_snoc ms a sm r : delivered ms a -> msg_match sm r -> delivered (ms ++ [sm]) (r :: a).
Proof.
  unfold delivered. intros H1 H2. cbn [rev]. apply Forall2_app; [exact H1|]. constructor; [exact H2|constructor].
Qed.

Lemma skip_crlfs_len s : (length (skip_crlfs s) <= length s)%nat.
Proof.
  destruct (skip_crlfs_split (length s) s (le_n _)) as [k Hk].
  rewrite Hk at 2. rewrite app_length. lia.
Qed.

Lemma take_block_first f s rest : take_block (S f) s [] = Some ([], rest) -> find_crlf s = Some ([], rest).
Proof.
  cbn [take_block]. destruct (find_crlf s) as [[l r]|]; [|discriminate].
  destruct l as [|c l]; [intro H; inversion H; reflexivity|].
  intro H. apply (take_block_run 0 0 0) in H as (new & Hn & _). discriminate.
Qed.

Lemma take_block_some f s ls rest : take_block (S f) s [] = Some (ls, rest) -> exists x, find_crlf s = Some x.
Proof. cbn [take_block]. destruct (find_crlf s); [eauto|discriminate]. Qed.

Lemma frun_upgraded lim o ls cl pu evs x :
  frun lim o (mkS ls [] None true pu cl 0, evs) x = (mkS ls [] None true pu cl 0, evs, ROk x).
Proof. rewrite frun_step by (split; [reflexivity|exact I]). destruct x; reflexivity. Qed.

(* ------------------------------------------------------------------ the simulation *)
Section Sim.
  Variables (lim : limits) (o : oracle).
  Hypothesis Hq : max_queue lim = 0.

  Lemma sim : forall f b ms cl (a : acc), (length b < f)%nat -> delivered ms a ->
    refines (spec_loop f lim o b ms cl) (frun lim o (hs [] cl, a) b).
  Proof.
    induction f as [|f IH]; intros b ms cl a Hf Hd; [lia|].
    cbn [spec_loop]. rewrite (frun_skip lim o cl a Hq (length b) b (le_n _)).
    pose proof (skip_crlfs_len b) as Hlen.
    pose proof (skip_crlfs_head (length b) b (le_n _)) as Hh.
    set (s1 := skip_crlfs b) in *. clearbody s1.
    destruct s1 as [|a0 r0] eqn:Es1.
    { rewrite frun_step by apply inv_f_hs. cbn [step_f]. repeat split; assumption. }
    rewrite <- Es1 in *.
    destruct (take_block (S (length s1)) s1 []) as [[ls rest]|] eqn:Et.
    2:{ (* no complete header block *)
      destruct cl.
      - pose proof (frun_closing lim o Hq s1 a Hh) as Hc. destruct (find_crlf s1).
        + rewrite Hc. split; [right; exists EBadMessage; split; [reflexivity|left; reflexivity]|left; exact Hd].
        + destruct Hc as (st & r & -> & Hr). split; [|left; exact Hd].
          destruct Hr as [->|[->| ->]]; [left; reflexivity|right|right]; eexists; (split; [reflexivity|]); unfold early; tauto.
      - rewrite (frun_hdr lim o Hq (S (length s1)) s1 [] a (Nat.lt_succ_diag_r _) (fun _ => Hh)).
        destruct (blk_run _ _ _ _ [] s1) as [ls r1|ls e|ls tl] eqn:Eb.
        + apply blk_block in Eb. congruence.
        + cbn [hdr_result]. split; [|left; exact Hd]. right. exists e. split; [reflexivity|].
          apply blk_err_class in Eb. unfold early. tauto.
        + cbn [hdr_result]. repeat dif; (split; [|left; exact Hd]).
          * right. exists EBadMessage. split; [reflexivity|left; reflexivity].
          * right. exists ELineTooLong. split; [reflexivity|right; left; reflexivity].
          * left. reflexivity. }
    (* a complete header block *)
    destruct cl.
    { pose proof (frun_closing lim o Hq s1 a Hh) as Hc.
      destruct (take_block_some _ _ _ _ Et) as [x Hx]. rewrite Hx in Hc. rewrite Hc.
      exists EBadMessage. split; [reflexivity|]. split; [left; reflexivity|left; exact Hd]. }
    destruct (take_block_run (max_line lim) (max_field lim) (max_headers lim) _ _ _ _ _ Et) as (new & Hn & Hres).
    cbn [app] in Hn. subst new.
    destruct ls as [|rl fls].
    { exfalso. exact (Hh rest (take_block_first _ _ _ Et)). }
    rewrite long_any_head in Hres.
    rewrite (frun_hdr lim o Hq (S (length s1)) s1 [] a (Nat.lt_succ_diag_r _) (fun _ => Hh)).
    destruct ((max_line lim <? lenN rl) || existsb (fun l => max_field lim <? lenN l) fls) eqn:Ec1.
    { cbn [orb] in Hres. destruct Hres as (lsk & e' & -> & He). cbn [hdr_result].
      exists e'. split; [reflexivity|]. split; [|left; exact Hd].
      destruct He as [[-> _]| ->]; [left; reflexivity|right; split; reflexivity]. }
    cbn [orb] in Hres.
    destruct (max_headers lim <? lenN (rl :: fls) + 1) eqn:Ec2.
    { destruct Hres as (lsk & e' & -> & He). cbn [hdr_result].
      exists e'. split; [reflexivity|]. split; [|left; exact Hd].
      destruct He as [[_ He]| ->]; [discriminate|left; reflexivity]. }
    rewrite Hres. cbn [hdr_result]. rewrite start_message_hs.
    destruct (start_message lim o init ((rl :: fls) ++ [[]])) as [[st e1]|e|c t] eqn:Esm.
    2:{ exists e. split; [reflexivity|]. split; [left; reflexivity|left; exact Hd]. }
    2:{ reflexivity. }
    destruct (sm_char lim o _ _ _ Hq Esm) as (m & Hpr & Hshape). rewrite removelast_last in Hpr. rewrite Hpr.
    cbv zeta in Hshape. set (mt := max_headers lim - lenN ((rl :: fls) ++ [[]])) in *.
    apply take_block_suffix in Et as (pre & Hpre & Hp2).
    assert (Hrest : (length rest < length s1)%nat) by (rewrite Hpre, app_length; lia).
    (* after a completed body *)
    assert (Hcont : forall (d : bytes) (e : list N) (rest' : bytes) (upg : bool), (length rest' <= length rest)%nat ->
              refines (if upg then SUpgraded (ms ++ [mkSM m d e (span_of s1 rest')]) rest'
                       else spec_loop f lim o rest' (ms ++ [mkSM m d e (span_of s1 rest')]) (m_close m))
                      (frun lim o (mkS [] [] None (false || upg) false (m_close m) 0,
                                   (mkR m true d e true None :: a : acc)) rest')).
    { intros d e rest' upg Hl.
      assert (Hd' : delivered (ms ++ [mkSM m d e (span_of s1 rest')]) (mkR m true d e true None :: a)).
      { apply delivered_snoc; [exact Hd|]. repeat split. }
      destruct upg; cbn [orb].
      - rewrite frun_upgraded. left. repeat split. exact Hd'.
      - apply IH; [lia|exact Hd']. }
    destruct Hshape as [(k & upg & -> & -> & Hk)|[[-> ->]|(u & -> & ->)]];
      cbn [payload pk pending_upgrade upgraded]; unfold ev_msg; cbn [negb].
    - (* a body follows *)
      assert (Hinv : inv_f (mkS [] [] (Some (mkP k [] [] mt)) false upg (m_close m) 0, mkR m true [] [] false None :: a)).
      { split; [reflexivity|]. unfold pwf, wfp. cbn [fst payload pk ctail tlines].
        destruct Hk as [->|(n & -> & Hn)]; [split; reflexivity|repeat split; assumption]. }
      rewrite frun_step by exact Hinv.
      assert (Hprog : delivered_upto ms (mkR m true [] [] false None :: a)).
      { right. eexists _, _. repeat split. exact Hd. }
      destruct rest as [|c0 rest0].
      { (* stream ends right after the head *)
        cbn [step_f].
        destruct Hk as [->|(n & -> & Hn)].
        - rewrite dechunk_S. unfold dechunk_body. change (find_crlf []) with (@None (bytes * bytes)).
          cbn [has_byte]. split; [left; reflexivity|exact Hprog].
        - cbn [takeN]. destruct (lenN [] <? n) eqn:E0; [|unfold lenN in E0; cbn [length] in E0; lia].
          split; [left; reflexivity|exact Hprog]. }
      cbn [step_f payload lines tail upgraded pending_upgrade should_close in_flight].
      destruct Hk as [->|(n & -> & Hn)].
      + (* chunked *)
        rewrite (feed_payload_chunked lim (mkP (PChunked CSize) [] [] mt) CSize _ _ eq_refl).
        unfold too_long. cbn [pk ctail tlines max_trailers app].
        pose proof (crun_dechunk lim mt m true false None a (S (length (c0 :: rest0))) (c0 :: rest0) [] []
                      (Nat.lt_succ_diag_r _)) as Hdc. cbv zeta in Hdc. unfold crun in Hdc.
        destruct (dechunk (S (length (c0 :: rest0))) lim mt (c0 :: rest0) [] []) as [d e rest'| |err] eqn:Ed.
        * rewrite Hdc. cbn [ev_eof upd_cur r_msg r_body r_data r_splits r_eof r_exc].
          apply dechunk_suffix in Ed as (pre2 & Hr & Hp3).
          apply (Hcont d e rest' upg). rewrite Hr, app_length. lia.
        * destruct Hdc as (d & e & [[p' ->]|(err & -> & Herr)]).
          -- split; [left; reflexivity|]. right. eexists _, _. repeat split. exact Hd.
          -- rewrite fatal_all. split; [right; eauto|]. right. eexists _, _. cbn [ev_err upd_cur]. repeat split. exact Hd.
        * destruct Hdc as (d & e & err' & -> & Herr). rewrite fatal_all.
          exists err'. split; [reflexivity|]. split; [exact Herr|].
          right. eexists _, _. cbn [ev_err upd_cur]. repeat split. exact Hd.
      + (* Content-Length *)
        unfold feed_payload. cbn [pk max_trailers].
        destruct (takeN n (c0 :: rest0)) as [d rest'] eqn:En.
        pose proof (takeN_split _ _ _ _ En) as [_ Hdl]. pose proof (takeN_rest_len _ _ _ _ En) as Hrl.
        destruct (lenN d <? n) eqn:El.
        * destruct (n - lenN d =? 0) eqn:E0; [lia|].
          split; [left; reflexivity|]. right. eexists _, _. cbn [ev_data upd_cur]. repeat split. exact Hd.
        * destruct (n - lenN d =? 0) eqn:E0; [|lia].
          cbn [ev_eof ev_data upd_cur r_msg r_body r_data r_splits r_eof r_exc app].
          apply (Hcont d [] rest' upg). exact Hrl.
    - (* CONNECT *)
      assert (Hinv : inv_f (mkS [] [] (Some (mkP PUntilEof [] [] mt)) true false (m_close m) 0, mkR m true [] [] false None :: a)).
      { split; [reflexivity|]. unfold pwf, wfp. cbn. split; reflexivity. }
      rewrite frun_step by exact Hinv.
      destruct rest as [|c0 rest0].
      + cbn [step_f]. right. split; [reflexivity|].
        eexists _, _, _, ms, _. cbn [payload pk]. repeat split. exact Hd.
      + cbn [step_f payload lines tail upgraded pending_upgrade should_close in_flight].
        unfold feed_payload. cbn [pk ev_data upd_cur r_msg r_body r_data r_splits r_eof r_exc app].
        right. split; [reflexivity|].
        eexists _, _, _, ms, _. cbn [payload pk]. repeat split. exact Hd.
    - (* no body *)
      assert (Hd' : delivered (ms ++ [mkSM m [] [] (span_of s1 rest)]) (mkR m false [] [] true None :: a)).
      { apply delivered_snoc; [exact Hd|]. repeat split. }
      destruct u.
      + rewrite frun_upgraded. left. repeat split. exact Hd'.
      + apply IH; [lia|exact Hd'].
  Qed.

  Theorem refines_spec s : refines (spec lim o s) (feed lim o init s []).
  Proof.
    rewrite feed_frun. unfold spec. apply (sim (S (length s)) s [] false []); [lia|constructor].
  Qed.
End Sim.

(* one-read rejections: the exception class is the spec's unless the spec says LineTooLong *)
Corollary refines_spec_reject_class lim o s ms e : max_queue lim = 0 ->
  spec lim o s = SReject ms e -> e <> ELineTooLong ->
  exists st a, feed lim o init s [] = (st, a, RErr e) /\ delivered_upto ms a.
Proof.
  intros Hq Hs Hne. pose proof (refines_spec lim o Hq s) as H. rewrite Hs in H.
  destruct (feed lim o init s []) as [[st a] r]. cbn in H.
  destruct H as (e' & -> & [->|[He _]] & Hd); [eauto|congruence].
Qed.

(* ------------------------------------------------------------------ any accepted segmentation *)
Theorem refines_spec_any_segmentation lim o segs s' acc' lo' : max_queue lim = 0 ->
  run_segs lim o init segs [] [] = (s', acc', ROk lo') ->
  refines (spec lim o (concat segs)) (s', acc', ROk lo').
Proof.
  intros Hq H. destruct segs as [|d segs].
  - cbn in H. inversion H; subst. cbn. repeat split. constructor.
  - apply (seg_accept lim o (d :: segs) init [] [] s' acc' lo' wf_init ltac:(discriminate)) in H.
    rewrite run_segs_single in H. pose proof (refines_spec lim o Hq (concat (d :: segs))) as Hr.
    destruct (feed lim o init (concat (d :: segs)) []) as [[st a] r]. cbn [lift prepend] in H.
    destruct r; inversion H; subst. exact Hr.
Qed.

(* in particular an accepted segmentation is never one the strict reading rejects or cannot decide *)
Corollary accepted_segmentation_not_rejected lim o segs s' acc' lo' : max_queue lim = 0 ->
  run_segs lim o init segs [] [] = (s', acc', ROk lo') ->
  (forall ms e, spec lim o (concat segs) <> SReject ms e) /\
  (forall c t, spec lim o (concat segs) <> SAsk c t).
Proof.
  intros Hq H. pose proof (refines_spec_any_segmentation lim o segs s' acc' lo' Hq H) as Hr.
  split; intros; intro Hs; rewrite Hs in Hr; cbn in Hr.
  - destruct Hr as (e' & He & _). discriminate.
  - discriminate.
Qed.

(* the same, spelled out for a normal return *)
Theorem any_segmentation_spec lim o segs st a lo : max_queue lim = 0 ->
  run_segs lim o init segs [] [] = (st, a, ROk lo) ->
  match spec lim o (concat segs) with
  | SAccept ms _ => lo = [] /\ idle st /\ delivered ms a
  | SUpgraded ms rest =>
    (lo = rest /\ upgraded st = true /\ payload st = None /\ delivered ms a) \/
    (lo = [] /\ exists p cur old pre last,
        payload st = Some p /\ pk p = PUntilEof /\ a = cur :: old /\ ms = pre ++ [last] /\
        delivered pre old /\ r_msg cur = s_msg last /\ r_data cur = rest /\
        r_eof cur = false /\ r_exc cur = None)
  | SIncomplete ms _ => lo = [] /\ delivered_upto ms a
  | SReject _ _ | SAsk _ _ => False
  end.
Proof.
  intros Hq H. pose proof (refines_spec_any_segmentation lim o segs st a lo Hq H) as Hr.
  destruct (spec lim o (concat segs)) as [ms sk|ms rest|ms rest|ms e|c t]; cbn in Hr.
  - destruct Hr as (Hr & Hi & Hd). inversion Hr. auto.
  - destruct Hr as [(Hr & Hrest)|(Hr & Hrest)]; inversion Hr; [left|right]; auto.
  - destruct Hr as ([Hr|(e & Hr & _)] & Hd); [inversion Hr; auto|discriminate].
  - destruct Hr as (e' & Hr & _). discriminate.
  - discriminate.
Qed.
