(* Stream reader: what the consumer is handed.
   - conservation: (bytes handed out by completed calls) ++ (bytes held by the suspended call)
     ++ (buffered bytes) = (bytes received), for every operation sequence;
   - EOF last: an end-of-stream indication is only returned when EOF was fed and nothing is buffered;
   - chunk boundaries: readchunk reports `True` only at a position recorded by
     end_http_chunk_receiving, and (readchunk-only consumers) reports every one of them in order. *)
From AV Require Import Lib.Base Generated.StreamGen Model.Stream Proofs.StreamBase Proofs.StreamInv.
From Coq Require Import ZifyBool Sorted.
Open Scope Z_scope.

(* bytes a result hands to the caller; `lost` = taken out of the buffer by a call that then raised *)
Definition payload (r : result) : bytes :=
  match r with
  | RBytes b => b
  | RChunk b _ => b
  | RRaise (ExIncomplete p _) lost => p ++ lost
  | RRaise _ lost => lost
  | _ => []
  end.
Definition out_of (o : outcome) : bytes := match o with Done r => payload r | Block k => acc_of k end.
Definition obs_bytes (b : obs) : bytes := match b with ObDone r => payload r | _ => [] end.
Definition inflight (y : sys) : bytes := match task y with Some k => acc_of k | None => [] end.

(* ---- how the state moves while `d` is being taken out ---------------------------------------- *)

Definition ext (s s' : st) (d : bytes) : Prop :=
  conslog s' = conslog s ++ d /\ cursor s' = cursor s + len d /\ total s <= total s' /\
  exists suf, endlog s' = endlog s ++ suf.

Lemma ext_refl s : ext s s [].
Proof. unfold ext. rewrite app_nil_r, len_nil. split; [reflexivity|split; [lia|split; [lia|]]]. exists []. rewrite app_nil_r. reflexivity. Qed.

Lemma ext_trans s s1 s2 d1 d2 : ext s s1 d1 -> ext s1 s2 d2 -> ext s s2 (d1 ++ d2).
Proof.
  intros [A1 [A2 [A3 [x A4]]]] [B1 [B2 [B3 [z B4]]]]. unfold ext.
  rewrite B1, A1, B2, A2, len_app, app_assoc. split; [reflexivity|split; [lia|split; [lia|]]].
  exists (x ++ z). rewrite B4, A4, app_assoc. reflexivity.
Qed.

Lemma ext_same s s' : conslog s' = conslog s -> cursor s' = cursor s -> total s' = total s -> endlog s' = endlog s -> ext s s' [].
Proof.
  intros A B C D. unfold ext. rewrite A, B, C, D, app_nil_r, len_nil. split; [reflexivity|split; [lia|split; [lia|]]].
  exists []. rewrite app_nil_r. reflexivity.
Qed.

Lemma ext_wake_ok s : ext s (wake_ok s) [].
Proof. unfold wake_ok. destruct (wt s); try apply ext_refl. apply ext_same; reflexivity. Qed.

Lemma ext_feed d s : ext s (fst (feed_data d s)) [].
Proof.
  unfold feed_data. destruct (eof s); [apply ext_refl|]. destruct d as [|x d]; [apply ext_refl|]. cbn [fst].
  unfold wake_ok. cbn [wt]. pose proof (len_nonneg (x :: d)).
  destruct (wt s); cbn [size high set_wt];
    match goal with |- ext _ (if ?c then _ else _) _ => destruct c end;
    unfold ext; cbn [conslog cursor total endlog do_pause set_paused set_wt]; rewrite app_nil_r, len_nil;
    (split; [reflexivity|split; [lia|split; [lia|exists []; rewrite app_nil_r; reflexivity]]]).
Qed.

Lemma ext_end s : ext s (fst (end_chunk s)) [].
Proof.
  unfold end_chunk. destruct (splits s); [|apply ext_refl]. destruct (empty_chunk _ _); [apply ext_refl|].
  cbn [fst highc]. unfold wake_ok.
  match goal with |- context [if ?c then _ else _] => destruct c end; unfold do_pause; cbn [wt set_paused];
    destruct (wt s); unfold ext; cbn [conslog cursor total endlog set_wt set_paused]; rewrite app_nil_r, len_nil;
    (split; [reflexivity|split; [lia|split; [lia|exists [total s]; reflexivity]]]).
Qed.

Lemma ext_apply_pitem it s : ext s (apply_pitem it s) [].
Proof.
  destruct it; cbn [apply_pitem]; [apply ext_feed|]. destruct (splits s); [apply ext_end|apply ext_refl].
Qed.

Lemma ext_deliver items : forall s, ext s (deliver items s) [].
Proof.
  induction items as [|it rest IH]; intros s; cbn [deliver]; [apply ext_same; reflexivity|].
  destruct (paused s || eof s); [apply ext_same; reflexivity|].
  change (@nil N) with (@nil N ++ @nil N). eapply ext_trans; [apply ext_apply_pitem|apply IH].
Qed.

Lemma ext_consume n f r s : ext s (fst (consume n f r s)) (snd (consume n f r s)).
Proof.
  unfold consume. destruct (take_chunk n f r) as [d b']. cbn [fst snd]. unfold ext. cbn [conslog cursor total endlog].
  split; [reflexivity|split; [lia|split; [lia|]]]. exists []. rewrite app_nil_r. reflexivity.
Qed.

Lemma ext_rnc n f r s : ext s (fst (rnc n f r s)) (snd (rnc n f r s)).
Proof.
  unfold rnc. pose proof (ext_consume n f r s) as H. destruct (consume n f r s) as [s1 d]. cbn [fst snd] in *.
  destruct (resume_cond s1); [|exact H]. unfold do_resume. cbv zeta.
  rewrite <- (app_nil_r d). eapply ext_trans; [exact H|].
  change (@nil N) with (@nil N ++ @nil N). eapply ext_trans; [|apply ext_deliver].
  apply ext_same; reflexivity.
Qed.

Lemma ext_drain k : forall s, ext s (fst (fst (drain k s))) (snd (fst (drain k s))).
Proof.
  induction k as [|k IH]; intros s; [apply ext_refl|]. rewrite drain_S.
  destruct (buf s) as [|f r]; [apply ext_refl|].
  pose proof (ext_rnc (-1) f r s) as H1. destruct (rnc (-1) f r s) as [s1 d]. cbn [fst snd] in H1.
  specialize (IH s1). destruct (drain k s1) as [[s2 d2] e]. cbn [fst snd] in *.
  eapply ext_trans; eassumption.
Qed.

Lemma ext_take_n fuel : forall n s, ext s (fst (fst (take_n fuel n s))) (snd (fst (take_n fuel n s))).
Proof.
  induction fuel as [|fuel IH]; intros n s; rewrite take_n_eq; destruct (buf s) as [|f r]; try apply ext_refl.
  pose proof (ext_rnc n f r s) as H1. destruct (rnc n f r s) as [s1 d]. cbn [fst snd] in H1. cbv zeta.
  destruct (n - len d =? 0); [exact H1|].
  specialize (IH (n - len d) s1). destruct (take_n fuel (n - len d) s1) as [[s2 d2] e]. cbn [fst snd] in *.
  eapply ext_trans; eassumption.
Qed.

Lemma ext_read_nowait n s : ext s (fst (fst (read_nowait n s))) (snd (fst (read_nowait n s))).
Proof. unfold read_nowait. destruct (n =? -1); [apply ext_drain|apply ext_take_n]. Qed.

(* ---- conservation through the consumer operations -------------------------------------------- *)

(* starting with `acc` already taken, the call ends with `out_of o` taken *)
Definition cons_ok (acc : bytes) (s : st) (so : st * outcome) : Prop :=
  forall pre, conslog s = pre ++ acc -> conslog (fst so) = pre ++ out_of (snd so).

Lemma cons_ok_done0 acc s s' d r :
  conslog s' = conslog s ++ d -> payload r = acc ++ d -> cons_ok acc s (s', Done r).
Proof.
  intros A Hp pre E. cbn [fst snd out_of]. rewrite A, E, Hp, app_assoc. reflexivity.
Qed.

Lemma cons_ok_done acc s s' d r :
  ext s s' d -> payload r = acc ++ d -> cons_ok acc s (s', Done r).
Proof. intros [A _]. apply cons_ok_done0. exact A. Qed.

Lemma cons_ok_block k s : cons_ok (acc_of k) s (block k s).
Proof.
  unfold block. destruct (wait_exc s).
  - eapply cons_ok_done; [apply ext_refl|cbn [payload]; rewrite app_nil_r; reflexivity].
  - intros pre E. cbn. exact E.
Qed.

Lemma finish_payload e ok d : payload ok = d -> payload (finish e ok d) = d.
Proof. intros H. destruct e; cbn; auto. Qed.

Lemma cons_k_read n s : cons_ok [] s (k_read n s).
Proof.
  unfold k_read. destruct (need_wait s); [apply (cons_ok_block (KRead n))|].
  pose proof (ext_read_nowait n s) as H. destruct (read_nowait n s) as [[s1 d] e]. cbn [fst snd] in H.
  eapply cons_ok_done; [exact H|]. cbn [app]. apply finish_payload. reflexivity.
Qed.

Lemma cons_ok_step acc s s1 d so :
  ext s s1 d -> cons_ok (acc ++ d) s1 so -> cons_ok acc s so.
Proof.
  intros [A _] H pre E. apply H. rewrite A, E, app_assoc. reflexivity.
Qed.

Lemma cons_k_readall fuel : forall acc s, cons_ok acc s (k_readall fuel acc s).
Proof.
  induction fuel as [|fuel IH]; intros acc s; rewrite k_readall_eq;
    (destruct (need_wait s); [apply (cons_ok_block (KReadAll acc))|]);
    pose proof (ext_read_nowait (-1) s) as H; destruct (read_nowait (-1) s) as [[s1 d] e]; cbn [fst snd] in H;
    (destruct e;
     [|eapply cons_ok_done; [exact H|reflexivity]|eapply cons_ok_done; [exact H|reflexivity]]);
    (destruct d as [|x d]; [eapply cons_ok_done; [exact H|cbn; rewrite app_nil_r; reflexivity]|]);
    (destruct (exc s1); [eapply cons_ok_done; [exact H|reflexivity]|]).
  - eapply cons_ok_done; [exact H|reflexivity].
  - eapply cons_ok_step; [exact H|apply IH].
Qed.

Lemma cons_k_until fuel : forall sep m acc s, cons_ok acc s (k_until fuel sep m acc s).
Proof.
  induction fuel as [|fuel IH]; intros sep m acc s; rewrite k_until_eq;
    (destruct (buf s) as [|f r];
     [destruct (eof s); [eapply cons_ok_done; [apply ext_refl|cbn; rewrite app_nil_r; reflexivity]
                        |apply (cons_ok_block (KReadUntil sep m acc))]|]).
  - eapply cons_ok_done; [apply ext_refl|cbn; rewrite app_nil_r; reflexivity].
  - destruct (find_sub sep f) as [i|].
    + pose proof (ext_rnc (i + len sep) f r s) as H. destruct (rnc (i + len sep) f r s) as [s1 d].
      cbn [fst snd] in H. cbv zeta.
      destruct (line_too_long _ _); eapply cons_ok_done; try exact H; reflexivity.
    + pose proof (ext_rnc (-1) f r s) as H. destruct (rnc (-1) f r s) as [s1 d].
      cbn [fst snd] in H. cbv zeta.
      destruct (line_too_long _ _); [eapply cons_ok_done; [exact H|reflexivity]|].
      eapply cons_ok_step; [exact H|apply IH].
Qed.

Lemma ext_marks n s : ext s (set_chunk_size n s) [].
Proof. unfold set_chunk_size. destruct (chunk_size_raises _ _); [apply ext_same; reflexivity|apply ext_refl]. Qed.

Lemma cons_k_exactly fuel : forall n acc s, cons_ok acc s (k_exactly fuel n acc s).
Proof.
  induction fuel as [|fuel IH]; intros n acc s; rewrite k_exactly_eq;
    (destruct (need_wait s); [apply (cons_ok_block (KReadExactly n acc))|]);
    pose proof (ext_read_nowait n s) as H; destruct (read_nowait n s) as [[s1 d] e]; cbn [fst snd] in H;
    (destruct e;
     [|eapply cons_ok_done; [exact H|reflexivity]|eapply cons_ok_done; [exact H|reflexivity]]);
    (destruct d as [|x d]; [eapply cons_ok_done; [exact H|cbn; rewrite !app_nil_r; reflexivity]|]); cbv zeta;
    (match goal with |- context [if ?c then _ else _] => destruct c end; [eapply cons_ok_done; [exact H|reflexivity]|]);
    (destruct (exc s1); [eapply cons_ok_done; [exact H|reflexivity]|]).
  - eapply cons_ok_done; [exact H|reflexivity].
  - eapply cons_ok_step; [exact H|].
    intros pre E. apply IH. pose proof (ext_marks (n - len (x :: d)) s1) as [A _]. rewrite A, app_nil_r. exact E.
Qed.

Lemma cons_k_readchunk s : cons_ok [] s (k_readchunk s).
Proof.
  unfold k_readchunk. destruct (exc s); [eapply cons_ok_done; [apply ext_refl|reflexivity]|].
  assert (H0 : forall found s0,
    (found, s0) = match splits s with
                  | None => (None, s)
                  | Some l => let '(p, l') := pop_splits (cursor s) l in (p, set_splits s (Some l'))
                  end -> ext s s0 []).
  { intros found s0 E. destruct (splits s) as [l|].
    - destruct (pop_splits (cursor s) l) as [p l']. inversion E; subst. apply ext_same; reflexivity.
    - inversion E; subst. apply ext_refl. }
  destruct (match splits s with
            | None => (None, s)
            | Some l => let '(p, l') := pop_splits (cursor s) l in (p, set_splits s (Some l'))
            end) as [found s0] eqn:E.
  specialize (H0 found s0 eq_refl).
  destruct found as [p|].
  - destruct (readchunk_at p (cursor s)); [eapply cons_ok_done; [exact H0|reflexivity]|].
    pose proof (ext_read_nowait (p - cursor s) s0) as H. destruct (read_nowait (p - cursor s) s0) as [[s1 d] e].
    cbn [fst snd] in H. eapply cons_ok_done; [eapply ext_trans; [exact H0|exact H]|].
    cbn [app]. apply finish_payload. reflexivity.
  - destruct (buf s0) as [|f r].
    + destruct (eof s0); [eapply cons_ok_done; [exact H0|reflexivity]|].
      eapply cons_ok_step; [exact H0|]. cbn [app]. apply (cons_ok_block KReadChunk).
    + pose proof (ext_rnc (-1) f r s0) as H. destruct (rnc (-1) f r s0) as [s1 d]. cbn [fst snd] in H.
      eapply cons_ok_done; [eapply ext_trans; [exact H0|exact H]|reflexivity].
Qed.

Lemma cons_raise_exc s k : cons_ok [] s k -> cons_ok [] s (raise_exc s k).
Proof. intros H. unfold raise_exc. destruct (exc s); [eapply cons_ok_done; [apply ext_refl|reflexivity]|exact H]. Qed.

Lemma cons_marks acc n s so : cons_ok acc (set_chunk_size n s) so -> cons_ok acc s so.
Proof. intros H pre E. apply H. pose proof (ext_marks n s) as [A _]. rewrite A, app_nil_r. exact E. Qed.

Lemma cons_sync c s s' r : sync_op c s = Some (s', r) -> cons_ok [] s (s', Done r).
Proof.
  intros E. destruct c; cbn [sync_op] in E; try discriminate.
  - destruct (exc s). { inversion E; subst. eapply cons_ok_done; [apply ext_refl|reflexivity]. }
    destruct (wt s) eqn:Ew.
    2: { inversion E; subst. eapply cons_ok_done; [apply ext_refl|reflexivity]. }
    all: destruct (n <? -1); [inversion E; subst; eapply cons_ok_done; [apply ext_refl|reflexivity]|].
    all: pose proof (ext_read_nowait n s) as H; destruct (read_nowait n s) as [[s1 d0] e0]; cbn [fst snd] in H.
    all: inversion E; subst; eapply cons_ok_done; [exact H|cbn [app]; apply finish_payload; reflexivity].
  - inversion E; subst. eapply (cons_ok_done0 _ _ _ []); [|reflexivity].
    unfold unread. destruct d; cbn [conslog]; rewrite app_nil_r; reflexivity.
  - inversion E; subst. eapply cons_ok_done; [apply ext_marks|reflexivity].
Qed.

Lemma cons_start c s : cons_ok [] s (start c s).
Proof.
  destruct c; cbn [start].
  - apply cons_raise_exc. destruct (n =? 0); [eapply cons_ok_done; [apply ext_refl|reflexivity]|].
    destruct (n <? 0); eapply cons_marks; [apply cons_k_readall|apply cons_k_read].
  - apply cons_raise_exc. apply cons_k_read.
  - destruct sep; [eapply cons_ok_done; [apply ext_refl|reflexivity]|]. apply cons_raise_exc. apply cons_k_until.
  - apply cons_raise_exc. destruct (n <=? 0); [eapply cons_ok_done; [apply ext_refl|reflexivity]|].
    eapply cons_marks. apply cons_k_exactly.
  - apply cons_k_readchunk.
  - destruct (sync_op (CReadNowait n) s) as [[s' r]|] eqn:E; [eapply cons_sync; exact E|].
    eapply cons_ok_done; [apply ext_refl|reflexivity].
  - destruct (sync_op (CUnread d) s) as [[s' r]|] eqn:E; [eapply cons_sync; exact E|].
    eapply cons_ok_done; [apply ext_refl|reflexivity].
  - destruct (sync_op (CSetChunkSize n) s) as [[s' r]|] eqn:E; [eapply cons_sync; exact E|].
    eapply cons_ok_done; [apply ext_refl|reflexivity].
Qed.

Lemma cons_resume_k k s : cons_ok (acc_of k) s (resume_k k s).
Proof.
  destruct k; cbn [resume_k acc_of].
  - apply cons_k_read.
  - apply cons_k_readall.
  - apply cons_k_until.
  - apply cons_k_exactly.
  - apply cons_k_readchunk.
Qed.

Lemma conslog_wake_ok s : conslog (wake_ok s) = conslog s.
Proof. unfold wake_ok. destruct (wt s); reflexivity. Qed.

Lemma step_cons o y y' b :
  step o y = (y', b) ->
  forall pre, conslog (sst y) = pre ++ inflight y -> conslog (sst y') = pre ++ obs_bytes b ++ inflight y'.
Proof.
  intros E pre H. unfold inflight in *.
  assert (Hfin : forall acc so, cons_ok acc (sst y) so -> conslog (sst y) = pre ++ acc -> finish_task so = (y', b) ->
                 conslog (sst y') = pre ++ obs_bytes b ++ match task y' with Some k => acc_of k | None => [] end).
  { intros acc [s oc] Hc Ha Ef. specialize (Hc pre Ha). cbn [fst snd] in Hc. unfold finish_task in Ef.
    destruct oc; inversion Ef; subst; cbn [sst task obs_bytes conslog set_wt out_of] in *.
    - rewrite app_nil_r. exact Hc.
    - exact Hc. }
  destruct o; cbn [step] in E; unfold prod in E; cbn [fst snd] in E.
  - inversion E; subst. cbn [sst task]. pose proof (ext_feed d (sst y)) as [A _]. rewrite A, app_nil_r.
    destruct (snd (feed_data d (sst y))); exact H.
  - inversion E; subst. cbn [sst task].
    assert (A : conslog (fst (begin_chunk (sst y))) = conslog (sst y)).
    { unfold begin_chunk. destruct (splits (sst y)); [reflexivity|]. destruct (total (sst y) =? 0); reflexivity. }
    rewrite A. destruct (snd (begin_chunk (sst y))); exact H.
  - inversion E; subst. cbn [sst task]. pose proof (ext_end (sst y)) as [A _]. rewrite A, app_nil_r.
    destruct (snd (end_chunk (sst y))); exact H.
  - inversion E; subst. cbn [sst task obs_bytes app]. unfold feed_eof. cbn [conslog set_paused].
    rewrite conslog_wake_ok. exact H.
  - inversion E; subst. cbn [sst task obs_bytes app]. unfold set_exception, wake_exc. cbn [wt set_exc].
    destruct (wt (sst y)); exact H.
  - inversion E; subst. cbn [sst task obs_bytes app]. exact H.
  - destruct (task y) as [k|] eqn:Et.
    + destruct c; try (inversion E; subst; rewrite Et; exact H).
      * destruct (wt (sst y)); inversion E; subst; rewrite Et; cbn [obs_bytes app]; try exact H.
        destruct (exc (sst y')); cbn; exact H.
      * inversion E; subst. cbn [sst task obs_bytes payload app]. pose proof (ext_marks n (sst y)) as [A _].
        rewrite A, app_nil_r. exact H.
    + eapply Hfin; [apply cons_start|rewrite app_nil_r in H; rewrite app_nil_r; exact H|exact E].
  - destruct (task y) as [k|] eqn:Et.
    + destruct (wt (sst y)) eqn:Ew; try (inversion E; subst; rewrite Et; exact H).
      * eapply (Hfin (acc_of k)); [|exact H|].
        2: { exact E. }
        intros pre' Hp. apply cons_resume_k. exact Hp.
      * inversion E; subst. cbn [sst task obs_bytes payload conslog set_wt]. rewrite app_nil_r. exact H.
    + inversion E; subst. rewrite Et. exact H.
Qed.

Lemma run_cons ops : forall y y' bs,
  run ops y = (y', bs) ->
  forall pre, conslog (sst y) = pre ++ inflight y ->
  conslog (sst y') = pre ++ concat (map obs_bytes bs) ++ inflight y'.
Proof.
  induction ops as [|o ops IH]; intros y y' bs E pre H; cbn [run] in E.
  - inversion E; subst. exact H.
  - destruct (step o y) as [y1 b] eqn:Es. destruct (run ops y1) as [y2 bs'] eqn:Er. inversion E; subst.
    pose proof (step_cons _ _ _ _ Es pre H) as H1. rewrite app_assoc in H1.
    specialize (IH _ _ _ Er _ H1). cbn [map concat]. rewrite IH, <- !app_assoc. reflexivity.
Qed.

(* C08 conservation: for every operation sequence, what completed calls handed out, followed by what
   the suspended call holds, followed by what is buffered, is exactly what was received. *)
Theorem conservation limit ops y bs :
  run ops (init_sys limit) = (y, bs) ->
  concat (map obs_bytes bs) ++ inflight y ++ concat (buf (sst y)) = fedlog (sst y).
Proof.
  intros E. pose proof (Inv_run limit ops) as HI. rewrite E in HI. cbn [fst] in HI.
  pose proof (run_cons ops _ _ _ E [] eq_refl) as H. cbn [app] in H.
  rewrite <- (I_cons _ HI), H, <- app_assoc. reflexivity.
Qed.
