(* C11 — byte-level facts behind the frame header: masking is an involution, big-endian packing is inverted by
   the reader's be_num, the bit layout of the two header bytes, removesuffix. *)
From AV Require Import Lib.Base Generated.WsGen Generated.WsCodecGen Model.Ws Model.WsCodec.
From Coq Require Import ZifyBool ZifyN.
Open Scope N_scope.
Ltac Zify.zify_post_hook ::= Z.to_euclidean_division_equations.

(* ---- masking ------------------------------------------------------------------------------ *)
Lemma lxor_twice x m : N.lxor (N.lxor x m) m = x.
Proof. rewrite N.lxor_assoc, N.lxor_nilpotent, N.lxor_0_r. reflexivity. Qed.

Lemma xor_mask_involutive p : forall a b c d, xor_mask a b c d (xor_mask a b c d p) = p.
Proof.
  induction p as [|x p IH]; intros a b c d; cbn [xor_mask]; [reflexivity|].
  rewrite lxor_twice, IH. reflexivity.
Qed.

Lemma xor_mask_length p : forall a b c d, length (xor_mask a b c d p) = length p.
Proof. induction p as [|x p IH]; intros; cbn [xor_mask length]; [reflexivity|]. now rewrite IH. Qed.

Lemma xor_mask_lenN p a b c d : lenN (xor_mask a b c d p) = lenN p.
Proof. unfold lenN. now rewrite xor_mask_length. Qed.

(* masked bytes stay bytes *)
Lemma lxor_byte x m : x < 256 -> m < 256 -> N.lxor x m < 256.
Proof.
  intros Hx Hm. destruct (N.eq_dec (N.lxor x m) 0) as [->|NZ]; [lia|].
  apply N.log2_lt_pow2 with (b := 8); [lia|].
  eapply N.le_lt_trans; [apply N.log2_lxor|].
  destruct (N.eq_dec x 0) as [->|Nx], (N.eq_dec m 0) as [->|Nm]; cbn; try lia.
  - apply N.max_lub_lt; [cbn; lia|]. apply N.log2_lt_pow2; lia.
  - apply N.max_lub_lt; [|cbn; lia]. apply N.log2_lt_pow2; lia.
  - apply N.max_lub_lt; apply N.log2_lt_pow2; lia.
Qed.

(* ---- big-endian packing --------------------------------------------------------------------- *)
Lemma be_num_app l1 : forall acc l2, be_num acc (l1 ++ l2) = be_num (be_num acc l1) l2.
Proof. induction l1 as [|x l1 IH]; intros; cbn [be_num app]; [reflexivity|]. apply IH. Qed.

Lemma be_acc_app k : forall n acc, be_acc k n acc = be_acc k n [] ++ acc.
Proof.
  induction k as [|k IH]; intros n acc; cbn [be_acc]; [reflexivity|].
  rewrite (IH (n / 256) (n mod 256 :: acc)), (IH (n / 256) [n mod 256]), <- app_assoc. reflexivity.
Qed.

Lemma be_bytes_S k n : be_bytes (S k) n = be_bytes k (n / 256) ++ [n mod 256].
Proof. unfold be_bytes. cbn [be_acc]. apply be_acc_app. Qed.

Lemma be_bytes_length k : forall n, length (be_bytes k n) = k.
Proof.
  induction k as [|k IH]; intro n; [reflexivity|].
  rewrite be_bytes_S, app_length, IH. cbn. lia.
Qed.

Lemma be_num_be_bytes k : forall n, be_num 0 (be_bytes k n) = n mod 256 ^ N.of_nat k.
Proof.
  induction k as [|k IH]; intro n.
  - cbn. now rewrite N.mod_1_r.
  - rewrite be_bytes_S, be_num_app, IH. cbn [be_num].
    rewrite Nat2N.inj_succ, N.pow_succ_r by lia.
    rewrite (N.mod_mul_r n 256 (256 ^ N.of_nat k)) by (try apply N.pow_nonzero; lia). lia.
Qed.

Lemma be_num_be_bytes_small k n : n < 256 ^ N.of_nat k -> be_num 0 (be_bytes k n) = n.
Proof. intro H. rewrite be_num_be_bytes. now apply N.mod_small. Qed.

Lemma be_bytes_bytes k : forall n, Forall (fun b => b < 256) (be_bytes k n).
Proof.
  induction k as [|k IH]; intro n; [constructor|].
  rewrite be_bytes_S. apply Forall_app. split; [apply IH|]. constructor; [|constructor].
  apply N.mod_lt. lia.
Qed.

(* ---- finite checks over a range of N ------------------------------------------------------------- *)
Fixpoint all_below (f : N -> bool) (k : nat) : bool :=
  match k with O => true | S k' => f (N.of_nat k') && all_below f k' end.

Lemma all_below_spec f k : all_below f k = true -> forall n, n < N.of_nat k -> f n = true.
Proof.
  induction k as [|k IH]; cbn [all_below]; intros H n L; [lia|].
  apply andb_true_iff in H as [H1 H2].
  destruct (N.eq_dec n (N.of_nat k)) as [->|NE]; [exact H1|]. apply IH; [exact H2|lia].
Qed.

(* second header byte: <7-bit value> | mask_bit *)
Definition b1_ok (v : N) : bool :=
  N.testbit (N.lor v MASK_BIT) 7 && (N.land (N.lor v MASK_BIT) 127 =? v)
  && negb (N.testbit (N.lor v 0) 7) && (N.land (N.lor v 0) 127 =? v).

Lemma b1_all : all_below b1_ok 128 = true.
Proof. vm_compute. reflexivity. Qed.

Lemma b1_facts (mk : bool) (v : N) : v < 128 ->
  N.testbit (N.lor v (if mk then MASK_BIT else 0)) 7 = mk
  /\ N.land (N.lor v (if mk then MASK_BIT else 0)) 127 = v.
Proof.
  intro L. pose proof (all_below_spec _ _ b1_all v L) as H. unfold b1_ok in H.
  apply andb_true_iff in H as [H H4]. apply andb_true_iff in H as [H H3]. apply andb_true_iff in H as [H1 H2].
  apply N.eqb_eq in H2, H4. apply negb_true_iff in H3.
  destruct mk; split; assumption.
Qed.

(* first header byte: FIN | rsv | opcode for the opcodes the writer API produces *)
Definition opcode_ok (opcode : N) : bool := ws_mem opcode [OP_TEXT; OP_BINARY; OP_CLOSE; OP_PING; OP_PONG].

Lemma opcode_ok_cases opcode : opcode_ok opcode = true ->
  opcode = 1 \/ opcode = 2 \/ opcode = 8 \/ opcode = 9 \/ opcode = 10.
Proof.
  unfold opcode_ok. cbn [ws_mem]. rewrite !orb_true_iff, !N.eqb_eq. unfold OP_TEXT, OP_BINARY, OP_CLOSE, OP_PING, OP_PONG.
  intuition discriminate.
Qed.

Lemma b0_facts (rsv1 : bool) (opcode : N) : opcode_ok opcode = true ->
  let b0 := N.lor (N.lor FIN_BIT (if rsv1 then RSV1_COMPRESSED else 0)) opcode in
  N.testbit b0 7 = true /\ N.testbit b0 6 = rsv1 /\ N.testbit b0 5 = false /\ N.testbit b0 4 = false
  /\ N.land b0 15 = opcode.
Proof.
  intro H. apply opcode_ok_cases in H. destruct H as [-> | [-> | [-> | [-> | ->]]]]; destruct rsv1; vm_compute; repeat split; reflexivity.
Qed.

(* ---- removesuffix ---------------------------------------------------------------------------------- *)
Lemma frev_rev l : frev l = rev l.
Proof. unfold frev. rewrite rev_append_rev. apply app_nil_r. Qed.

Lemma strip_prefix_app p : forall l, strip_prefix p (p ++ l) = Some l.
Proof. induction p as [|x p IH]; intro l; cbn [strip_prefix app]; [reflexivity|]. rewrite N.eqb_refl. apply IH. Qed.

Lemma strip_suffix_app s l : strip_suffix s (l ++ s) = Some l.
Proof.
  unfold strip_suffix. rewrite !frev_rev, rev_app_distr, strip_prefix_app, frev_rev, rev_involutive. reflexivity.
Qed.

Lemma removesuffix_app s l : removesuffix s (l ++ s) = l.
Proof. unfold removesuffix. now rewrite strip_suffix_app. Qed.

Lemma trailing_same : DEFLATE_TRAILING = WS_DEFLATE_TRAILING.
Proof. reflexivity. Qed.

(* ---- take / drop on an exact prefix ---------------------------------------------------------------- *)
Lemma takeN_exact {A} (x y : list A) : Ws.takeN (length x) (x ++ y) = x.
Proof. induction x as [|a x IH]; cbn; [destruct y; reflexivity|]. now rewrite IH. Qed.

Lemma dropN_exact {A} (x y : list A) : Ws.dropN (length x) (x ++ y) = y.
Proof. induction x as [|a x IH]; cbn; [destruct y; reflexivity|]. exact IH. Qed.

Lemma lenN_to_nat {A} (l : list A) : N.to_nat (lenN l) = length l.
Proof. unfold lenN. apply Nat2N.id. Qed.
