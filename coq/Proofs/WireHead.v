(* C02 support, part 3: the head a valid client request serialises to is parsed back by the request
   parser as the same method, target, version and field list; the framing headers select the payload
   parser that matches what the writer emits. *)
From Coq Require Import ZifyBool ZifyN.
From AV Require Import Lib.Base Lib.Utf8 Lib.BytesX Generated.WriterGen Generated.HttpGen Generated.WireGen
  Model.Writer Model.Http Model.Wire
  Proofs.HttpSegBase Proofs.HttpSegChunk Proofs.HttpSeg Proofs.WriterHeaders Proofs.WriterBody
  Proofs.WireLines Proofs.WireBody.
Ltac Zify.zify_post_hook ::= Z.to_euclidean_division_equations.
Open Scope N_scope.

(* ------------------------------------------------------------------ characters *)
Lemma tchar_props c : tchar c = true ->
  c <> 32 /\ c <> 58 /\ c <> 9 /\ c <> 13 /\ c <> 10 /\ c <> 59 /\ c < 128 /\ 33 <= c.
Proof. unfold tchar. intro H. lia. Qed.

Lemma tchar_upper c : tchar c = true -> tchar (upper c) = true.
Proof. unfold tchar, upper. intro H. destruct ((97 <=? c) && (c <=? 122)) eqn:E; lia. Qed.

Lemma upper_idem c : upper (upper c) = upper c.
Proof.
  unfold upper. destruct ((97 <=? c) && (c <=? 122)) eqn:E; [|rewrite E; reflexivity].
  destruct ((97 <=? c - 32) && (c - 32 <=? 122)) eqn:E2; lia.
Qed.

Lemma map_upper_idem s : map upper (map upper s) = map upper s.
Proof. rewrite map_map. apply map_ext. apply upper_idem. Qed.

Lemma forbidden_classes_agree c : field_forbidden_ctl c = forbidden_header_char c.
Proof. unfold field_forbidden_ctl, forbidden_header_char. reflexivity. Qed.

Lemma forbidden_is_low c : field_forbidden_ctl c = true -> c < 128.
Proof. unfold field_forbidden_ctl. lia. Qed.

Lemma forallb_In {A} (f : A -> bool) l : forallb f l = true -> forall x, In x l -> f x = true.
Proof. intro H. apply forallb_forall. exact H. Qed.

Lemma tok_ascii s : forallb tchar s = true -> forallb (fun c => c <? 128) s = true.
Proof.
  intro H. apply forallb_forall. intros c Hc. pose proof (tchar_props c (forallb_In _ _ H c Hc)). lia.
Qed.

Lemma tok_not_in s c : forallb tchar s = true -> tchar c = false -> ~ In c s.
Proof. intros H Hc Hin. rewrite (forallb_In _ _ H c Hin) in Hc. discriminate. Qed.

Lemma tok_upper s : forallb tchar s = true -> forallb tchar (map upper s) = true.
Proof.
  intro H. apply forallb_forall. intros c Hc. apply in_map_iff in Hc as (c0 & <- & Hc0).
  apply tchar_upper. exact (forallb_In _ _ H c0 Hc0).
Qed.

Lemma u8_ascii s : forallb (fun c => c <? 128) s = true -> u8 s = s.
Proof. intro H. unfold u8. rewrite utf8_encode_ascii by exact H. reflexivity. Qed.

Lemma ascii_tok_parts s : ascii_tok s = true -> s <> [] /\ forallb tchar s = true.
Proof.
  unfold ascii_tok. intro H. apply andb_true_iff in H as [H1 H2]. split; [|exact H2].
  destruct s; [discriminate|discriminate].
Qed.

(* ------------------------------------------------------------------ splitting *)
Lemma split_first_aux_clean sep : forall a acc b, ~ In sep a ->
  split_first_aux sep acc (a ++ sep :: b) = Some (rev acc ++ a, b).
Proof.
  induction a as [|c a IH]; intros acc b H; cbn [app split_first_aux].
  - rewrite N.eqb_refl, app_nil_r. reflexivity.
  - destruct (c =? sep) eqn:E; [exfalso; apply H; left; lia|].
    rewrite IH by (intro; apply H; right; assumption). cbn [rev]. rewrite <- app_assoc. reflexivity.
Qed.

Lemma split_first_clean sep a b : ~ In sep a -> split_first sep (a ++ sep :: b) = Some (a, b).
Proof. intro H. unfold split_first. rewrite split_first_aux_clean by exact H. reflexivity. Qed.

Lemma last_In {A} (l : list A) d : l <> [] -> In (last l d) l.
Proof.
  induction l as [|a l IH]; [congruence|]. intros _. destruct l as [|b l]; [left; reflexivity|].
  right. apply IH. discriminate.
Qed.

Lemma lstrip_sub c s : In c (lstrip_ows s) -> In c s.
Proof.
  induction s as [|a s IH]; cbn [lstrip_ows]; [tauto|].
  destruct (is_ows a); [intro H; right; apply IH; exact H|tauto].
Qed.

Lemma strip_sub c s : In c (strip_ows s) -> In c s.
Proof.
  unfold strip_ows, rstrip_ows. intro H. apply in_rev in H. apply lstrip_sub in H. apply in_rev in H.
  apply lstrip_sub in H. exact H.
Qed.

Lemma strip_sp s : strip_ows (32 :: s) = strip_ows s.
Proof. reflexivity. Qed.

Lemma existsb_false_of {A} (f : A -> bool) l : (forall x, In x l -> f x = false) -> existsb f l = false.
Proof.
  induction l as [|a l IH]; intro H; [reflexivity|]. cbn [existsb].
  rewrite (H a (or_introl eq_refl)), IH; [reflexivity|]. intros x Hx. apply H. right. exact Hx.
Qed.

(* ------------------------------------------------------------------ one field line *)
Lemma parse_field_hline k ev :
  ascii_tok k = true -> (forall c, In c ev -> field_forbidden_ctl c = false) ->
  parse_field (k ++ [58; 32] ++ ev) = POk (k, strip_ows ev).
Proof.
  intros Hk Hev. destruct (ascii_tok_parts k Hk) as [Hne Htok].
  unfold parse_field. cbn [app]. rewrite split_first_clean by (apply tok_not_in; [exact Htok|reflexivity]).
  destruct k as [|f k']; [congruence|].
  assert (Hf : is_ows f = false).
  { pose proof (tchar_props f (forallb_In _ _ Htok f (or_introl eq_refl))). unfold is_ows. lia. }
  assert (Hl : is_ows (last (f :: k') 0) = false).
  { pose proof (tchar_props _ (forallb_In _ _ Htok _ (last_In (f :: k') 0 ltac:(discriminate)))). unfold is_ows. lia. }
  rewrite Hf, Hl, Htok. cbn [orb negb]. rewrite strip_sp.
  rewrite existsb_false_of; [reflexivity|]. intros c Hc. apply Hev. apply strip_sub. exact Hc.
Qed.

(* bytes of an accepted header value *)
Lemma safe_value_bytes v c : safe_header v = true -> In c (u8 v) -> field_forbidden_ctl c = false.
Proof.
  intros Hs Hc. unfold u8 in Hc. destruct (utf8_encode v) as [b|] eqn:E; [|destruct Hc].
  destruct (utf8_encode_bytes _ _ _ E Hc) as [[Hin _]|[Hge _]].
  - rewrite forbidden_classes_agree. destruct (forbidden_header_char c) eqn:F; [|reflexivity].
    exfalso. exact (safe_header_no_ctl _ _ Hs F Hin).
  - destruct (field_forbidden_ctl c) eqn:F; [|reflexivity]. apply forbidden_is_low in F. lia.
Qed.

(* ------------------------------------------------------------------ the field block *)
Definition wh (kv : str * str) : bytes * bytes := (fst kv, strip_ows (u8 (snd kv))).

Lemma has_header_names n (acc : list (bytes * bytes)) :
  has_header n acc = existsb (fun k => ieqb k n) (map fst acc).
Proof. unfold has_header. induction acc as [|kv acc IH]; [reflexivity|]. cbn [existsb map]. rewrite IH. reflexivity. Qed.

Lemma parse_fields_hlines : forall hs acc,
  forallb (fun kv => ascii_tok (fst kv)) hs = true ->
  forallb (fun kv => safe_header (snd kv)) hs = true ->
  no_dup_singletons (map fst acc) (map fst hs) = true ->
  parse_fields (map hline hs) acc = POk (acc ++ map wh hs).
Proof.
  induction hs as [|kv hs IH]; intros acc Hn Hv Hd.
  - cbn [map parse_fields]. rewrite app_nil_r. reflexivity.
  - cbn [forallb map] in *. apply andb_true_iff in Hn as [Hn1 Hn2]. apply andb_true_iff in Hv as [Hv1 Hv2].
    cbn [no_dup_singletons] in Hd. apply andb_true_iff in Hd as [Hd1 Hd2].
    cbn [parse_fields]. unfold hline at 1.
    rewrite parse_field_hline; [|exact Hn1|intros c Hc; eapply safe_value_bytes; eassumption].
    rewrite has_header_names. apply negb_true_iff in Hd1. rewrite Hd1.
    rewrite IH; [|assumption|assumption|].
    + rewrite <- app_assoc. reflexivity.
    + rewrite map_app. exact Hd2.
Qed.

(* ------------------------------------------------------------------ the serialised head *)
Lemma headers_safe_values hs : headers_safe hs = true -> forallb (fun kv => safe_header (snd kv)) hs = true.
Proof.
  unfold headers_safe. intro H. apply forallb_forall. intros kv Hkv.
  pose proof (forallb_In _ _ H kv Hkv) as Hx. cbv beta in Hx. apply andb_true_iff in Hx as [_ Hx]. exact Hx.
Qed.

Lemma encode_header_line kv b :
  ascii_tok (fst kv) = true -> utf8_encode (header_line kv) = Some b -> b = hline kv.
Proof.
  intros Hk He. destruct (ascii_tok_parts _ Hk) as [_ Htok].
  unfold header_line, kv_sep in He. rewrite !utf8_encode_app in He.
  rewrite (utf8_encode_ascii (fst kv)) in He by (apply tok_ascii; exact Htok).
  change (utf8_encode [58; 32]) with (Some [58; 32]) in He.
  unfold hline, u8. destruct (utf8_encode (snd kv)) as [ev|]; [|discriminate].
  apply Some_inj in He. subst b. reflexivity.
Qed.

Lemma join_lines : forall (els : list bytes), els <> [] -> join CRLF els ++ CRLF = lines_bytes els.
Proof.
  induction els as [|l els IH]; [congruence|]. intros _. destruct els as [|l2 els'].
  - cbn [join]. unfold lines_bytes, CRLF. cbn [map concat]. rewrite app_nil_r. reflexivity.
  - change (join CRLF (l :: l2 :: els')) with (l ++ CRLF ++ join CRLF (l2 :: els')).
    rewrite lines_bytes_cons, <- IH by discriminate. unfold CRLF. rewrite <- !app_assoc. reflexivity.
Qed.

Lemma Forall2_hlines : forall hs els,
  forallb (fun kv => ascii_tok (fst kv)) hs = true ->
  Forall2 (fun kv el => utf8_encode (header_line kv) = Some el) hs els -> els = map hline hs.
Proof.
  induction hs as [|kv hs IH]; intros els Hn HF; inversion HF; subst; [reflexivity|].
  cbn [forallb] in Hn. apply andb_true_iff in Hn as [Hn1 Hn2]. cbn [map].
  f_equal; [eapply encode_header_line; eassumption|apply IH; assumption].
Qed.

(* the head is: request line, field lines, empty line *)
Lemma head_shape (r : creq) head :
  c_headers r <> [] -> forallb (fun kv => ascii_tok (fst kv)) (c_headers r) = true ->
  serialize_headers (status_line r) (c_headers r) = Some head ->
  head = lines_bytes (u8 (status_line r) :: map hline (c_headers r)) ++ [13; 10] /\
  headers_safe (c_headers r) = true /\ safe_header (status_line r) = true /\
  utf8_encode (status_line r) = Some (u8 (status_line r)).
Proof.
  intros Hne Hn Hs. pose proof Hs as Hs0.
  apply no_injection in Hs as (esl & els & Hesl & HF & -> & _ & _).
  apply Forall2_hlines in HF; [|exact Hn]. subst els.
  unfold serialize_headers in Hs0. destruct (safe_header (status_line r) && headers_safe (c_headers r)) eqn:Hsafe; [|discriminate].
  apply andb_true_iff in Hsafe as [Hs1 Hs2].
  split; [|split; [exact Hs2|split; [exact Hs1|]]].
  - rewrite lines_bytes_cons. unfold u8. rewrite Hesl.
    rewrite <- join_lines by (destruct (c_headers r); [congruence|discriminate]).
    unfold CRLF. repeat (rewrite <- app_assoc; cbn [app]). reflexivity.
  - unfold u8. rewrite Hesl. reflexivity.
Qed.

(* ------------------------------------------------------------------ the request line *)
Lemma u8_status_line r :
  forallb tchar (c_method r) = true -> is_ascii (c_target r) = true ->
  u8 (status_line r) = map upper (c_method r) ++ 32 :: c_target r ++ 32 :: version_str (c_v11 r).
Proof.
  intros Hm Ht. change (map upper (c_method r) ++ 32 :: c_target r ++ 32 :: version_str (c_v11 r)) with (status_line r).
  apply u8_ascii. unfold status_line. rewrite !forallb_app.
  rewrite (tok_ascii _ (tok_upper _ Hm)). unfold is_ascii in Ht. rewrite Ht.
  destruct (c_v11 r); reflexivity.
Qed.

Lemma header_values_none n hs : has_header n hs = false -> header_values n hs = [].
Proof.
  unfold has_header. induction hs as [|[k v] hs IH]; [reflexivity|]. cbn [existsb header_values fst].
  intro H. apply orb_false_iff in H as [H1 H2]. rewrite H1. apply IH. exact H2.
Qed.

Lemma get_header_none n hs : has_header n hs = false -> get_header n hs = None.
Proof. intro H. unfold get_header. rewrite (header_values_none _ _ H). reflexivity. Qed.

Lemma get_header_some n hs v : get_header n hs = Some v -> has_header n hs = true.
Proof.
  intro H. destruct (has_header n hs) eqn:E; [reflexivity|]. rewrite (get_header_none _ _ E) in H. discriminate.
Qed.

Lemma wire_headers_map r :
  forallb (fun kv => ascii_tok (fst kv)) (c_headers r) = true -> wire_headers r = map wh (c_headers r).
Proof.
  intro Hn. unfold wire_headers. apply map_ext_in. intros kv Hkv. unfold wh. f_equal.
  apply u8_ascii. apply tok_ascii. pose proof (forallb_In _ _ Hn kv Hkv) as Hx. cbv beta in Hx.
  apply ascii_tok_parts in Hx as [_ Hx]. exact Hx.
Qed.

(* what derive says for a request whose framing headers match the writer mode *)
Lemma derive_framed r :
  framing_ok r = true -> has_header h_upgrade (wire_headers r) = false ->
  exists hi, derive (wire_headers r) = POk hi /\ hi_upgrade hi = false /\
             hi_chunked hi = req_chunking r.
Proof.
  intros Hf Hu. unfold framing_ok in Hf. set (hs := wire_headers r) in *.
  unfold derive. rewrite (get_header_none _ _ Hu), andb_false_r.
  destruct (req_chunking r).
  - destruct (get_header h_transfer_encoding hs) as [te|] eqn:Et; [|discriminate].
    apply andb_true_iff in Hf as [H1 H2]. apply list_eqb_eq in H1. subst te.
    change (is_chunked_te t_chunked) with (@POk bool true). apply negb_true_iff in H2. rewrite H2.
    eexists. split; [reflexivity|]. split; reflexivity.
  - apply andb_true_iff in Hf as [H1 _]. apply negb_true_iff in H1.
    rewrite (get_header_none _ _ H1). eexists. split; [reflexivity|]. split; reflexivity.
Qed.

Lemma parse_version_str v11 : parse_version (version_str v11) = Some (1, if v11 then 1 else 0).
Proof. destruct v11; reflexivity. Qed.

Lemma parse_request_head o (r : creq) lim :
  valid lim r = true -> headers_safe (c_headers r) = true ->
  parse_request o (u8 (status_line r) :: map hline (c_headers r)) = POk (expected_msg r).
Proof.
  unfold valid. intros Hv Hsafe.
  repeat (apply andb_true_iff in Hv as [Hv ?]).
  rename H into Hlim, H0 into Hlen, H1 into Hframe, H2 into Hhost, H3 into Hws, H4 into Hupg, H5 into Hdup, H6 into Hnames,
         H7 into Hne, H8 into Hforb, H9 into Hasc, H10 into Hslash, H11 into Hconn, H12 into Hmtok.
  assert (Hmne : c_method r <> []) by (destruct (c_method r); [discriminate|discriminate]).
  apply negb_true_iff in Hupg, Hws, Hforb, Hconn.
  rewrite (u8_status_line r Hmtok Hasc).
  assert (HMtok : forallb tchar (map upper (c_method r)) = true) by (apply tok_upper; exact Hmtok).
  unfold parse_request.
  rewrite split_first_clean by (apply tok_not_in; [exact HMtok|reflexivity]).
  assert (Ht32 : ~ In 32 (c_target r)).
  { intro Hin. assert (target_forbidden 32 = true) by reflexivity.
    pose proof (existsb_false_In _ _ _ Hforb Hin). congruence. }
  rewrite split_first_clean by exact Ht32.
  assert (HMne : nonempty (map upper (c_method r)) = true) by (destruct (c_method r); [congruence|reflexivity]).
  rewrite HMne, HMtok. cbn [andb negb]. rewrite map_upper_idem.
  rewrite parse_version_str.
  unfold check_target. rewrite Hforb, Hconn, Hslash.
  rewrite parse_fields_hlines; [|exact Hnames|apply headers_safe_values; exact Hsafe|exact Hdup].
  cbn [app]. rewrite <- (wire_headers_map r Hnames).
  destruct (derive_framed r Hframe Hupg) as (hi & Hd & Hu & Hc).
  rewrite Hd.
  assert (Hh : ((1 =? 1) && ((if c_v11 r then 1 else 0) =? 1) && negb (has_header h_host (wire_headers r))) = false).
  { destruct (c_v11 r); [|reflexivity]. cbn [negb orb] in Hhost. rewrite Hhost. reflexivity. }
  rewrite Hh. unfold expected_msg, hinfo_of. rewrite Hd.
  f_equal. f_equal. destruct (hi_close hi); [reflexivity|]. destruct (c_v11 r); reflexivity.
Qed.
