(* C01 support: chunked_loop (as crun) against HttpSpec.dechunk, for all inputs. *)
From Coq Require Import ZifyBool ZifyN.
From AV Require Import Lib.Base Lib.BytesX Generated.HttpGen Model.Http Model.HttpSpec
  Proofs.HttpSegBase Proofs.HttpSegChunk Proofs.HttpSeg Proofs.HttpSpecRefinePart Proofs.HttpSpecRefineBase.
Ltac Zify.zify_post_hook ::= Z.to_euclidean_division_equations.
Open Scope N_scope.

(* ------------------------------------------------------------------ trailers *)
Definition trl_result (mt : N) (evs : acc) (h : hres) : pres :=
  match h with
  | HBlock tls rest =>
    match parse_trailers tls with
    | Some e => PRFail e evs
    | None => PRDone rest (ev_eof evs)
    end
  | HErr _ e => PRFail e evs
  | HPartial tls tl =>
    if has_byte 10 tl then PRFail ETransferEncoding evs
    else PRNeed (mkP (PChunked CTrailers) tl tls mt) evs
  end.

Lemma crun_trl lim mt : forall f x tl0 evs, (length x < f)%nat ->
  crun lim mt (CTrailers, tl0, evs) x =
  trl_result mt evs (blk_run (max_field lim) (max_field lim) mt f tl0 x).
Proof.
  induction f as [|f IH]; intros x tl0 evs Hf; [lia|].
  rewrite crun_step by exact I. destruct x as [|a r]; [reflexivity|].
  cbn [step_c blk_run].
  destruct (find_crlf (a :: r)) as [[line rest]|] eqn:E.
  - pose proof (find_crlf_len _ _ _ E) as HL.
    replace (limit_of (max_field lim) (max_field lim) tl0) with (max_field lim) by (destruct tl0; reflexivity).
    lazy zeta. destruct line as [|c line]; repeat dif; try reflexivity.
    + cbn [trl_result]. destruct (parse_trailers tl0); reflexivity.
    + apply IH. cbn [length] in *. lia.
  - cbn [trl_result]. dif; reflexivity.
Qed.

(* ------------------------------------------------------------------ chunks *)
Lemma crun_dechunk lim mt m bd eo ex old : forall f x data ends, (length x < f)%nat ->
  let run := crun lim mt (CSize, [], (mkR m bd data ends eo ex :: old : acc)) x in
  match dechunk f lim mt x data ends with
  | DOk d e rest => run = PRDone rest (ev_eof (mkR m bd d e eo ex :: old))
  | DIncomplete =>
    exists d e, (exists p', run = PRNeed p' (mkR m bd d e eo ex :: old)) \/
                (exists err, run = PRFail err (mkR m bd d e eo ex :: old) /\ early err)
  | DReject err =>
    exists d e err', run = PRFail err' (mkR m bd d e eo ex :: old) /\
                     (err' = err \/ (err = ELineTooLong /\ err' = EBadMessage))
  end.
Proof.
  induction f as [|f IH]; intros x data ends Hf; [lia|]. cbv zeta.
  rewrite dechunk_S. unfold dechunk_body. rewrite crun_step by exact I.
  destruct x as [|a r].
  { change (find_crlf []) with (@None (bytes * bytes)). cbn [has_byte step_c]. exists data, ends. left. eauto. }
  cbn [step_c].
  destruct (find_crlf (a :: r)) as [[line rest]|] eqn:E.
  2:{ destruct (has_byte 10 (a :: r)); [exists data, ends, ETransferEncoding; auto|exists data, ends; left; eauto]. }
  pose proof (find_crlf_len _ _ _ E) as HL.
  destruct (max_line lim <? lenN line). { exists data, ends, ELineTooLong. auto. }
  assert (Hsz : forall (size_b : bytes) (A : pres) (B : dres),
             (if negb (nonempty size_b && forallb hex_digit size_b) then PRFail ETransferEncoding (mkR m bd data ends eo ex :: old) else A) = A \/ True) by auto.
  clear Hsz.
  set (evs := mkR m bd data ends eo ex :: old).
  (* the size line *)
  assert (Hline : forall size_b : bytes,
    let K := if parse_hex size_b =? 0 then crun lim mt (CTrailers, [], (evs : acc)) rest
             else crun lim mt (CData (parse_hex size_b), [], (evs : acc)) rest in
    match (if parse_hex size_b =? 0 then
             match take_block (S (length rest)) rest [] with
             | None => DIncomplete
             | Some (tls, rest') =>
               if existsb (fun l => max_field lim <? lenN l) tls then DReject ELineTooLong
               else if mt <? lenN tls + 1 then DReject EBadMessage
               else match parse_trailers tls with Some e => DReject e | None => DOk data ends rest' end
             end
           else
             let '(d, rest1) := takeN (parse_hex size_b) rest in
             if lenN d <? parse_hex size_b then DIncomplete else
             match rest1 with
             | [] => DIncomplete
             | a1 :: t =>
               if a1 =? 13 then
                 match t with
                 | [] => DIncomplete
                 | b :: rest2 => if b =? 10 then dechunk f lim mt rest2 (data ++ d) (ends ++ [lenN (data ++ d)])
                                 else DReject ETransferEncoding
                 end
               else DReject ETransferEncoding
             end) with
    | DOk d e rest' => K = PRDone rest' (ev_eof (mkR m bd d e eo ex :: old))
    | DIncomplete =>
      exists d e, (exists p', K = PRNeed p' (mkR m bd d e eo ex :: old)) \/
                  (exists err, K = PRFail err (mkR m bd d e eo ex :: old) /\ early err)
    | DReject err =>
      exists d e err', K = PRFail err' (mkR m bd d e eo ex :: old) /\
                       (err' = err \/ (err = ELineTooLong /\ err' = EBadMessage))
    end).
  { intro size_b. cbv zeta. destruct (parse_hex size_b =? 0) eqn:Ez; lazy beta match.
    - (* last chunk: trailers *)
      rewrite (crun_trl lim mt (S (length rest)) rest [] evs (Nat.lt_succ_diag_r _)).
      destruct (take_block (S (length rest)) rest []) as [[tls rest']|] eqn:Et.
      + destruct (take_block_run (max_field lim) (max_field lim) mt _ _ _ _ _ Et) as (new & Hn & Hres).
        cbn [app] in Hn. subst new. rewrite long_any_same in Hres.
        destruct (existsb (fun l => max_field lim <? lenN l) tls) eqn:Ex.
        * cbn [orb] in Hres. destruct Hres as (lsk & e' & -> & He). cbn [trl_result].
          exists data, ends, e'. split; [reflexivity|]. destruct He as [[-> _]| ->]; auto.
        * cbn [orb] in Hres. destruct (mt <? lenN tls + 1).
          -- destruct Hres as (lsk & e' & -> & He). cbn [trl_result].
             exists data, ends, e'. split; [reflexivity|]. destruct He as [[_ He]| ->]; [discriminate|auto].
          -- rewrite Hres. cbn [trl_result]. destruct (parse_trailers tls) as [e|].
             ++ exists data, ends, e. auto.
             ++ reflexivity.
      + destruct (blk_run (max_field lim) (max_field lim) mt (S (length rest)) [] rest) as [ls r0|ls e|ls tl] eqn:Eb.
        * apply blk_block in Eb. congruence.
        * cbn [trl_result]. exists data, ends. right. exists e. split; [reflexivity|].
          apply blk_err_class in Eb. unfold early. tauto.
        * cbn [trl_result]. exists data, ends. destruct (has_byte 10 tl).
          -- right. exists ETransferEncoding. split; [reflexivity|]. unfold early. tauto.
          -- left. eauto.
    - (* a data chunk *)
      assert (Hpos : 0 < parse_hex size_b) by lia.
      rewrite crun_step by exact Hpos.
      destruct rest as [|c0 rest0].
      { cbn [takeN step_c]. destruct (lenN _ <? parse_hex size_b) eqn:E0; [|unfold lenN in E0; cbn [length] in E0; lia].
        exists data, ends. left. eauto. }
      destruct (takeN (parse_hex size_b) (c0 :: rest0)) as [d rest1] eqn:Et.
      rewrite (step_c_data _ _ _ _ _ _ _ _ _ Et).
      pose proof (takeN_split _ _ _ _ Et) as [_ Hd]. pose proof (takeN_rest_len _ _ _ _ Et) as Hr1.
      destruct (lenN d <? parse_hex size_b) eqn:El.
      { destruct (parse_hex size_b - lenN d =? 0) eqn:E0; [lia|]. subst evs. cbn [ev_data upd_cur r_msg r_body r_data r_splits r_eof r_exc].
        eexists _, _. left. eauto. }
      destruct (parse_hex size_b - lenN d =? 0) eqn:E0; [|lia].
      subst evs. cbn [ev_data ev_chunk_end upd_cur r_msg r_body r_data r_splits r_eof r_exc].
      rewrite crun_step by exact I.
      destruct rest1 as [|a1 t]. { cbn [step_c]. eexists _, _. left. eauto. }
      cbn [step_c]. destruct (a1 =? 13). 2:{ eexists _, _, ETransferEncoding. split; [reflexivity|auto]. }
      destruct t as [|b rest2]. { eexists _, _. left. eauto. }
      destruct (b =? 10). 2:{ eexists _, _, ETransferEncoding. split; [reflexivity|auto]. }
      apply IH. cbn [length] in *. lia. }
  (* size and extension of the size line *)
  destruct (split_first 59 line) as [[sz ext]|].
  - destruct (has_byte 10 ext); cbn [negb orb].
    { exists data, ends, ETransferEncoding. auto. }
    destruct (negb (nonempty sz && forallb hex_digit sz)).
    { exists data, ends, ETransferEncoding. auto. }
    specialize (Hline sz). cbv zeta in Hline.
    destruct (parse_hex sz =? 0); exact Hline.
  - cbn [negb orb]. destruct (negb (nonempty line && forallb hex_digit line)).
    { exists data, ends, ETransferEncoding. auto. }
    specialize (Hline line). cbv zeta in Hline.
    destruct (parse_hex line =? 0); exact Hline.
Qed.
