(* C09: ZLibDecompressor.decompress_sync / _decompress_members never return more than max_length bytes
   (max_length <> 0), whatever the number of concatenated members, provided one member decompressor
   call respects its own max_length.  This is the cap law the bounded-memory theorem assumes, derived
   for the multi-member glue from the law of a single zlib decompressobj. *)
From AV Require Import Lib.Base Generated.DecodeGen Model.Decode.
From Coq Require Import ZifyBool ZifyN.
Ltac Zify.zify_post_hook ::= Z.to_euclidean_division_equations.
Open Scope N_scope.

Section ZCap.
  Variable M : Type.
  Variable mnew : N -> M.
  Variable mdec : M -> bytes -> N -> option (M * bytes).
  Variable mtail munused : M -> bytes.
  Variable meof : M -> bool.
  Hypothesis mcap : forall d x m d' out, mdec d x m = Some (d', out) -> m <> 0 -> lenN out <= m.

  Lemma zh_members_cap : forall fuel mode d rest window maxlen produced members out d' pend out',
    maxlen <> 0 -> produced = lenN out -> lenN out <= maxlen ->
    zh_members M mnew mdec munused meof fuel mode d rest window maxlen produced members out = Some (Some (d', pend, out')) ->
    lenN out' <= maxlen.
  Proof.
    induction fuel as [|fuel IH]; intros mode d rest window maxlen produced members out d' pend out' Hm Hp Hle; cbn [zh_members]; [discriminate|].
    destruct (isnil rest); [intros [= _ _ <-]; exact Hle|].
    destruct (meof d && dg_too_many_members (if meof d then members + 1 else members)); [discriminate|].
    unfold dg_unlimited, dg_budget_spent, dg_budget.
    replace (maxlen =? 0) with false by (symmetry; apply N.eqb_neq; exact Hm). cbn [negb andb].
    destruct (maxlen <=? produced) eqn:Eb; [intros [= _ _ <-]; exact Hle|].
    match goal with |- context [mdec ?a ?b ?c] => destruct (mdec a b c) as [[d2 chunk]|] eqn:Ed end; [|discriminate].
    assert (Hc : lenN chunk <= maxlen - produced) by (eapply mcap; [exact Ed|lia]).
    destruct (meof d2); intros Hz; eapply IH in Hz; eauto; rewrite ?lenN_app; lia.
  Qed.

  Theorem zh_step_cap : forall z data maxlen z' out,
    maxlen <> 0 -> zh_step M mnew mdec mtail munused meof z data maxlen = HOk M z' out -> lenN out <= maxlen.
  Proof.
    intros z data maxlen z' out Hm. unfold zh_step.
    match goal with |- context [mdec ?a ?b ?c] => destruct (mdec a b c) as [[d1 r]|] eqn:Ed end; [|discriminate].
    pose proof (mcap _ _ _ _ _ Ed Hm) as Hr.
    destruct (meof d1 && negb (isnil (munused d1))).
    - match goal with |- context [zh_members ?a ?b ?c ?d ?e ?f ?g ?h ?i ?j ?k ?l ?m] =>
        destruct (zh_members a b c d e f g h i j k l m) as [[[[d2 pend] o2]|]|] eqn:Ez end; try discriminate.
      intros [= _ <-]. eapply zh_members_cap; [exact Hm| |exact Hr|exact Ez]. reflexivity.
    - intros [= _ <-]. exact Hr.
  Qed.
End ZCap.
