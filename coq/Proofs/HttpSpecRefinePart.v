(* C01 support: the strict whole-stream reading (Model/HttpSpec.v) partitions the stream.  The
   spans of the messages it reads are contiguous and disjoint: the stream is the leading CRLF
   pairs and the spans woven in order, followed by what the verdict leaves over. *)
From Coq Require Import ZifyBool ZifyN.
From AV Require Import Lib.Base Lib.BytesX Generated.HttpGen Model.Http Model.HttpSpec
  Proofs.HttpSegBase.
Ltac Zify.zify_post_hook ::= Z.to_euclidean_division_equations.
Open Scope N_scope.

(* k CRLF pairs *)
Definition crlfs (k : nat) : bytes := concat (repeat [13; 10] k).

(* the explicit reconstruction: k1 CRLF pairs, span 1, k2 CRLF pairs, span 2, ... *)
Fixpoint weave (ks : list nat) (spans : list bytes) : bytes :=
  match ks, spans with
  | k :: ks', sp :: spans' => crlfs k ++ sp ++ weave ks' spans'
  | _, _ => []
  end.

Lemma weave_snoc : forall ks spans k sp, length ks = length spans ->
  weave (ks ++ [k]) (spans ++ [sp]) = weave ks spans ++ crlfs k ++ sp.
Proof.
  induction ks as [|k0 ks IH]; intros [|sp0 spans] k sp H; try discriminate.
  - cbn [weave app]. now rewrite !app_nil_r.
  - cbn [weave app]. rewrite IH by (cbn in H; lia). now rewrite <- !app_assoc.
Qed.

(* ------------------------------------------------------------------ skip_crlfs *)
Lemma skip_crlfs_eq s :
  skip_crlfs s =
  match s with
  | a :: b :: s' => if (a =? 13) && (b =? 10) then skip_crlfs s' else s
  | _ => s
  end.
Proof.
  destruct s as [|a [|b s']]; [reflexivity| |].
  - destruct a as [|pa]; [reflexivity|]. do 4 (try destruct pa as [pa|pa|]); reflexivity.
  - cbn [skip_crlfs].
    destruct a as [|pa]; [reflexivity|]. do 4 (try destruct pa as [pa|pa|]); try reflexivity.
    destruct b as [|pb]; [reflexivity|]. do 4 (try destruct pb as [pb|pb|]); reflexivity.
Qed.

Lemma skip_crlfs_split : forall n s, (length s <= n)%nat -> exists k, s = crlfs k ++ skip_crlfs s.
Proof.
  induction n as [|n IH]; intros s H.
  - destruct s; [|cbn in H; lia]. exists 0%nat. reflexivity.
  - rewrite skip_crlfs_eq. destruct s as [|a [|b s']]; try (exists 0%nat; reflexivity).
    destruct ((a =? 13) && (b =? 10)) eqn:E; [|exists 0%nat; reflexivity].
    apply andb_true_iff in E as [Ea Eb]. apply N.eqb_eq in Ea, Eb. subst.
    destruct (IH s' ltac:(cbn in H; lia)) as [k Hk]. exists (S k).
    unfold crlfs. cbn [repeat concat app]. fold (crlfs k). now rewrite <- Hk.
Qed.

(* what skip_crlfs leaves does not start with CRLF *)
Lemma skip_crlfs_head : forall n s, (length s <= n)%nat ->
  forall rest, find_crlf (skip_crlfs s) <> Some ([], rest).
Proof.
  induction n as [|n IH]; intros s H rest.
  - destruct s; [discriminate|cbn in H; lia].
  - rewrite skip_crlfs_eq. destruct s as [|a [|b s']]; try discriminate.
    destruct ((a =? 13) && (b =? 10)) eqn:E; [apply IH; cbn in H; lia|].
    unfold find_crlf. rewrite find_crlf_aux_cons2, E. intro H1.
    apply find_crlf_aux_shape in H1 as (m & Hm & _). cbn in Hm. destruct m; discriminate.
Qed.

(* ------------------------------------------------------------------ take_block *)
Lemma take_block_suffix : forall f s ls ls' rest, take_block f s ls = Some (ls', rest) ->
  exists pre, s = pre ++ rest /\ (2 <= length pre)%nat.
Proof.
  induction f as [|f IH]; intros s ls ls' rest H; [discriminate|]. cbn [take_block] in H.
  destruct (find_crlf s) as [[l r]|] eqn:E; [|discriminate]. apply find_crlf_shape in E. subst s.
  destruct l as [|c l].
  - inversion H; subst. exists [13; 10]. split; [reflexivity|cbn; lia].
  - apply IH in H as (pre & -> & Hp). exists ((c :: l) ++ 13 :: 10 :: pre). split.
    + rewrite <- app_assoc. reflexivity.
    + rewrite app_length. cbn [length]. lia.
Qed.

(* ------------------------------------------------------------------ dechunk *)
Definition dechunk_body (rec : bytes -> bytes -> list N -> dres) (lim : limits) (max_tr : N)
           (s : bytes) (data : bytes) (ends : list N) : dres :=
  match find_crlf s with
  | None => if has_byte 10 s then DReject ETransferEncoding else DIncomplete
  | Some (line, rest) =>
    if max_line lim <? lenN line then DReject ELineTooLong else
    let size_b := match split_first 59 line with Some (sz, _) => sz | None => line end in
    let ext_bad := match split_first 59 line with Some (_, ext) => has_byte 10 ext | None => false end in
    if ext_bad || negb (nonempty size_b && forallb hex_digit size_b) then DReject ETransferEncoding else
    let size := parse_hex size_b in
    if size =? 0 then
      match take_block (S (length rest)) rest [] with
      | None => DIncomplete
      | Some (tls, rest') =>
        if existsb (fun l => max_field lim <? lenN l) tls then DReject ELineTooLong
        else if max_tr <? lenN tls + 1 then DReject EBadMessage
        else match parse_trailers tls with
             | Some e => DReject e
             | None => DOk data ends rest'
             end
      end
    else
      let '(d, rest1) := takeN size rest in
      if lenN d <? size then DIncomplete else
      match rest1 with
      | [] => DIncomplete
      | a :: t =>
        if a =? 13 then
          match t with
          | [] => DIncomplete
          | b :: rest2 => if b =? 10 then rec rest2 (data ++ d) (ends ++ [lenN (data ++ d)])
                          else DReject ETransferEncoding
          end
        else DReject ETransferEncoding
      end
  end.

Lemma dechunk_S f lim mt s data ends :
  dechunk (S f) lim mt s data ends = dechunk_body (dechunk f lim mt) lim mt s data ends.
Proof.
  unfold dechunk_body. cbn [dechunk].
  destruct (find_crlf s) as [[line rest]|]; [|reflexivity].
  destruct (max_line lim <? lenN line); [reflexivity|].
  destruct (_ || negb _); [reflexivity|].
  destruct (parse_hex _ =? 0); [reflexivity|].
  destruct (takeN _ rest) as [d rest1]. destruct (lenN d <? _); [reflexivity|].
  destruct rest1 as [|a t]; [reflexivity|].
  destruct a as [|pa]; [reflexivity|]. do 4 (try destruct pa as [pa|pa|]); try reflexivity.
  destruct t as [|b rest2]; [reflexivity|].
  destruct b as [|pb]; [reflexivity|]. do 4 (try destruct pb as [pb|pb|]); reflexivity.
Qed.

Ltac dmH H := match type of H with context [match ?x with _ => _ end] => destruct x eqn:? end.

Lemma dechunk_suffix : forall f lim mt s data ends d e rest,
  dechunk f lim mt s data ends = DOk d e rest -> exists pre, s = pre ++ rest /\ (2 <= length pre)%nat.
Proof.
  induction f as [|f IH]; intros lim mt s data ends d e rest H; [discriminate|].
  rewrite dechunk_S in H. unfold dechunk_body in H.
  destruct (find_crlf s) as [[line rest0]|] eqn:E; [|dmH H; discriminate].
  apply find_crlf_shape in E. subst s.
  destruct (max_line lim <? lenN line); [discriminate|].
  destruct (_ || negb _); [discriminate|].
  destruct (parse_hex _ =? 0).
  - destruct (take_block (S (length rest0)) rest0 []) as [[tls rest']|] eqn:Et; [|discriminate].
    apply take_block_suffix in Et as (pre & -> & Hp).
    repeat (dmH H; try discriminate). inversion H; subst.
    exists (line ++ 13 :: 10 :: pre). split; [now rewrite <- app_assoc|rewrite app_length; cbn [length]; lia].
  - destruct (takeN _ rest0) as [d0 rest1] eqn:Et. apply takeN_split in Et as [-> _].
    destruct (lenN d0 <? _); [discriminate|].
    destruct rest1 as [|a t]; [discriminate|]. destruct (a =? 13) eqn:Ea; [|discriminate].
    destruct t as [|b rest2]; [discriminate|]. destruct (b =? 10) eqn:Eb; [|discriminate].
    apply N.eqb_eq in Ea, Eb. subst. apply IH in H as (pre & -> & Hp).
    exists (line ++ 13 :: 10 :: d0 ++ 13 :: 10 :: pre). split.
    + rewrite <- !app_assoc. cbn [app]. rewrite <- app_assoc. reflexivity.
    + rewrite !app_length. cbn [length]. rewrite app_length. cbn [length]. lia.
Qed.

(* ------------------------------------------------------------------ spans *)
Lemma span_of_app pre rest : span_of (pre ++ rest) rest = pre.
Proof.
  unfold span_of. rewrite app_length. replace (length pre + length rest - length rest)%nat with (length pre) by lia.
  rewrite firstn_app, Nat.sub_diag, firstn_all. cbn [firstn]. apply app_nil_r.
Qed.

(* ------------------------------------------------------------------ the partition *)
Definition spans (ms : list smsg) : list bytes := map s_span ms.

Definition partition_of (s0 : bytes) (v : sverdict) : Prop :=
  match v with
  | SAccept ms _ => exists ks k, length ks = length ms /\ s0 = weave ks (spans ms) ++ crlfs k
  | SUpgraded ms rest => exists ks, length ks = length ms /\ s0 = weave ks (spans ms) ++ rest
  | SIncomplete ms rest => exists ks k, length ks = length ms /\ s0 = weave ks (spans ms) ++ crlfs k ++ rest
  | SReject ms _ => exists ks rest, length ks = length ms /\ s0 = weave ks (spans ms) ++ rest
  | SAsk _ _ => True
  end /\
  match v with
  | SAccept ms _ | SUpgraded ms _ | SIncomplete ms _ | SReject ms _ => Forall (fun sm => s_span sm <> []) ms
  | SAsk _ _ => True
  end.

Lemma weave_add ks ms k sm rest :
  length ks = length ms ->
  weave (ks ++ [k]) (spans (ms ++ [sm])) ++ rest =
  weave ks (spans ms) ++ crlfs k ++ s_span sm ++ rest /\ length (ks ++ [k]) = length (ms ++ [sm]).
Proof.
  intro H. unfold spans. rewrite map_app. cbn [map]. rewrite weave_snoc by (now rewrite map_length).
  rewrite <- !app_assoc. split; [reflexivity|]. rewrite !app_length. cbn. lia.
Qed.

Lemma spec_loop_partition lim o : forall f s ms cl s0 ks,
  length ks = length ms -> s0 = weave ks (spans ms) ++ s ->
  Forall (fun sm => s_span sm <> []) ms ->
  partition_of s0 (spec_loop f lim o s ms cl).
Proof.
  induction f as [|f IH]; intros s ms cl s0 ks Hl Hs Hne.
  { cbn [spec_loop]. split; [|exact Hne]. exists ks, 0%nat. split; [exact Hl|exact Hs]. }
  cbn [spec_loop].
  destruct (skip_crlfs_split (length s) s (le_n _)) as [k Hk].
  set (s1 := skip_crlfs s) in *. rewrite Hk in Hs. clearbody s1. clear Hk.
  assert (Hinc : partition_of s0 (SIncomplete ms s1)).
  { split; [|exact Hne]. exists ks, k. split; [exact Hl|exact Hs]. }
  assert (Hrej : forall e, partition_of s0 (SReject ms e)).
  { intro e. split; [|exact Hne]. exists ks, (crlfs k ++ s1). split; [exact Hl|exact Hs]. }
  destruct s1 as [|a r] eqn:Es1.
  { split; [|exact Hne]. exists ks, k. split; [exact Hl|]. now rewrite app_nil_r in Hs. }
  rewrite <- Es1 in *. clear Es1.
  destruct (take_block (S (length s1)) s1 []) as [[ls rest]|] eqn:Et; [|exact Hinc].
  destruct cl; [apply Hrej|].
  destruct ls as [|rl fls]; [apply Hrej|].
  destruct (_ || _); [apply Hrej|].
  destruct (max_headers lim <? _); [apply Hrej|].
  destruct (start_message lim o init _) as [[st e1]|e|c t]; [|apply Hrej|split; exact I].
  destruct (parse_request o _) as [m|e|c t]; [|apply Hrej|split; exact I].
  apply take_block_suffix in Et as (pre & Hpre & Hp2).
  (* closing a message whose span ends where rest' begins *)
  assert (Hstep : forall body ends pre' rest',
            s1 = pre' ++ rest' -> (2 <= length pre')%nat ->
            let sm := mkSM m body ends (span_of s1 rest') in
            (forall cl', partition_of s0 (spec_loop f lim o rest' (ms ++ [sm]) cl')) /\
            partition_of s0 (SUpgraded (ms ++ [sm]) rest')).
  { intros body ends pre' rest' Hsp Hlen sm.
    assert (Hspan : s_span sm = pre') by (subst sm; cbn [s_span]; rewrite Hsp; apply span_of_app).
    destruct (weave_add ks ms k sm rest' Hl) as [Hw Hl'].
    assert (Hne' : Forall (fun sm0 => s_span sm0 <> []) (ms ++ [sm])).
    { apply Forall_app. split; [exact Hne|]. constructor; [|constructor]. rewrite Hspan.
      destruct pre'; [cbn in Hlen; lia|discriminate]. }
    assert (Hs0 : s0 = weave (ks ++ [k]) (spans (ms ++ [sm])) ++ rest').
    { rewrite Hw, Hspan, Hs, Hsp. reflexivity. }
    split.
    - intro cl'. eapply IH; eassumption.
    - split; [|exact Hne']. exists (ks ++ [k]). split; assumption. }
  destruct (payload st) as [p|].
  - destruct (pk p) as [n|c|].
    + destruct (takeN n rest) as [d rest'] eqn:En. apply takeN_split in En as [Hr _].
      destruct (lenN d <? n); [exact Hinc|].
      destruct (Hstep d [] (pre ++ d) rest') as [H1 H2].
      { rewrite Hpre, Hr. now rewrite <- app_assoc. } { rewrite app_length. lia. }
      destruct (pending_upgrade st); [exact H2|apply H1].
    + destruct (dechunk _ lim _ rest [] []) as [d ends rest'| |e] eqn:Ed; [|exact Hinc|apply Hrej].
      apply dechunk_suffix in Ed as (pre2 & Hr & _).
      destruct (Hstep d ends (pre ++ pre2) rest') as [H1 H2].
      { rewrite Hpre, Hr. now rewrite <- app_assoc. } { rewrite app_length. lia. }
      destruct (pending_upgrade st); [exact H2|apply H1].
    + destruct (Hstep [] [] pre rest Hpre Hp2) as [_ H2]. exact H2.
  - destruct (Hstep [] [] pre rest Hpre Hp2) as [H1 H2].
    destruct (upgraded st); [exact H2|apply H1].
Qed.

Theorem spec_partition lim o s : partition_of s (spec lim o s).
Proof.
  unfold spec. apply (spec_loop_partition lim o _ s [] false s []); [reflexivity|reflexivity|constructor].
Qed.
