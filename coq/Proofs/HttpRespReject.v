(* What an ACCEPTED response head satisfies (response parser, lax mode), hence which heads are
   rejected: status line syntax, field names and values (folded or not), Content-Length together with
   Transfer-Encoding, non-decimal Content-Length.  For all byte strings. *)
From AV Require Import Lib.Base Lib.BytesX Lib.Utf8Decode Generated.HttpGen Generated.HttpRespGen Model.Http Model.HttpResp
  Proofs.HttpReject Proofs.HttpHead Proofs.HttpSegBase Proofs.HttpRespBase.
From Coq Require Import ZifyBool ZifyN.
Open Scope N_scope.

(* ---------- fields ---------- *)
Definition field_ok (kv : bytes * bytes) : Prop :=
  fst kv <> [] /\ forallb tchar (fst kv) = true /\ existsb lax_value_forbidden (snd kv) = false.

Lemma parse_field_name_ok line n v : parse_field_name line = QOk (n, v) -> n <> [] /\ forallb tchar n = true.
Proof.
  unfold parse_field_name. destruct (split_byte 58 line) as [[bn bv]|]; [|discriminate].
  destruct bn as [|f0 bn]; [discriminate|].
  destruct (is_ows f0 || is_ows (last (f0 :: bn) 0)); [discriminate|].
  destruct (negb (forallb tchar (f0 :: bn))) eqn:E; [discriminate|].
  intro H. inversion H; subst. split; [discriminate|]. now apply negb_false_iff in E.
Qed.

Lemma finish_field_ok cu kv : cu_name cu <> [] -> forallb tchar (cu_name cu) = true ->
  finish_field cu = QOk kv -> field_ok kv.
Proof.
  unfold finish_field. intros A B. destruct (existsb lax_value_forbidden (strip_ows_l (cu_value cu))) eqn:E; [discriminate|].
  intro H. inversion H; subst. repeat split; assumption.
Qed.

Definition cur_name_ok (c : option cur) : Prop :=
  match c with Some cu => cu_name cu <> [] /\ forallb tchar (cu_name cu) = true | None => True end.

Lemma parse_fields_lax_ok mf : forall lines c acc hs,
  cur_name_ok c -> Forall field_ok acc -> parse_fields_lax mf lines c acc = QOk hs -> Forall field_ok hs.
Proof.
  induction lines as [|l ls IH]; intros c acc hs Hc Ha H; cbn [parse_fields_lax] in H.
  - destruct c as [cu|]; [|inversion H; subst; exact Ha].
    destruct (finish_field cu) as [kv|] eqn:Ef; [|discriminate]. inversion H; subst.
    apply Forall_app. split; [exact Ha|]. constructor; [|constructor]. destruct Hc. eapply finish_field_ok; eassumption.
  - destruct c as [cu|].
    + destruct (starts_ows l).
      * destruct (mf <? cu_len cu + lenN l); [discriminate|]. eapply IH; [|exact Ha|exact H]. exact Hc.
      * destruct l as [|l0 l1].
        -- destruct (cu_cont cu); [eapply IH; eassumption|].
           destruct (finish_field cu) as [kv|] eqn:Ef; [|discriminate]. inversion H; subst.
           apply Forall_app. split; [exact Ha|]. constructor; [|constructor]. destruct Hc. eapply finish_field_ok; eassumption.
        -- destruct (finish_field cu) as [kv|] eqn:Ef; [|discriminate].
           destruct (parse_field_name (l0 :: l1)) as [[n v]|] eqn:En; [|discriminate].
           eapply IH; [| |exact H]; [exact (parse_field_name_ok _ _ _ En)|].
           apply Forall_app. split; [exact Ha|]. constructor; [|constructor]. destruct Hc. eapply finish_field_ok; eassumption.
    + destruct l as [|l0 l1]; [inversion H; subst; exact Ha|].
      destruct (parse_field_name (l0 :: l1)) as [[n v]|] eqn:En; [|discriminate].
      eapply IH; [|exact Ha|exact H]. exact (parse_field_name_ok _ _ _ En).
Qed.

(* every accepted field - folded or not - has a token as its name and no NUL / CR / LF in its value *)
Theorem parse_headers_lax_ok mf lines hs : parse_headers_lax mf lines = QOk hs -> Forall field_ok hs.
Proof. intro H. exact (parse_fields_lax_ok mf lines None [] hs I (Forall_nil _) H). Qed.

(* a field line starting with white space that does not continue a field is never accepted *)
Lemma leading_ows_rejected mf l ls hs : starts_ows l = true -> parse_headers_lax mf (l :: ls) <> QOk hs.
Proof.
  unfold parse_headers_lax. cbn [parse_fields_lax]. destruct l as [|c l]; [discriminate|]. cbn [starts_ows].
  intros Hc. unfold parse_field_name. destruct (split_byte 58 (c :: l)) as [[bn bv]|] eqn:E; [|discriminate].
  destruct bn as [|f0 bn]; [discriminate|].
  destruct (split_byte_head _ _ _ _ _ E) as [A|[l' A]]; [discriminate|]. inversion A; subst.
  rewrite Hc. cbn [orb]. discriminate.
Qed.

(* ---------- Transfer-Encoding / Content-Length ---------- *)
Lemma has_header_get name hs : has_header name hs = true -> exists v, get_header name hs = Some v.
Proof.
  unfold has_header, get_header. induction hs as [|[k v] hs IH]; cbn [existsb header_values fst]; [discriminate|].
  destruct (ieqb k name); cbn [orb]; [intros _; eexists; reflexivity|exact IH].
Qed.

Lemma derive_resp_ok hs hi : derive_resp hs = QOk hi ->
  match get_header h_transfer_encoding hs with
  | None => hi_chunked hi = false
  | Some te => hi_chunked hi = is_chunked_te_resp te /\ has_header h_content_length hs = false
  end.
Proof.
  unfold derive_resp. destruct (get_header h_transfer_encoding hs) as [te|].
  - destruct (has_header h_content_length hs); [discriminate|]. intro H. inversion H. cbn. auto.
  - intro H. inversion H. reflexivity.
Qed.

Lemma derive_resp_rejects_cl_and_te hs hi :
  has_header h_transfer_encoding hs = true -> has_header h_content_length hs = true -> derive_resp hs <> QOk hi.
Proof.
  intros Ht Hc H. apply has_header_get in Ht as [te Ht]. apply derive_resp_ok in H. rewrite Ht in H.
  destruct H as [_ H]. congruence.
Qed.

(* ---------- the whole head ---------- *)
Definition accepted_resp_head (mf : N) (sl : bytes) (fls : list bytes) (m : rmsg) : Prop :=
  exists version status reason hi,
    split_status_line (decode_se sl) = Some (version, status, reason) /\
    parse_version version = Some (rm_vmaj m, rm_vmin m) /\
    lenN status = status_code_len /\ forallb dec_digit status = true /\ rm_code m = parse_dec status /\
    rm_reason m = strip_sp reason /\
    parse_headers_lax mf fls = QOk (rm_headers m) /\ derive_resp (rm_headers m) = QOk hi /\
    rm_chunked m = hi_chunked hi /\ rm_upgrade m = hi_upgrade hi /\ rm_compression m = hi_enc hi.

Lemma parse_response_ok mf sl fls m : parse_response mf (sl :: fls) = QOk m -> accepted_resp_head mf sl fls m.
Proof.
  unfold parse_response.
  destruct (split_status_line (decode_se sl)) as [[[version status] reason]|] eqn:Es; [|discriminate].
  destruct (parse_version version) as [[vmaj vmin]|] eqn:Ev; [|discriminate].
  destruct (negb ((lenN status =? status_code_len) && forallb dec_digit status)) eqn:Ed; [discriminate|].
  destruct (parse_headers_lax mf fls) as [hs|] eqn:Eh; [|discriminate].
  destruct (derive_resp hs) as [hi|] eqn:Eder; [|discriminate].
  intro H. inversion H; subst. clear H. cbn.
  apply negb_false_iff in Ed. apply andb_true_iff in Ed as [E1 E2]. apply N.eqb_eq in E1.
  exists version, status, reason, hi. cbn. repeat split; assumption.
Qed.

Lemma parse_response_nil mf m : parse_response mf [] <> QOk m.
Proof. discriminate. Qed.

Theorem accepted_resp_not_cl_and_te mf sl fls m : parse_response mf (sl :: fls) = QOk m ->
  ~ (has_header h_transfer_encoding (rm_headers m) = true /\ has_header h_content_length (rm_headers m) = true).
Proof.
  intros H [A B]. apply parse_response_ok in H as (v & st & rs & hi & _ & _ & _ & _ & _ & _ & _ & Hd & _).
  exact (derive_resp_rejects_cl_and_te _ _ A B Hd).
Qed.

Theorem accepted_resp_fields_ok mf sl fls m : parse_response mf (sl :: fls) = QOk m -> Forall field_ok (rm_headers m).
Proof.
  intro H. apply parse_response_ok in H as (v & st & rs & hi & _ & _ & _ & _ & _ & _ & Hh & _).
  exact (parse_headers_lax_ok _ _ _ Hh).
Qed.

(* three ASCII digits: the status code is below 1000 *)
Lemma parse_dec3 a b c : dec_digit a = true -> dec_digit b = true -> dec_digit c = true -> parse_dec [a; b; c] < 1000.
Proof. unfold parse_dec, dec_val, dec_digit. cbn [fold_left]. lia. Qed.

Theorem accepted_resp_status mf sl fls m : parse_response mf (sl :: fls) = QOk m ->
  exists a b c, dec_digit a = true /\ dec_digit b = true /\ dec_digit c = true /\
    rm_code m = parse_dec [a; b; c] /\ rm_code m < 1000 /\
    exists version reason, split_status_line (decode_se sl) = Some (version, [a; b; c], reason) /\
      parse_version version = Some (rm_vmaj m, rm_vmin m).
Proof.
  intro H. apply parse_response_ok in H as (v & st & rs & hi & Hs & Hv & Hl & Hd & Hc & _).
  destruct st as [|a [|b [|c [|d st]]]]; try (unfold lenN, status_code_len in Hl; cbn in Hl; lia).
  cbn [forallb] in Hd. apply andb_true_iff in Hd as [Ha Hd]. apply andb_true_iff in Hd as [Hb Hd].
  apply andb_true_iff in Hd as [Hc' _].
  exists a, b, c. repeat split; try assumption.
  - rewrite Hc. now apply parse_dec3.
  - exists v, rs. split; assumption.
Qed.

(* ---------- rstart_message: Content-Length must be 1*DIGIT ---------- *)
Lemma rstart_message_cl cfg s ls r : rstart_message cfg s ls = QOk r ->
  exists m, parse_response (max_field (c_lim cfg)) (removelast ls) = QOk m /\
    match get_header h_content_length (rm_headers m) with
    | Some v => v <> [] /\ forallb dec_digit v = true
    | None => True
    end /\ has_header h_sec_websocket_key1 (rm_headers m) = false.
Proof.
  unfold rstart_message. destruct (parse_response (max_field (c_lim cfg)) (removelast ls)) as [m|] eqn:E; try discriminate.
  destruct (get_header h_content_length (rm_headers m)) as [v|] eqn:Ec.
  - destruct (nonempty v && forallb dec_digit v && (lenN v <=? int_max_str_digits)) eqn:Ed; [|discriminate].
    destruct (has_header h_sec_websocket_key1 (rm_headers m)) eqn:Ek; [discriminate|].
    intros _. exists m. apply andb_true_iff in Ed as [Ed _]. apply andb_true_iff in Ed as [Hn Hd]. split; [reflexivity|]. rewrite Ec. split; [|exact Ek].
    split; [|exact Hd]. intros ->. discriminate Hn.
  - destruct (has_header h_sec_websocket_key1 (rm_headers m)) eqn:Ek; [discriminate|].
    intros _. exists m. rewrite Ec. auto.
Qed.
